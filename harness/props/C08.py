"""C08 — Exhausted failures route to the owning error handler within budget."""
import random
from collections import Counter

from props._engine_common import run_l1, run_l2, report_l2
from suites import catchcfg as H, engine as E, engine_specs as S
from workflows.events import StepFailedEvent, WorkflowFailedEvent
from workflows.runtime.types.commands import CommandFailWorkflow, CommandPublishEvent, CommandQueueEvent
from workflows.runtime.types.results import StepWorkerFailed
from workflows.runtime.types.ticks import TickStepResult

THEOREMS = "C08_exhausted_failure_routed_to_owner / C08_no_owner_or_budget_spent_fails_run / C08_retry_keeps_lineage"


def l1_monitor(rec):
    """failed-result transitions of the real reducer against the routing/budget statement"""
    if rec[0] != "tick":
        return []
    _, before, t, after, cmds, now = rec
    if not isinstance(t, TickStepResult) or t.step_name not in before.workers:
        return []
    fails = [r for r in t.result if isinstance(r, StepWorkerFailed)]
    if len(fails) != 1 or len(t.result) != 1:
        return []
    ip = next((x for x in before.workers[t.step_name].in_progress if x.worker_id == t.worker_id), None)
    if ip is None:
        return []
    out = []
    q = [c for c in cmds if isinstance(c, CommandQueueEvent)]
    retry = [c for c in q if c.attempts]
    routed = [c for c in q if isinstance(c.event, StepFailedEvent)]
    failed = [c for c in cmds if isinstance(c, CommandFailWorkflow)]
    cfg = before.config
    hname = cfg.handler_for_step.get(t.step_name)
    h = cfg.catch_error_handlers.get(hname) if hname else None
    if retry:
        c = retry[0]
        if c.step_name != t.step_name or c.event is not t.event or dict(c.recovery_counts) != dict(ip.recovery_counts):
            out.append("retry of %s does not re-queue the same event for the same step with the same recovery counts" % t.step_name)
        if routed or failed:
            out.append("a retried failure was also routed / failed the run")
        return out
    cur = ip.recovery_counts.get(hname, 0) if hname else 0
    if h is not None and cur + 1 <= h.max_recoveries:
        if len(routed) != 1 or failed:
            out.append("exhausted failure of %s with owner %s (count %d of %d) was not routed exactly once"
                       % (t.step_name, hname, cur, h.max_recoveries))
        else:
            c = routed[0]
            want = dict(ip.recovery_counts)
            want[hname] = cur + 1
            if c.step_name != hname:
                out.append("StepFailedEvent of %s addressed to %r, owner is %s" % (t.step_name, c.step_name, hname))
            if dict(c.recovery_counts) != want:
                out.append("recovery counts %s on the routed failure, expected %s" % (dict(c.recovery_counts), want))
            if c.event.step_name != t.step_name or c.event.exception is not fails[0].exception:
                out.append("StepFailedEvent does not carry the failing step / original exception")
    else:
        if routed:
            out.append("failure of %s routed to a handler although %s" % (
                t.step_name, "it has no owner" if h is None else "the budget %d is spent (count %d)" % (h.max_recoveries, cur)))
        if len(failed) != 1 or failed[0].exception is not fails[0].exception:
            out.append("run not failed with the original exception after an unrecoverable failure of %s" % t.step_name)
        if not any(isinstance(c, CommandPublishEvent) and isinstance(c.event, WorkflowFailedEvent) for c in cmds):
            out.append("no WorkflowFailedEvent published when the run fails")
    return out


def expected_owner(spec, step):
    hs = spec.get("handlers", {})
    if step in hs:
        return None
    for n, h in hs.items():
        if h["for_steps"] is not None and step in h["for_steps"]:
            return n
    for n, h in hs.items():
        if h["for_steps"] is None:
            return n
    return None


def l2_monitor(spec, rec, obs):
    out = []
    hs = spec.get("handlers", {})
    # handler entries: which handler got which step's failure
    entries = [r for r in rec.log if r["kind"] == "enter" and r["step"] in hs]
    per = Counter(r["step"] for r in entries)
    for n, c in per.items():
        if c > hs[n]["max_recoveries"]:
            out.append("handler %s entered %d times on one lineage, max_recoveries=%d" % (n, c, hs[n]["max_recoveries"]))
    for r in entries:
        fs = r.get("failed_step")
        if fs is not None and expected_owner(spec, fs) != r["step"]:
            out.append("the failure of step %s was handed to handler %s, its owner is %s"
                       % (fs, r["step"], expected_owner(spec, fs)))
    # every exhausted failure: find exits by raise, in order, and the policy's exhaustion is visible as the
    # next handler entry or the run failure; check the owner of every handler entry through the StepFailedEvent
    sfe = [e for e in obs.stream if isinstance(e, StepFailedEvent)]
    failed_steps = []
    for r in rec.log:
        if r["kind"] == "enter" and r["step"] in hs:
            failed_steps.append(r)
    ended_failed = obs.done and obs.exception is not None
    wfe = [e for e in obs.stream if isinstance(e, WorkflowFailedEvent)]
    if ended_failed and type(obs.exception).__name__ in ("ValueError", "RuntimeError", "KeyError"):
        if len(wfe) != 1:
            out.append("run failed with %r but %d WorkflowFailedEvent on the stream" % (obs.exception, len(wfe)))
        else:
            w = wfe[0]
            owner = expected_owner(spec, w.step_name)
            if owner is not None and per.get(owner, 0) < hs[owner]["max_recoveries"]:
                out.append("run failed at step %s although its owner %s was entered only %d of %d times"
                           % (w.step_name, owner, per.get(owner, 0), hs[owner]["max_recoveries"]))
            if w.exception is not obs.exception and (type(w.exception), str(w.exception)) != (type(obs.exception), str(obs.exception)):
                out.append("WorkflowFailedEvent carries %r but the run raised %r" % (w.exception, obs.exception))
    return out, dict(handler_entries=len(entries), runs_failed=1 if ended_failed else 0,
                     runs_validation_disabled=1 if spec.get("disable_validation") else 0,
                     budget_reached=1 if any(per.get(n, 0) == hs[n]["max_recoveries"] for n in hs) else 0,
                     handler_raised=1 if any(r["kind"] == "exit" and r["step"] in hs and r["outcome"].startswith("raise")
                                             for r in rec.log) else 0)


def handler_order(rec, hs):
    return [(r["step"]) for r in rec.log if r["kind"] == "enter" and r["step"] in hs]


async def _resume_on_fresh_instance(seed):
    """a run with @catch_error handlers is snapshotted while the step that will fail is still working (parked at a gate),
    stopped, and resumed with Context.from_dict on a workflow OBJECT THAT HAS NEVER RUN; the failure then exhausts the
    step's retries and must be routed to its owner exactly as in an uninterrupted run"""
    import asyncio
    import json
    import vloop
    from suites import engine as E
    from suites.wfevents import T1
    from workflows import Context
    from workflows import retry_policy as rp
    from workflows.events import StartEvent, StopEvent
    rng = random.Random(seed)
    layout = rng.choice(["scoped", "wild", "both"])
    handlers = {}
    if layout in ("scoped", "both"):
        handlers["h_scoped"] = dict(for_steps=["b_work"], max_recoveries=2, returns=[StopEvent], script=[("return_const", "scoped")])
    if layout in ("wild", "both"):
        handlers["h_wild"] = dict(for_steps=None, max_recoveries=2, returns=[StopEvent], script=[("return_const", "wild")])
    spec = dict(steps={
        "a_start": dict(accepts=[StartEvent], returns=[T1], num_workers=1, script=[("return", T1)]),
        "b_work": dict(accepts=[T1], returns=[StopEvent], num_workers=1,
                       policy=rp.retry_policy(wait=rp.wait_fixed(0), stop=rp.stop_after_attempt(rng.choice([1, 2]))),
                       script=[("gate", "w"), ("raise", "value", "boom")]),
    }, handlers=handlers, disable_validation=rng.random() < 0.5)
    rec = E.Recorder()
    wf = E.build_workflow(spec, rec)
    handler = wf.run()

    async def drain(h):
        try:
            async for _ in h.stream_events(expose_internal=True):
                pass
        except Exception:  # noqa: BLE001
            pass
    cons = asyncio.ensure_future(drain(handler))
    await vloop.settle()
    d = json.loads(json.dumps(handler.ctx.to_dict()))
    await handler.cancel_run()
    await vloop.settle()
    try:
        await handler
    except BaseException:  # noqa: BLE001
        pass
    await asyncio.gather(cons, return_exceptions=True)
    rec2 = E.Recorder()
    rec2.eid = rec.eid
    wf2 = E.build_workflow(spec, rec2)           # a fresh object: never run, never validated by a run
    obs = await E.drive(wf2, rec2, rng, ctx=Context.from_dict(wf2, d), policy="random")
    want = "scoped" if "h_scoped" in handlers else "wild"
    return dict(spec=spec, obs=obs, want=want, layout=layout)


async def _late_registration(seed, disable_validation):
    """a step or a @catch_error handler is registered on the workflow CLASS (Workflow.add_step / @step(workflow=...)) after
    the instance was created and before its first run; a step then exhausts its retries.  Returns (outcome, handler entries)."""
    import asyncio
    from workflows import Context, Workflow, catch_error, step
    from workflows.events import Event, StartEvent, StepFailedEvent, StopEvent
    rng = random.Random(seed)
    variant = rng.choice(["late-scoped", "late-step-under-wildcard", "late-scoped-beats-wildcard"])
    entered = []

    class Mid(Event):
        pass

    if variant == "late-step-under-wildcard":
        class Flow(Workflow):
            @step
            async def first(self, ev: StartEvent) -> Mid:
                return Mid()

            @catch_error
            async def fallback(self, ctx: Context, ev: StepFailedEvent) -> StopEvent:
                entered.append(("fallback", ev.step_name))
                return StopEvent(result="wildcard")
        wf = Flow(timeout=50, disable_validation=disable_validation, skip_graph_checks={"dead_end", "terminal_event"})

        @step(workflow=Flow)
        async def second(ev: Mid) -> StopEvent:
            raise ValueError("second failed")
        want = ("wildcard", [("fallback", "second")])
    else:
        if variant == "late-scoped":
            class Flow(Workflow):
                @step
                async def work(self, ev: StartEvent) -> StopEvent:
                    raise ValueError("work failed")
        else:
            class Flow(Workflow):
                @step
                async def work(self, ev: StartEvent) -> StopEvent:
                    raise ValueError("work failed")

                @catch_error
                async def fallback(self, ctx: Context, ev: StepFailedEvent) -> StopEvent:
                    entered.append(("fallback", ev.step_name))
                    return StopEvent(result="wildcard")
        wf = Flow(timeout=50, disable_validation=disable_validation)

        @catch_error(for_steps=["work"])
        async def rescue(ctx: Context, ev: StepFailedEvent) -> StopEvent:
            entered.append(("rescue", ev.step_name))
            return StopEvent(result="scoped")
        Flow.add_step(rescue)
        want = ("scoped", [("rescue", "work")])
    try:
        res = await asyncio.wait_for(wf.run(), 100)
        got = (res, list(entered))
    except Exception as ex:  # noqa: BLE001
        got = ("raised %s: %s" % (type(ex).__name__, ex), list(entered))
    return variant, want, got


def run(ctx):
    ctx.rule = ("L0: random @catch_error layouts (scoped/wildcard/none, unknown targets, handler targets, double claims, bad "
                "max_recoveries) through the real _collect_catch_error_handlers vs Model/Handlers.v; L1: failed-result "
                "transitions of the real reducer (owner, budget, lineage counts); L2: failing workflows with handlers that "
                "re-enter / recover / raise, retry policies, both disable_validation settings, and each spec run twice "
                "(validation on/off) with identical schedules; distinct key = layout / history index / run facts")
    ctx.prove()
    rng = random.Random(ctx.seed * 23 + 1)
    n = ctx.n(800, 30000)
    exprs, fails, kinds = [], [], Counter()
    for i in range(n):
        steps, decl = H.gen(rng)
        r = H.real(steps)
        exprs.append("handlers_case %s %s" % (H.g_decl(decl), "[" + "; ".join(str(z) if z >= 0 else "(%d)" % z for z in H.encode(steps, r)) + "]"))
        kind = "invalid" if r is None else ("table%d" % len(r[1]))
        kinds["invalid" if r is None else "valid"] += 1
        ctx.count(1, (tuple((nm, None if h is None else (None if h[0] is None else tuple(h[0]), h[1])) for nm, h in decl), kind))
        if i < 3:
            ctx.sample(dict(kind="l0-handlers", decl=[(nm, h) for nm, h in decl],
                            table=None if r is None else dict(r[1])), limit=8)
        for w in H.monitor(steps, decl, r):
            fails.append(dict(why=w, decl=[(nm, h) for nm, h in decl], table=dict(r[1])))
    res = ctx.run_cases("catchcfg", H.HEADER, exprs)
    bad = [i for i, z in enumerate(res) if z != 0]
    ctx.suite("catchcfg", cases=n, disagreements=len(bad), kinds=dict(kinds), monitor_failures=len(fails))
    ctx.disagreements += len(bad)
    ctx.disagreements_checked += len(bad)
    for f in fails[:3]:
        ctx.violation("C08 fails on the real routing table: %s" % f["why"], dict(kind="implementation-monitor/L0", input=f))
    if bad and not fails:
        ctx.violation("model/implementation disagreement in suite catchcfg (no property-level failing input found)",
                      dict(suite="catchcfg", theorem="C08_owner_is_scoped_else_wildcard (Model/Handlers.v no longer matches "
                           "_collect_catch_error_handlers)", coq_cases=[exprs[i] for i in bad[:3]]), found_input=False)
    ctx.require_coverage("catchcfg", "valid", kinds["valid"], 100)
    ctx.require_coverage("catchcfg", "invalid", kinds["invalid"], 30)
    run_l1(ctx, ctx.n(100, 4000), l1_monitor, THEOREMS, need=("routed_to_handler", "fail_workflow", "retry_queued"))
    fails2, facts = run_l2(ctx, [S.failflow], ctx.n(150, 4000), l2_monitor,
                           need=(("handler_entries", 40), ("runs_failed", 20), ("runs_validation_disabled", 20),
                                 ("budget_reached", 10), ("handler_raised", 5)))
    # validation independence: the same spec and schedule with validation on and off behave identically
    rng2 = random.Random(ctx.seed * 29 + 3)
    ndiff, npairs = 0, ctx.n(60, 1500)
    for i in range(npairs):
        seed = rng2.randrange(1 << 30)

        def mk(dv):
            def f(rng):
                spec, ext, opts = S.failflow(rng)
                spec["disable_validation"] = dv
                return spec, ext, opts
            f.__name__ = "failflow"
            return f
        try:
            spec0, rec0, obs0 = E.run_case(mk(False), seed)
            spec1, rec1, obs1 = E.run_case(mk(True), seed)
        except RuntimeError as ex:
            if "quiescent" not in str(ex):
                raise
            ndiff += 1
            ctx.violation("C08 fails on the real engine: livelock - a failing lineage re-enters its handler without bound (%s)" % ex,
                          dict(kind="implementation-monitor/L2", input=dict(template="failflow", seed=seed)))
            continue
        hs = spec0.get("handlers", {})
        sig0 = (handler_order(rec0, hs), type(obs0.exception).__name__ if obs0.exception else "ok")
        sig1 = (handler_order(rec1, hs), type(obs1.exception).__name__ if obs1.exception else "ok")
        ctx.count(1, ("dv-pair", tuple(sig0[0]), sig0[1]))
        if sig0 != sig1:
            ndiff += 1
            if ndiff <= 2:
                ctx.violation("C08 fails on the real engine: routing depends on disable_validation: validation on -> %s, off -> %s"
                              % (sig0, sig1), dict(kind="implementation-monitor/L2", finding_key="C08/validation-dependent-routing",
                                                   input=dict(template="failflow", seed=seed, handlers={k: {kk: vv for kk, vv in v.items() if kk != "script"} for k, v in hs.items()})))
    ctx.programs += 2 * npairs
    ctx.suite("engine.validation_pairs", pairs=npairs, differing=ndiff)
    report_l2(ctx, fails2)
    # routing after a resume on a workflow object that has never run
    import vloop
    nr, routed = ctx.n(30, 400), 0
    for i in range(nr):
        seed = rng.randrange(1 << 30)
        r = vloop.run(_resume_on_fresh_instance(seed))
        obs = r["obs"]
        ctx.count(1, ("fresh-resume", r["layout"], r["spec"]["disable_validation"]))
        if obs.done and obs.exception is None and obs.result == r["want"]:
            routed += 1
        else:
            ctx.violation("C08 fails on the real engine: a run snapshotted before its step failed and resumed on a workflow object "
                          "that had never run ended with result=%r exception=%r; the exhausted failure of b_work belongs to handler %s "
                          "(layout %s, disable_validation=%s)" % (obs.result, obs.exception, "h_" + r["want"], r["layout"],
                                                                 r["spec"]["disable_validation"]),
                          dict(kind="implementation-monitor/L2", input=dict(template="catch_error + snapshot + resume on a fresh object", seed=seed)))
            break
    ctx.programs += nr
    ctx.suite("engine.resume_on_fresh_instance", runs=nr, routed_to_owner=routed)
    # steps / handlers registered on the class after the instance exists, with and without validation
    nl, late_ok = ctx.n(12, 120), 0
    for i in range(nl):
        seed = rng.randrange(1 << 30)
        bad = None
        for dv in (False, True):
            variant, want, got = vloop.run(_late_registration(seed, dv))
            ctx.count(1, ("late-registration", variant, dv))
            if got != want:
                bad = (dv, variant, want, got)
        if bad is None:
            late_ok += 1
        else:
            dv, variant, want, got = bad
            ctx.violation("C08 fails on the real engine: %s registered on the workflow class after the instance was created "
                          "(disable_validation=%s): the exhausted failure ended as %r with handler entries %s; its owner gives %r / %s"
                          % (variant, dv, got[0], got[1], want[0], want[1]),
                          dict(kind="implementation-monitor/L2", input=dict(template="late registration: " + variant, seed=seed,
                                                                             disable_validation=dv)))
            break
    ctx.programs += 2 * nl
    ctx.suite("engine.late_registration", runs=nl, routed_to_owner=late_ok)


def replay(ctx, path):
    import json
    print(json.dumps(json.load(open(path)), indent=1)[:4000])
    run(ctx)
