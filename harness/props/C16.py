"""C16 — The stored event log is gap-free and resumable from any cursor."""
import json
import random

import core
from suites import eventlog as EL

THEOREMS = ("C16_numbering / C16_subscribe_stored / C16_interleaving / C16_catch_up / C16_backends_equivalent / "
            "C16_resume_compose / C16_resolve_*")


def first_bad_op(flat_expected, code):
    """run_case returns 1 + index of the first differing int of the flattened observations;
    translate it into the index of the op whose observation differs"""
    pos, i, op = code - 1, 0, 0
    while i < len(flat_expected):
        n = flat_expected[i]
        if pos <= i + n:
            return op
        i += n + 1
        op += 1
    return op


def _cases(ctx, name, header, exprs, **kw):
    """ctx.run_cases, except that with a broken Coq build the comparison is skipped (the break itself is
    reported by finish(); the monitors still search for a failing input)"""
    if ctx.broken_obligations:
        try:
            return ctx.run_cases(name, header, exprs, **kw)
        except core.CheckError as e:
            ctx.notes.append("comparison %s skipped, Coq side broken: %s" % (name, str(e)[:200]))
            return [0] * len(exprs)
    return ctx.run_cases(name, header, exprs, **kw)


def run(ctx, only=None):
    ctx.rule = ("random op sequences over two run ids on MemoryWorkflowStore, SqliteWorkflowStore (per-call and "
                "single-connection): appends (plain / derived / internal / StopEvent and subclasses, terminal at a "
                "random position, sometimes followed by more events), subscriptions (store and the polling default) "
                "with cursors at -1, inside, at the last event, ahead of the log and below -1, _resolve_event_stream "
                "with now / explicit cursors and absent / run-less / running / completed handlers, next requests, "
                "poll-interval ticks and query_events with and without limit, followed by a drain phase; distinct "
                "key = (backend, op-kind signature, cursor classes, terminal position)")
    ctx.prove()
    # the comparator is not a dependency of the property file: build it explicitly (a failure is a broken
    # obligation; the implementation-side monitors below still run and report a concrete input if there is one)
    ok, out = core.coq_make(["theories/Model/EventLogEnc.vo"])
    if not ok:
        ctx.broken_obligations.append(("make theories/Model/EventLogEnc.vo", out[-3000:]))
    ctx.trusted.append("source-slice loader: _WorkflowAPI._resolve_event_stream is executed from the text of _api.py "
                       "(starlette is absent), HTTPException replaced by a stand-in carrying detail/status_code")
    ctx.trusted.append("asyncio.Condition / asyncio.sleep wake-ups are modelled as ANotify / ATimeout actions; "
                       "EventEnvelopeWithMetadata.from_event supplies type/types (real code)")
    rng = random.Random(ctx.seed * 7919 + 16)
    n = ctx.n(50, 800)
    cases = only or [EL.gen_case(rng) for _ in range(n)]
    exprs, meta, fails = [], [], []
    tot = {}
    per_backend_obs = []
    nexec = 0
    for ci, ops in enumerate(cases):
        st = EL.case_stats(ops)
        for k, v in st.items():
            tot[k] = tot.get(k, 0) + int(v)
        obs_by_backend = {}
        # the single-connection variant of the SQLite store shares all of the code under test but the
        # connection handling (C21's subject): run it on every third case
        backends = EL.BACKENDS if ci % 3 == 0 else EL.BACKENDS[:2]
        nexec += len(backends)
        for b in backends:
            res = EL.execute(b, ops, ctx.scratch, tag="c16")
            obs_by_backend[b] = res
            for r in EL.RUNS:
                exprs.append(EL.coq_case(b, ops, r, res.obs[r]))
                meta.append((ci, b, r))
            for key, what in EL.monitor_case(ops, res):
                fails.append(dict(key=key, what=what, backend=b, ops=ops, case=ci))
            sig = tuple(sorted((k, min(v, 3)) for k, v in st.items() if k in (
                "cursor_ahead", "cursor_now", "cursor_negative", "terminal_mid_log", "events_after_terminal",
                "resolve_now", "base_subs", "filtered_streams", "late_events_below_cursor")))
            ctx.count(1, (b, min(st["appends"], 6), min(st["subs"], 4), min(st["resolves"], 3), sig))
        # the three backends must be indistinguishable, op by op
        ref = obs_by_backend["memory"]
        for b in backends[1:]:
            for r in EL.RUNS:
                oa, ob = ref.obs[r], obs_by_backend[b].obs[r]
                if oa != ob:
                    j = next((i for i, (x, y) in enumerate(zip(oa, ob)) if x != y), min(len(oa), len(ob)))
                    fails.append(dict(key="C16/backend-divergence", backend="memory vs " + b, ops=ops, case=ci,
                                      what="run %s, op #%d %r: memory observed %r, %s observed %r"
                                           % (r, j, EL.project(ops, r)[j], oa[j] if j < len(oa) else "(nothing)", b,
                                              ob[j] if j < len(ob) else "(nothing)")))
        per_backend_obs.append(obs_by_backend)
        if ci < 3:
            ctx.sample(dict(ops=[list(o) for o in ops[:14]], n_ops=len(ops),
                            memory_obs_run_r=ref.obs["r"][:14],
                            subscribers=[[list(spec), [list(e[:2]) for e in out], fin]
                                         for spec, out, fin in ref.subs["r"]][:4]), limit=4)
    # several store objects on one database (two processes / before and after a restart): monitor only
    if not only:
        n2o, alts = ctx.n(40, 600), 0
        for i in range(n2o):
            out2, facts2 = EL.two_objects_case(rng, ctx.scratch, "c16")
            alts += facts2["alternations"]
            ctx.count(1, ("two-objects", facts2["objects"], facts2["appends"], facts2["single_connection"], i))
            for w in out2:
                fails.append(dict(key="C16/several-store-objects-one-database", what=w, backend="sqlite, %d store objects" % facts2["objects"],
                                  ops=[], case=-2))
        ctx.programs += n2o
        ctx.suite("eventlog.two_objects", cases=n2o, alternating_appends=alts)
        ctx.require_coverage("eventlog.two_objects", "alternating_appends", alts, 20)
    # two subscribers of one run, one of them disconnects or reconnects: the other must not starve (monitor only)
    if not only:
        nsl = ctx.n(36, 360)
        for i in range(nsl):
            b = EL.BACKENDS[i % len(EL.BACKENDS)]
            out3, facts3 = EL.subscriber_leaves_case(rng, b, ctx.scratch, "c16")
            ctx.count(1, ("subscriber-leaves", b, facts3["before"], facts3["after"], facts3["reconnect"]))
            for w in out3:
                fails.append(dict(key="C16/subscriber-starves-after-another-leaves", what=w, backend=b, ops=[], case=-3))
        ctx.programs += nsl
        ctx.suite("eventlog.subscriber_leaves", cases=nsl)
    # _stream_events: parameter / header precedence (finite pools, all combinations)
    cexprs, cdescr, cfails = EL.cursor_cases()
    for key, what in cfails:
        fails.append(dict(key=key, what=what, backend="_stream_events", ops=[], case=-1))
    cres = _cases(ctx, "stream_cursor", EL.HEADER, cexprs, shard=120)
    cbad = [cdescr[i] for i, z in enumerate(cres) if z != 0]
    ctx.suite("stream-cursor", combinations=len(cexprs), disagreements=len(cbad), monitor_failures=len(cfails))
    ctx.count(len(cexprs))
    res = _cases(ctx, "eventlog", EL.HEADER, exprs, shard=60)
    bad = [i for i, z in enumerate(res) if z != 0]
    ctx.programs += nexec
    ctx.disagreements += len(bad) + len(cbad)
    ctx.disagreements_checked = len(bad)
    ctx.suite("eventlog", cases=len(cases), executions=nexec, compared=len(exprs),
              disagreements=len(bad), monitor_failures=len(fails), **tot)
    # a broken implementation distorts the distribution; coverage is only demanded of quiet runs
    if not only and not fails and not bad and not cbad:
        for c, m in (("cursor_ahead", 10), ("late_events_below_cursor", 5), ("cursor_now", 5), ("terminal_mid_log", 5),
                     ("events_after_terminal", 3), ("resolve_now", 3), ("base_subs", 5), ("filtered_streams", 3),
                     ("internal_events", 5), ("subclass_terminals", 3), ("limited_queries", 3), ("ticks", 10)):
            ctx.require_coverage("eventlog", c, tot.get(c, 0), m)
    seen = set()
    for f in fails:
        if f["key"] in seen:
            continue
        seen.add(f["key"])
        ctx.finding(f["key"], "C16 fails on the real store (%s): %s" % (f["backend"], f["what"]),
                    dict(kind="implementation-monitor", backend=f["backend"], ops=[list(o) for o in f["ops"]],
                         replay_hint="bin/check C16 --replay <this file> re-executes ops on the real stores"))
    if cbad and not fails:
        ctx.violation("model/implementation disagreement in suite stream-cursor (no property-level failing input "
                      "found)", dict(suite="stream-cursor", theorem="C16_stream_cursor / C16_reconnect_by_header",
                                     cases=cbad[:5]), found_input=False)
    if bad and not fails:
        i = bad[0]
        ci, b, r = meta[i]
        ops = cases[ci]
        flat = EL.flat(per_backend_obs[ci][b].obs[r])
        j = first_bad_op(flat, res[i])
        proj = EL.project(ops, r)
        ctx.violation("model/implementation disagreement in suite eventlog (no property-level failing input found)",
                      dict(suite="eventlog", theorem=THEOREMS + " (Model/EventLog.v no longer matches the stores)",
                           backend=b, run=r, first_differing_op=[j, list(proj[j]) if j < len(proj) else None],
                           ops_of_run=[list(o) for o in proj[:j + 1]],
                           implementation_observations=per_backend_obs[ci][b].obs[r][:j + 1],
                           ops=[list(o) for o in ops], disagreeing_cases=len(bad)),
                      found_input=False)
    elif bad:
        ctx.notes.append("%d model/implementation disagreements accompany the monitor failures" % len(bad))


def _tuplify(op):
    op = list(op)
    for i, x in enumerate(op):
        if isinstance(x, list):
            op[i] = tuple(x)
    return tuple(op)


def replay(ctx, path):
    body = json.load(open(path))
    print(json.dumps({k: v for k, v in body.items() if k != "ops"}, indent=1)[:3000])
    if "ops" not in body:
        return run(ctx)
    ops = [_tuplify(o) for o in body["ops"]]
    for b in EL.BACKENDS:
        res = EL.execute(b, ops, ctx.scratch, tag="replay")
        print("backend", b)
        for r in EL.RUNS:
            print("  run", r, "log", res.logs[r])
            for spec, out, fin in res.subs[r]:
                print("    subscriber", spec, "->", [(s, p) for s, p, _ in out], "closed" if fin else "open")
        for key, what in EL.monitor_case(ops, res):
            print("  MONITOR", key, what)
    run(ctx, only=[ops])
