"""C12 — Pausing to a serialized context and resuming gives the same result."""
import asyncio
import json
import random

import vloop
from props._engine_common import run_l1
from suites import engine as E, engine_specs as S, reducer as R
from workflows import Context

THEOREMS = "C12_serialized_form_stable / C12_resume_holds_every_unfinished_invocation (OSerde / OResume ops)"
K_COUNTS = "C12/retry-counters-lost-on-snapshot"


def l1_monitor(rec):
    if rec[0] != "serde":
        return []
    _, s, s2, s3, cfg = rec
    out = []
    if R.e_state(s2) != R.e_state(s3):
        out.append("deserialize/serialize/deserialize is not stable: second round trip changes the run state")
    # nothing lost: per step the held inputs are preserved as a multiset, buffers and waiters as they are
    for n, w in s.workers.items():
        w2 = s2.workers[n]
        held = sorted([id(a.event) for a in w.queue] + [id(ip.event) for ip in w.in_progress])
        if len(w2.queue) + len(w2.in_progress) != len(held):
            out.append("step %s holds %d inputs after the round trip, %d before" % (n, len(w2.queue) + len(w2.in_progress), len(held)))
        if {k: len(v) for k, v in w.collected_events.items()} != {k: len(v) for k, v in w2.collected_events.items()}:
            out.append("step %s: collected buffers changed by the round trip" % n)
        if [x.waiter_id for x in w.collected_waiters] != [x.waiter_id for x in w2.collected_waiters]:
            out.append("step %s: waiters changed by the round trip" % n)
        for a, b in zip(w.queue, w2.queue):
            if (a.attempts or 0) != (b.attempts or 0) or dict(a.recovery_counts or {}) != dict(b.recovery_counts or {}):
                out.append("step %s: a queued attempt lost its retry count / recovery counts in the round trip" % n)
    if s.is_running != s2.is_running:
        out.append("running flag changed by the round trip")
    return out


async def _drain(handler):
    try:
        async for _ in handler.stream_events(expose_internal=True):
            pass
    except Exception:  # noqa: BLE001
        pass


async def _reference(spec_fn, seed):
    rng = random.Random(seed)
    rec = E.Recorder()
    spec, _, opts = spec_fn(rng)
    wf = E.build_workflow(spec, rec)
    obs = await E.drive(wf, rec, random.Random(seed + 1), policy="random")
    n = None
    try:
        n = await obs.handler.ctx.store.get("n", default=0)
    except Exception:  # noqa: BLE001
        pass
    return spec, obs, n


async def _snapshot_resume(spec_fn, seed):
    rng = random.Random(seed)
    rec = E.Recorder()
    spec, _, opts = spec_fn(rng)
    wf = E.build_workflow(spec, rec)
    drv = random.Random(seed + 2)
    handler = wf.run()
    consumer = asyncio.ensure_future(_drain(handler))
    nsteps = drv.randint(0, spec["count_n"] + 1)
    peek = random.Random(seed + 3)     # (earlier snapshots of the same running context, taken and thrown away)
    for _ in range(nsteps):
        await vloop.settle()
        if handler._result_task.done():
            break
        if peek.random() < 0.5:
            try:
                handler.ctx.to_dict()
            except Exception:  # noqa: BLE001
                pass
        if rec.waiting:
            rec.open(drv.choice(rec.waiting))
    await vloop.settle()
    if handler._result_task.done():
        await asyncio.gather(consumer, return_exceptions=True)
        return dict(snapshot=False)
    try:
        d = json.loads(json.dumps(handler.ctx.to_dict()))
    except Exception as ex:  # noqa: BLE001
        await handler.cancel_run()
        await vloop.settle()
        await asyncio.gather(consumer, return_exceptions=True)
        return dict(snapshot=False, snapshot_error="ctx.to_dict() of the running context raised %r after %d scheduler steps" % (ex, nsteps))
    in_flight = {(r["step"], r["i"]): r["retry"] for r in rec.log if r["kind"] == "enter"}
    done_inv = {(r["step"], r["inv"]) for r in rec.log if r["kind"] == "exit"}
    running = {}
    for r in rec.log:
        if r["kind"] == "enter" and (r["step"], r["inv"]) not in done_inv:
            running[(r["step"], r["i"])] = r["retry"]
    # stop the original run
    await handler.cancel_run()
    await vloop.settle()
    try:
        await handler
    except BaseException:  # noqa: BLE001
        pass
    await asyncio.gather(consumer, return_exceptions=True)
    rec2 = E.Recorder()
    rec2.eid = rec.eid
    wf2 = E.build_workflow(spec, rec2)
    ctx2 = Context.from_dict(wf2, d)
    obs = await E.drive(wf2, rec2, drv, ctx=ctx2, policy="random")
    n = None
    try:
        n = await obs.handler.ctx.store.get("n", default=0)
    except Exception:  # noqa: BLE001
        pass
    return dict(snapshot=True, spec=spec, obs=obs, rec=rec2, n=n, running=running, steps=nsteps)


from props._waitsnap import _wait_reference, _wait_snapshot_resume, _idle_snapshot_resume  # noqa: E402


def run(ctx):
    ctx.rule = ("L1: serialize/deserialize at random points of random reachable reducer histories through the real "
                "to_serialized -> JSON -> from_serialized (exact vs the model, stability of the second round trip, nothing "
                "lost) and resume ops; L2: deterministic counting workflows on the real engine, snapshot through "
                "ctx.to_dict() + JSON at a random quiescent point (queued / running / collecting / retrying work), resumed "
                "with Context.from_dict on a fresh workflow object (also: steps parked in wait_for_event with requirements, "
                "matching and non-matching events delivered after the resume), final result and state-store contents compared with "
                "the uninterrupted run; distinct key = history index / (seed, snapshot point, running invocations)")
    ctx.prove()
    run_l1(ctx, ctx.n(160, 4000), l1_monitor, THEOREMS, need=("serde", "serde_with_in_progress", "resume"))
    rng = random.Random(ctx.seed * 59 + 31)
    n2 = ctx.n(120, 3000)
    fails, known, snaps, with_running, with_retrying = [], [], 0, 0, 0
    for i in range(n2):
        seed = rng.randrange(1 << 30)
        try:
            spec, ref, nref = vloop.run(_reference(S.countflow, seed))
            r = vloop.run(_snapshot_resume(S.countflow, seed))
        except RuntimeError as ex:
            if "quiescent" not in str(ex):
                raise
            fails.append(dict(seed=seed, why="livelock: %s" % ex))
            continue
        if r.get("snapshot_error"):
            fails.append(dict(seed=seed, why=r["snapshot_error"]))
            continue
        if not r.get("snapshot"):
            continue
        snaps += 1
        obs = r["obs"]
        with_running += 1 if r["running"] else 0
        with_retrying += 1 if any(v for v in r["running"].values()) else 0
        ctx.count(1, ("snap", r["steps"], tuple(sorted(r["running"].items())), spec["count_n"]))
        if i < 3:
            ctx.sample(dict(kind="l2-snapshot-resume", seed=seed, snapshot_after_gate_openings=r["steps"],
                            running_at_snapshot={str(k): v for k, v in r["running"].items()},
                            resumed_result=repr(obs.result)[:60], reference_result=repr(ref.result)[:60]), limit=8)
        if not obs.done or obs.exception is not None:
            fails.append(dict(seed=seed, why="resumed run did not complete: done=%s exception=%r stuck=%s" % (obs.done, obs.exception, obs.stuck)))
            continue
        if repr(obs.result) != repr(ref.result):
            fails.append(dict(seed=seed, why="resumed run returned %r, the uninterrupted run %r" % (obs.result, ref.result)))
        if r["n"] != nref:
            fails.append(dict(seed=seed, why="state store after resume has n=%r, the uninterrupted run n=%r" % (r["n"], nref)))
        # retry count of re-executed invocations
        for (step, ei), retry in r["running"].items():
            first = next((x for x in r["rec"].log if x["kind"] == "enter" and x["step"] == step and x["i"] == ei), None)
            if first is not None and retry and first["retry"] != retry:
                known.append(dict(seed=seed, why="%s: invocation of %s for event %s was on retry %d at the snapshot and is re-executed "
                                                 "as retry %d after resume" % (K_COUNTS, step, ei, retry, first["retry"])))
    # waiting steps: snapshot while invocations are parked in wait_for_event with requirements
    n3 = ctx.n(60, 1500)
    wsnaps, wrong_first = 0, 0
    for i in range(n3):
        seed = rng.randrange(1 << 30)
        spec, ref, sref = vloop.run(_wait_reference(seed))
        r = vloop.run(_wait_snapshot_resume(seed))
        if not r.get("snapshot"):
            continue
        wsnaps += 1
        wrong_first += 1 if any("wrong" in x for x in r["remaining"]) else 0
        obs = r["obs"]
        ctx.count(1, ("waitsnap", spec["count_n"], r["delivered_before"], tuple(r["remaining"]), r["round_trips"]))
        inp = dict(template="waitflow snapshot/resume", seed=seed, delivered_before_snapshot=r["delivered_before"],
                   delivered_after_resume=r["remaining"], extra_serialization_round_trips=r["round_trips"])
        if not ref.done or ref.exception is not None:
            raise RuntimeError("waitflow reference run did not complete: %r" % (ref.exception,))
        if not obs.done or obs.exception is not None:
            fails.append(dict(seed=seed, input=inp, why="run resumed with steps waiting in wait_for_event did not complete: done=%s "
                              "exception=%r stuck=%s" % (obs.done, obs.exception, obs.stuck)))
            continue
        if repr(obs.result) != repr(ref.result):
            fails.append(dict(seed=seed, input=inp, why="resumed run returned %r, the uninterrupted run %r" % (obs.result, ref.result)))
        if r["store"] != sref:
            fails.append(dict(seed=seed, input=inp, why="state store after resume is %r, after the uninterrupted run %r (got<i> = tag of "
                              "the event that resolved the wait of invocation i with requirements {k: i})" % (r["store"], sref)))
    # idle point: the run has asked for input and nothing is queued, running, buffered or waiting
    n4, idle_ok = ctx.n(12, 200), 0
    for i in range(n4):
        seed = rng.randrange(1 << 30)
        r = vloop.run(_idle_snapshot_resume(seed))
        ctx.count(1, ("idlesnap", seed % 7))
        got = (getattr(r["result"], "result", r["result"]), r["store"])
        if r["done"] and r["exc"] is None and got == r["ref"]:
            idle_ok += 1
        else:
            fails.append(dict(seed=seed, input=dict(template="ask (InputRequiredEvent) / answer, snapshot at the idle point", seed=seed),
                              why="a run snapshotted while idle (waiting for a HumanResponseEvent) and resumed gives result %r store %r "
                                  "(done=%s exception=%r, start step executed %d times after the resume); the uninterrupted run gives %r / %r"
                                  % (got[0], got[1], r["done"], r["exc"], r["start_executions_after_resume"], r["ref"][0], r["ref"][1])))
    ctx.suite("engine.snapshot_resume_idle", attempts=n4, same_as_uninterrupted=idle_ok)
    ctx.programs += 2 * n2 + 2 * n3 + 2 * n4
    ctx.suite("engine.snapshot_resume_waiting", attempts=n3, snapshots=wsnaps, non_matching_event_after_resume=wrong_first)
    ctx.mark("engine")
    ctx.suite("engine.snapshot_resume", attempts=n2, snapshots=snaps, with_running_invocations=with_running,
              with_retrying_invocations=with_retrying, failures=len(fails), retry_count_lost=len(known))
    if known:
        ctx.finding(K_COUNTS, known[0]["why"], dict(kind="implementation-monitor/L2", input=known[0], occurrences=len(known)))
    for f in fails[:3]:
        ctx.violation("C12 fails on the real engine: %s" % f["why"],
                      dict(kind="implementation-monitor/L2", input=f.get("input") or dict(template="countflow snapshot/resume", seed=f["seed"])))
    ctx.require_coverage("engine.snapshot_resume", "snapshots", snaps, 40)
    ctx.require_coverage("engine.snapshot_resume_waiting", "snapshots", wsnaps, 30)
    ctx.require_coverage("engine.snapshot_resume_waiting", "non_matching_event_after_resume", wrong_first, 10)
    ctx.require_coverage("engine.snapshot_resume", "with_running_invocations", with_running, 20)
    ctx.partial.append("'same final result and state-store contents' is checked on executions (the theorem gives the resumed "
                       "state: same unfinished inputs, buffers, waiters), not proved end-to-end; 're-executed under its existing "
                       "retry count and recovery budget' is refuted for invocations running at the snapshot "
                       "(C12_running_invocations_lose_their_counts_refuted) and listed as a known finding")


def replay(ctx, path):
    print(json.dumps(json.load(open(path)), indent=1)[:4000])
    run(ctx)
