"""C07 — Retry building blocks obey their algebra and bounds."""
import random

from suites import retry as R


def run(ctx):
    ctx.rule = ("random retry/stop/wait terms (depth<=3, named combinators and | & + operators), "
                "exceptions with class hierarchies and __cause__ chains, attempts 0..12 plus "
                "overflowing attempts 1023..5000, seeds; distinct key = (kind, constructor, attempts, "
                "jitter, result)")
    proved = ctx.prove()
    rng = random.Random(ctx.seed)
    n = ctx.n(1200, 40000)
    exprs, meta, waits = [], [], []
    for i in range(n):
        k = i % 10
        ops = rng.random() < 0.5
        if k < 2:
            e, s, key = R.case_rcond(rng, ops)
        elif k < 4:
            e, s, key = R.case_stop(rng, ops)
        elif k < 7:
            e, s, key, w = R.case_wait(rng, ops, domain=(rng.random() < 0.8))
            waits.append((w, s, "(in-domain)" if True else ""))
        elif k < 8:
            e, s, key, w = R.case_wait(rng, ops, domain=True, big=True)
            waits.append((w, s, "big"))
        else:
            e, s, key = R.case_policy(rng)
        exprs.append(e)
        meta.append(s)
        ctx.count(1, key)
        if i < 8:
            ctx.sample(s, limit=8)
    exprs += R.legacy_policy_cases(rng)
    meta += [dict(kind="legacy-policy")] * (len(exprs) - len(meta))
    res = ctx.run_cases("retry", R.HEADER, exprs)
    bad = [i for i, z in enumerate(res) if z != 0]
    kinds = {}
    for m in meta:
        kinds[m["kind"]] = kinds.get(m["kind"], 0) + 1
    big = sum(1 for w in waits if w[2] == "big")
    ctx.suite("retry", cases=len(exprs), disagreements=len(bad), kinds=kinds, overflow_attempt_cases=big)
    ctx.require_coverage("retry", "overflow_attempt_cases", big)
    ctx.disagreements += len(bad)

    # the property evaluated on the implementation itself (search for a concrete failing input)
    mon_fail = []
    in_domain = 0
    for (py, g, a, seed, v), s, tag in waits:
        try:
            lo, hi = R.py_bounds(py)
        except TypeError:
            continue
        if lo < 0 or (hi is not None and hi < lo):
            continue   # parameters outside the documented domain: property does not speak
        if not domain_ok(py):
            continue
        in_domain += 1
        why = R.monitor_wait(py, a, seed, v)
        if why:
            mon_fail.append(dict(strategy=g, attempts=a, seed=seed, observed=repr(v), why=why))
    for _ in range(ctx.n(300, 5000)):
        for why in R.monitor_algebra(rng):
            mon_fail.append(dict(law=why))
    cp = R.cross_process_determinism()
    if cp:
        mon_fail.append(dict(law=cp))
    ctx.suite("retry.monitor", wait_cases_in_domain=in_domain, failures=len(mon_fail))
    ctx.require_coverage("retry.monitor", "wait_cases_in_domain", in_domain, 50)
    ctx.disagreements_checked = len(bad)
    for f in mon_fail[:3]:
        ctx.violation("C07 fails on the implementation: %s" % (f.get("why") or f.get("law")),
                      dict(kind="implementation-monitor", input=f,
                           replay_hint="python: build the strategy shown and call it with attempts/seed"))
    if bad and not mon_fail:
        ctx.violation("model/implementation disagreement in suite retry (no property-level failing input found)",
                      dict(suite="retry", theorem="C07_* (Model/Retry.v no longer matches retry_policy.py)",
                           cases=[meta[i] for i in bad[:5]], coq_exprs=[exprs[i] for i in bad[:5]]),
                      found_input=False)
    elif bad:
        ctx.notes.append("%d model/implementation disagreements accompany the monitor failures" % len(bad))


def domain_ok(w):
    from workflows import retry_policy as rp
    if isinstance(w, rp.wait_exponential_jitter):
        return w.initial >= 0 and w.exp_base >= 0 and w.max >= 0 and w.jitter >= 0
    if isinstance(w, (rp.wait_exponential, rp.wait_random_exponential, rp.wait_random)):
        return 0 <= w.min <= w.max
    if isinstance(w, rp.wait_incrementing):
        return w.max >= 0
    if isinstance(w, rp.wait_fixed):
        return w.wait >= 0
    if isinstance(w, (rp.wait_chain, rp.wait_combine)):
        return all(domain_ok(s) for s in w.strategies)
    return False


def replay(ctx, path):
    import json
    print(json.dumps(json.load(open(path)), indent=1))
    run(ctx)
