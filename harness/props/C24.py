"""C24 — Handler stores answer queries consistently and retain the newest completions."""
import collections
import json
import random

import core
from suites import handlers as Hs

THEOREMS = ("C24_memory_query_exact, C24_sqlite_query_exact, C24_memory_delete_exact, C24_sqlite_delete_exact, "
            "C24_stores_equivalent, C24_terminal_update_exact, C24_queue_is_the_completed_handlers")
VOS = ["theories/Model/HandlerStore.vo"]


def run(ctx):
    try:
        _run(ctx)
    except core.CheckError:
        raise
    except Exception as e:  # noqa: BLE001 - an unexpected harness exception is a machinery error, not a verdict
        raise core.CheckError("unexpected exception in the C24 harness: %r" % e) from e


def srt(outs):
    return [sorted(x) if isinstance(x, list) else x for x in outs]


def _run(ctx):
    ctx.rule = ("operation histories of 3-20 ops (upsert / update_handler_status / query / delete) over 6 handler ids, "
                "5 run ids, 3 workflow names, 4 statuses; filters absent / empty / 1-3 values; kinds: equiv (both "
                "backends, deletes filtered, no cap), nofilter (may contain delete without filter), retention (memory, "
                "max_completed 0-3, 70% terminal upserts); distinct key = (kind, max_completed, op-kind sequence, "
                "final store size, number of evictions)")
    proved = ctx.prove()
    model_ok = proved
    if not proved:
        model_ok, _ = core.coq_make(VOS)
    rng = random.Random(ctx.seed)
    n = ctx.n(260, 9000)
    loop = Hs.new_loop()
    sq = Hs.SqliteBox(ctx.scratch)
    exprs, metas, fails = [], [], []
    cov = collections.Counter()
    # statuses as the translator saw them == what the running module says
    exprs.append("if list_eq_dec string_dec handler_statuses [%s] then (if list_eq_dec string_dec "
                 "(filter (fun s => existsb (String.eqb s) handler_terminal_statuses) handler_statuses) [%s] then 0 else 1) else 1"
                 % ("; ".join('"%s"' % s for s in Hs.STATUSES), "; ".join('"%s"' % s for s in Hs.TERMINAL)))
    metas.append(dict(kind="status-table", statuses=Hs.STATUSES, terminal=Hs.TERMINAL))
    try:
        for i in range(n):
            kind = rng.choice(["equiv", "equiv", "equiv", "nofilter", "retention", "retention", "retention"])
            ops = Hs.gen_history(rng, kind)
            mx = rng.choice([0, 1, 2, 2, 3]) if kind == "retention" else None
            mb = Hs.MemBox(mx)
            mo, md = Hs.run_history(loop, mb, ops)
            opsg = "[%s]" % "; ".join(Hs.g_op(o) for o in ops)
            exprs.append("check_mem %s %s [%s] %s [%s]" % (
                "None" if mx is None else "(Some %d%%nat)" % mx, opsg, "; ".join(Hs.g_out(r) for r in mo),
                Hs.g_hlist(md[-1]), "; ".join(str(x) for x in mb.queue())))
            metas.append(dict(kind=kind, backend="memory", max_completed=mx, ops=ops))
            evictions = sum(1 for k, o in enumerate(ops[:len(mo)]) if o[0] in ("update", "status")
                            and len(md[k + 1]) < len(md[k]))
            for f in Hs.monitor_history("memory", ops, mo, md, mx)[:1]:
                fails.append(dict(key=f[0], why=f[1], op_index=f[2], backend="memory", max_completed=mx, ops=ops))
            cov["hist_" + kind] += 1
            cov["evictions"] += evictions
            cov["queries"] += sum(1 for o in ops if o[0] == "query")
            cov["queries_nonempty_result"] += sum(1 for o, r in zip(ops, mo) if o[0] == "query" and r)
            cov["queries_with_empty_filter"] += sum(1 for o in ops if o[0] == "query" and any(f == [] for f in o[1][:4]))
            cov["deletes_removing"] += sum(1 for o, r in zip(ops, mo) if o[0] == "delete" and r)
            cov["status_updates_applied"] += sum(1 for k, o in enumerate(ops[:len(mo)])
                                                 if o[0] == "status" and md[k] != md[k + 1])
            cov["repeated_terminal_updates"] += sum(
                1 for k, o in enumerate(ops[:len(mo)]) if o[0] == "update" and Hs.is_term(o[1])
                and any(c[0] == o[1][0] and Hs.is_term(c) for c in md[k]))
            cov["reopened"] += sum(1 for k, o in enumerate(ops[:len(mo)]) if o[0] == "update" and not Hs.is_term(o[1])
                                   and any(c[0] == o[1][0] and Hs.is_term(c) for c in md[k]))
            ctx.count(1, (kind, mx, tuple(o[0] for o in ops), len(md[-1]), evictions))
            if kind != "retention":
                sq.reset()
                so, sd = Hs.run_history(loop, sq, ops)
                exprs.append("check_sql %s [%s] %s" % (opsg, "; ".join(Hs.g_out(r) for r in so), Hs.g_hlist(sd[-1])))
                metas.append(dict(kind=kind, backend="sqlite", ops=ops))
                for f in Hs.monitor_history("sqlite", ops, so, sd, None)[:1]:
                    fails.append(dict(key=f[0], why=f[1], op_index=f[2], backend="sqlite", ops=ops))
                ctx.count(1, (kind, "sqlite", tuple(o[0] for o in ops), len(sd[-1])))
                if kind == "equiv":
                    cov["cross_compared"] += 1
                    a, b = srt(mo), srt(so)
                    if a != b or sorted(md[-1]) != sorted(sd[-1]):
                        k = next((j for j in range(min(len(a), len(b))) if a[j] != b[j]), min(len(a), len(b)))
                        fails.append(dict(key="C24/backends-differ", op_index=k, ops=ops,
                                          why="memory and SQLite stores answer differently at operation %d (%r): "
                                              "memory %r, sqlite %r" % (k, ops[k] if k < len(ops) else "final state",
                                                                        a[k] if k < len(a) else sorted(md[-1]),
                                                                        b[k] if k < len(b) else sorted(sd[-1]))))
            if i < 3:
                ctx.sample(dict(kind=kind, max_completed=mx, ops=[Hs.g_op(o) for o in ops][:8],
                                final=[Hs.g_handler(c) for c in md[-1]]), limit=6)
    finally:
        sq.close()
    ctx.programs = n

    bad = []
    if model_ok:
        from props.C28 import run_cases_robust
        res = run_cases_robust(ctx, "handlers", Hs.HEADER, exprs, 150, VOS)
        bad = [i for i, z in enumerate(res) if z != 0]
    else:
        ctx.notes.append("Model/HandlerStore.v does not build: the model side of the correspondence was not evaluated")
    ctx.disagreements = len(bad)
    ctx.disagreements_checked = len(bad)
    ctx.suite("handlers", histories=n, comparisons=len(exprs), disagreements=len(bad),
              monitor_failures=len(fails), **dict(cov))

    ctx.partial.append("PARTIAL: the SQLite store's result *order* is not part of the compared projection (results are "
                       "compared as sets; the model lists rows in rowid order); the values of timestamps and `result` "
                       "payloads are not modelled; eviction's side effect on events/ticks/state stores is not modelled")
    ctx.assumptions.append("compared histories contain no delete without a filter for the equivalence clause "
                           "(C24_unfiltered_delete_differs shows the backends differ there; the property excludes it)")

    seen = set()
    for f in fails:
        if f["key"] in seen:
            continue
        seen.add(f["key"])
        ctx.finding(f["key"], "C24 fails on the implementation: %s" % f["why"][:500],
                    dict(kind="implementation-monitor", input=f,
                         encoding="handler = (id, workflow, status index, run|None, idle, error|None, completed_at set); "
                                  "query = (ids, runs, workflows, statuses, is_idle); status = (run, status, error, idle)"))
        if len(seen) >= 4:
            break
    if bad and not fails:
        small = sorted(bad, key=lambda i: len(exprs[i]))[:3]
        ctx.violation("model/implementation disagreement in suite handlers (no property-level failing input found)",
                      dict(suite="handlers", theorems=THEOREMS, cases=[metas[i] for i in small],
                           result="k>0: first differing operation is k-1; -1 final rows; -2 final eviction queue",
                           coq_exprs=[exprs[i][:6000] for i in small]), found_input=False)
    elif bad:
        ctx.notes.append("%d model/implementation disagreements accompany the monitor failures" % len(bad))
    if not fails:
        lo = 1 if ctx.tier == "quick" else 20
        for k in ("hist_equiv", "hist_nofilter", "hist_retention", "evictions", "queries_nonempty_result",
                  "queries_with_empty_filter", "deletes_removing", "status_updates_applied",
                  "repeated_terminal_updates", "reopened", "cross_compared"):
            ctx.require_coverage("handlers", k, cov[k], lo)


def replay(ctx, path):
    body = json.load(open(path))
    print(json.dumps(body, indent=1)[:20000])
    if "seed" in body:
        ctx.seed = int(body["seed"])
    run(ctx)
