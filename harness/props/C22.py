"""C22 — Resource injection honors caching and cycle detection under concurrency."""
import json
import random

from suites import resource as RS

THEOREMS = ("C22_cached_created_once, C22_cached_same_object_everywhere, C22_genuine_cycle_never_satisfied, "
            "C22_no_false_cycle_sequential_partial, C22_*_refuted (Model/Resource.v)")
KNOWN_MECH = {"C22/false-cycle-error": "overlap", "C22/noncached-shared-across-invocations": "overlap"}


def _j(x):
    if isinstance(x, (list, tuple)):
        return [_j(y) for y in x]
    if isinstance(x, dict):
        return {str(k): _j(v) for k, v in x.items()}
    return x


def _key(k, trace, detail):
    """structural key: which clause fails, and whether the failing invocation overlapped another one"""
    tid = detail.get("task")
    if k in KNOWN_MECH and tid is not None:
        return k + ("/overlap" if RS.task_overlaps(trace, tid) else "/sequential")
    return k


def run(ctx):
    ctx.rule = ("resource graphs of 1..6 descriptors (cached/non-cached, sync/async with 0..2 suspensions, failing "
                "factories, DAGs, arbitrary graphs with cycles and self-loops, duplicate dependencies) x 1..4 step "
                "invocations with 1..3 resource parameters x generated interleavings (concurrent stream) or "
                "one-after-the-other (sequential stream); distinct key = (graph shape, script)")
    ctx.prove()
    ctx.trusted.append("step invocations are driven through the repository's own `partial` (step_function.py) with "
                       "stand-in step_config/workflow objects carrying the real ResourceDefinition/_Resource/"
                       "ResourceManager; factories are generated functions with real Annotated[..., Resource] signatures")
    ctx.assumptions.append("one descriptor per factory __qualname__ (two factories with one qualified name collide in the "
                           "real code; excluded from the generated graphs)")
    rng = random.Random(ctx.seed)
    findings = []      # (key, msg, detail, graph, script)
    total_bad = 0
    metas = []
    for stream, n in (("concurrent", ctx.n(500, 3600)), ("sequential", ctx.n(250, 1800))):
        exprs, tot, local = [], {}, []
        for i in range(n):
            e, graph, script, obs = RS.case(rng, concurrent=(stream == "concurrent"))
            exprs.append(e)
            local.append((graph, script, obs["status"], obs["created_log"]))
            gk = tuple((x, nd["cache"], nd["susp"], nd["fails"], tuple(nd["deps"])) for x, nd in sorted(graph.items()))
            ctx.count(1, (stream, gk, tuple((op[0], op[1]) for op in script)))
            for k, v in RS.stats_of(graph, script, obs).items():
                tot[k] = tot.get(k, 0) + v
            for k, msg, d in RS.monitor(graph, script, obs):
                findings.append((_key(k, obs["trace"], d), msg, d, graph, script))
            if i < 2:
                ctx.sample(_j(dict(suite="resource." + stream, graph=graph, script=script[:12],
                                   outcome=obs["status"], created=obs["created_log"][:6])))
        res = ctx.run_cases("resource_" + stream, RS.HEADER, exprs, shard=110)
        bad = [i for i, z in enumerate(res) if z != 0]
        total_bad += len(bad)
        metas += [(res[i],) + local[i] for i in bad]
        ctx.suite("resource." + stream, cases=n, disagreements=len(bad), **tot)
        cov = ["done", "cycle_errors", "genuine_cycle_errors", "factory_failures", "cached_hits", "cyclic_graph", "dup_dep"]
        if stream == "concurrent":
            cov += ["overlapped", "suspended_at_end"]
        cover = [("resource." + stream, c, tot.get(c, 0), 3) for c in cov]
        ctx.disagreements += len(bad)
        ctx.suite("resource." + stream)["_cover"] = None
        ctx.suites["resource." + stream].pop("_cover")
        ctx._c22_cover = getattr(ctx, "_c22_cover", []) + cover
    ctx.disagreements_checked = total_bad

    # the refuted theorems' witnesses, executed on the real manager
    w1 = RS.run_script({1: dict(cache=True, susp=1, fails=False, deps=[])},
                       [("start", 1, [1]), ("start", 2, [1]), ("run", 1), ("run", 2)])
    w2 = RS.run_script({1: dict(cache=False, susp=0, fails=False, deps=[]), 2: dict(cache=False, susp=1, fails=False, deps=[])},
                       [("start", 1, [1, 2]), ("start", 2, [1]), ("run", 1), ("run", 2)])
    wit1 = w1["status"].get(2) == [3, 1, 1]
    wit2 = w2["got"].get(2) == [(1, 1)] and w2["created_log"][:1] == [(1, 1, 1, [])]
    outcome, calls = RS.engine_probe()
    engine_false_cycle = "Circular resource dependency detected" in outcome
    ctx.suite("resource.witness", false_cycle_witness_reproduced=wit1, noncached_sharing_witness_reproduced=wit2,
              engine_probe_outcome=outcome, engine_probe_factory_calls=calls)
    if engine_false_cycle:
        findings.append(("C22/false-cycle-error/overlap",
                         "Workflow.run(): step b (num_workers=2, Annotated[object, Resource(async fac)]) receives two "
                         "events; the run fails with '%s'" % outcome,
                         dict(kind="engine"), None, None))

    known = set(ctx.known_keys())
    seen = set()
    findings.sort(key=lambda f: (len(f[4]) if f[4] else 0))
    for k, msg, d, graph, script in findings:
        if k in seen:
            continue
        seen.add(k)
        ctx.finding(k, "C22 fails on the implementation: %s" % msg,
                    dict(kind="implementation-monitor", suite="resource", graph=_j(graph), script=_j(script),
                         detail=_j(d), replay_hint="bin/check C22 --replay <this file>"))
    for k in ("C22/false-cycle-error/overlap", "C22/noncached-shared-across-invocations/overlap"):
        if k in known and k not in seen:
            ctx.notes.append("listed finding %s was not observed in this run" % k)
    if not wit1 and "C22/false-cycle-error/overlap" in known:
        ctx.notes.append("witness of C22_no_false_cycle_refuted no longer fails on the implementation")
    if total_bad and not [v for v in ctx.violations]:
        cases = [dict(first_differing_choice=z, graph=_j(g), script=_j(sc), outcome=_j(stt), created=_j(cr))
                 for z, g, sc, stt, cr in sorted(metas, key=lambda m: len(m[2]))[:2]]
        ctx.violation("model/implementation disagreement in suite resource (no property-level failing input found)",
                      dict(suite="resource", theorem=THEOREMS, disagreements=total_bad, cases=cases), found_input=False)
    elif total_bad:
        ctx.notes.append("%d model/implementation disagreements accompany the monitor failures" % total_bad)
    ctx.partial.append("clauses 'no false cycle error' and 'non-cached fresh per step invocation' are refuted under "
                       "overlapping step invocations (C22_*_refuted); proved: cached-once and same-object and "
                       "genuine-cycle-never-satisfied for every schedule, no-false-cycle for sequential schedules")
    for suite, c, v, need in ctx._c22_cover:
        if ctx.violations:
            if v < need:
                ctx.notes.append("coverage counter %s.%s = %d < %d" % (suite, c, v, need))
        else:
            ctx.require_coverage(suite, c, v, need)


def replay(ctx, path):
    body = json.load(open(path))
    print(json.dumps({k: body[k] for k in body if k not in ("graph", "script")}, indent=1)[:2500])
    if not body.get("graph"):
        if body.get("detail", {}).get("kind") == "engine":
            print("engine probe:", RS.engine_probe())
        return run(ctx)
    graph = {int(k): v for k, v in body["graph"].items()}
    script = [tuple(op) for op in body["script"]]
    obs = RS.run_script(graph, script)
    print("graph", graph)
    print("script", script)
    print("outcome", obs["status"], "injected", obs["got"], "created", obs["created_log"])
    ctx.prove()
    ctx.count(1, ("replay",))
    mon = RS.monitor(graph, script, obs)
    ctx.suite("resource.replay", monitor_failures=len(mon))
    for k, msg, d in mon[:4]:
        ctx.finding(_key(k, obs["trace"], d), "C22 fails on the implementation: %s" % msg,
                    dict(kind="implementation-monitor", suite="resource", graph=_j(graph), script=_j(script), detail=_j(d)))
