"""C23 — Workflow validation accepts exactly the well-formed graphs (+ the human-in-the-loop flag)."""
import json
import random

from suites import validate as VS


def gen_case(rng, i):
    k = i % 10
    if k < 6:
        g, tags = VS.gen_valid(rng)
        g = VS.mutate(rng, g, tags) if rng.random() < 0.7 else g
        kind = "structured"
    elif k < 9:
        g, tags = VS.gen_random(rng), {"random"}
        kind = "random"
    else:
        g, tags = VS.gen_valid(rng)
        kind = "valid"
    rng.shuffle(g)            # dict order of the steps must not matter
    return g, VS.gen_skips(rng), tags, kind


def exhaustive_small(types):
    """Every graph of 1 or 2 non-handler steps whose accepted set (1-2 types) and returned set
    (0-2 types) are drawn from `types`."""
    import itertools
    accs = [list(c) for k in (1, 2) for c in itertools.combinations(types, k)]
    rets = [list(c) for k in (0, 1, 2) for c in itertools.combinations(types, k)]
    one = [(a, r) for a in accs for r in rets]
    for a, r in one:
        yield [VS.mkstep(0, a, r)]
    for (a, r), (a2, r2) in itertools.product(one, one):
        yield [VS.mkstep(0, a, r), VS.mkstep(1, a2, r2)]


def run(ctx, only=None):
    ctx.rule = ("step graphs of 0-10 steps over a pool of 23 real event classes (5 roots, subclasses, two "
                "multiple-inheritance classes): structured well-formed workflows (chain/fan-out, human-in-the-"
                "loop leg, scoped/wildcard handlers) perturbed by 0-2 of 22 mutations, plus unstructured random "
                "graphs; workflow-level and per-step skip flags; thorough adds all 12 210 graphs of 1-2 plain steps over 4 "
                "classes; distinct key = (multiset of step shapes, set of "
                "kind masks, skips, outcome, stage/hitl)")
    ctx.prove()
    rng = random.Random(ctx.seed)
    n = ctx.n(1500, 10000)
    small = []
    if ctx.tier == "thorough" and only is None:
        # small-scope exhaustive stream: all 1- and 2-step graphs over {StartEvent, StopEvent, EvA, MyIR}
        small = list(exhaustive_small([0, 1, VS.TID[VS.EvA], VS.TID[VS.MyIR]]))
    exprs, meta = [], []
    mon_fail = []
    stats = dict(accepted=0, rejected=0, hitl_true=0, hitl_subclass_true=0, unknown_stage=0,
                 skips_nonempty=0, handlers=0, accepted_with_route=0, class_cases=0, class_accepted=0,
                 class_ctor_rejected=0, skip_mattered=0, graph_unreachable=0, graph_dangling=0,
                 graph_dead_end=0, graph_multi=0)
    stages, tagc, kinds = {}, {}, {}
    for i in range(n + len(small)):
        if only is not None:
            g, sk = only["graph"], tuple(only["skips"])
            tags, kind = set(), "replay"
        elif i >= n:
            g, sk, tags, kind = small[i - n], (False, False, False), set(), "exhaustive-small"
        else:
            g, sk, tags, kind = gen_case(rng, i)
        steps = VS.to_configs(g)
        obs = VS.observe_validate(steps, sk)
        s0 = VS.pick_s0(g)
        parts = VS.observe_parts(g, steps, sk, s0)
        exprs.append(VS.case_expr(g, sk, obs, parts, s0))
        meta.append(dict(suite="validate", kind=kind, graph=g, skips=list(sk), observed=list(obs)))
        kinds[kind] = kinds.get(kind, 0) + 1
        for t in tags:
            tagc[t] = tagc.get(t, 0) + 1
        if obs[0] == "acc":
            stats["accepted"] += 1
            stats["hitl_true"] += bool(obs[3])
            if obs[3] and (any(VS.MASK[t] & 4 and t != 2 for s in g for t in s["ret"])
                           and not any(t == 2 for s in g for t in s["ret"])
                           and not any(t == 3 for s in g for t in s["acc"])):
                stats["hitl_subclass_true"] += 1
            stats["accepted_with_route"] += bool(obs[5])
            stats["skip_mattered"] += VS.skip_mattered(g, sk)
        else:
            stats["rejected"] += 1
            stages[obs[2]] = stages.get(obs[2], 0) + 1
            stats["unknown_stage"] += obs[2] == 0
            if obs[2] == 11:
                stats["graph_unreachable"] += bool(obs[3])
                stats["graph_dangling"] += bool(obs[4])
                stats["graph_dead_end"] += bool(obs[5])
                stats["graph_multi"] += (bool(obs[3]) + bool(obs[4]) + bool(obs[5])) > 1
        stats["skips_nonempty"] += any(sk)
        stats["handlers"] += any(s["handler"] for s in g)
        ctx.count(1, VS.structural_key(g, sk, obs))
        if i < 4:
            ctx.sample(dict(graph=g, skips=list(sk), observed=list(obs)), limit=8)
        bad = VS.monitor(g, sk, obs)
        if bad:
            mon_fail.append((bad, meta[-1]))
        # the same graph as a real decorated Workflow subclass, through the public validate()
        if VS.class_ok(g) and (i % 3 == 0 or only is not None):
            cobs, g2 = VS.observe_class(g, sk)
            stats["class_cases"] += 1
            stats["class_accepted"] += cobs[0] == "acc"
            stats["class_ctor_rejected"] += g2 is None
            gg = g2 if g2 is not None else g
            exprs.append("vcase_o %s %s %s %s" % (VS.g_universe(gg), VS.g_graph(gg), VS.g_skips(sk),
                                                   VS.g_obs(cobs)))
            meta.append(dict(suite="validate.class", kind="class", graph=gg, skips=list(sk),
                             observed=list(cobs)))
            ctx.count(1, ("class",) + VS.structural_key(gg, sk, cobs))
            bad = VS.monitor(gg, sk, cobs)
            if bad:
                mon_fail.append((bad, meta[-1]))
            if g2 is not None and sorted(map(_canon, g2)) != sorted(map(_canon, g)):
                ctx.violation("decorators produced StepConfigs that differ from the generated graph "
                              "(harness/class builder mismatch)", dict(graph=g, seen=g2), found_input=False)
        if only is not None:
            break
    res = ctx.run_cases("validate", VS.HEADER, exprs, shard=250)
    badi = [i for i, z in enumerate(res) if z != 0]
    ctx.suite("validate", cases=len(exprs), disagreements=len(badi), kinds=kinds, mutations=tagc,
              reject_stages={str(k): v for k, v in sorted(stages.items())}, **stats)
    ctx.suite("validate.monitor", failures=len(mon_fail))
    ctx.disagreements += len(badi)
    ctx.disagreements_checked = len(badi)
    seen = set()
    for (key, text), m in mon_fail:
        if key in seen:
            continue
        seen.add(key)
        ctx.finding(key, "C23 fails on the implementation: %s" % text,
                    dict(kind="implementation-monitor", case=m,
                         replay_hint="bin/check C23 --replay <this file> re-runs this graph on the real "
                                     "_validate_workflow / Workflow.validate and on the model"))
    if badi and not mon_fail:
        ctx.violation("model/implementation disagreement in suite validate (no property-level failing input found)",
                      dict(suite="validate", theorem="C23_validate_iff / C23_hitl_iff (Model/Validate.v no longer "
                                                     "matches representation/validate.py)",
                           result_bits=[res[i] for i in badi[:5]],
                           cases=[meta[i] for i in badi[:5]], coq_exprs=[exprs[i] for i in badi[:3]],
                           case=meta[badi[0]]),
                      found_input=False)
    elif badi:
        ctx.notes.append("%d model/implementation disagreements accompany the monitor failures" % len(badi))
    if only is None and not badi and not mon_fail:
        # (coverage is judged only on a run whose verdict is clean: with a broken implementation the
        # counters below, which are taken from its outcomes, are meaningless and the violation wins)
        ctx.require_coverage("validate", "accepted", stats["accepted"], 50)
        ctx.require_coverage("validate", "hitl_true", stats["hitl_true"], 10)
        ctx.require_coverage("validate", "skips_nonempty", stats["skips_nonempty"], 50)
        ctx.require_coverage("validate", "class_accepted", stats["class_accepted"], 10)
        ctx.require_coverage("validate", "accepted_with_route", stats["accepted_with_route"], 10)
        for c in ("hitl_subclass_true", "skip_mattered", "graph_unreachable", "graph_dangling", "graph_dead_end"):
            ctx.require_coverage("validate", c, stats[c], 3)
        ctx.require_coverage("validate", "rejected", stats["rejected"], 50)
        if stats["unknown_stage"] == 0:     # (stages come from the wording of the error messages)
            for st in range(1, 12):
                ctx.require_coverage("validate", "reject_stage_%d" % st, stages.get(st, 0), 1)
        # the detailed stage comparison must not silently degrade to class-only
        if stats["unknown_stage"] * 10 > max(1, stats["rejected"]):
            ctx.notes.append("error messages of %d/%d rejections were not recognised; those cases compare "
                             "the error class only" % (stats["unknown_stage"], stats["rejected"]))


def _canon(s):
    # `none` is dropped: the decorators strip type(None) from unions (it only survives as a sole "-> None")
    # a non-handler step has no max_recoveries in a decorated class
    return json.dumps(dict(s, acc=sorted(s["acc"]), ret=sorted(s["ret"]), none=False,
                           mr=s["mr"] if s["handler"] else 1), sort_keys=True, default=str)


def replay(ctx, path):
    body = json.load(open(path))
    case = body.get("case")
    print(json.dumps({k: body[k] for k in body if k not in ("coq_exprs",)}, indent=1)[:4000])
    if case and "graph" in case:
        run(ctx, only=case)
    else:
        run(ctx)
