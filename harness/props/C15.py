"""C15 — The server's handler record always reflects the run outcome."""
import json
import random

import core
from suites import server as S

THEOREMS = ("C15_status_matches_for_every_outcome / C15_never_stays_running / C15_terminal_sticky / "
            "C15_transient_faults_tolerated / C15_reducer_pairs_terminal_event_with_exit")
KINDS = ["success", "stepfail", "handler", "timeout", "cancel", "engine_policy", "engine_tick", "wait", "fan"]
TERMINAL = ("completed", "failed", "cancelled")


def monitor(spec, plan, obs):
    """The property's own statement, evaluated on what the real server stack did."""
    out = []
    # terminal_sticky: the sequence of rows actually written never goes terminal -> running
    seen_terminal = None
    for hid, status in obs.rows:
        if status in TERMINAL:
            seen_terminal = status
        elif seen_terminal is not None:
            out.append(("sticky", "stored status went %s -> %s" % (seen_terminal, status)))
            break
    o, h = obs.outcome, obs.record
    if o is None or h is None:
        return out      # the run did not end (or never started: the initial write kept failing)
    enc = S.e_outcome(o)
    status_tolerable = S.tolerable(plan.get("status", []))
    if enc[0] == 1:
        if h.status != "completed" or h.result is None or S._as_int(h.result.result) != enc[1]:
            out.append(("matches", "run returned %s but the handler is %s result=%s"
                        % (enc[1], h.status, getattr(h.result, "result", None))))
    elif enc[0] == 4:
        if h.status != "cancelled":
            out.append(("matches", "run was cancelled but the handler is %s" % h.status))
    elif enc[0] in (2, 3):
        if h.status != "failed" or not h.error:
            out.append(("matches", "run failed (%s) but the handler is %s error=%r" % (o[1], h.status, h.error)))
    else:
        # store exception / engine exception: no terminal event; demanded when the watcher's write can get through
        if status_tolerable and (h.status not in TERMINAL or (h.status == "failed" and not h.error)):
            out.append(("stays-running", "run ended with %r but the handler is %s error=%r" % (o[1], h.status, h.error)))
    return out


def run(ctx):
    ctx.rule = ("generated workflows (chain / fan-out+collect / wait-for-human / catch_error handler / workflow timeout) run "
                "through the real server runtime chain on MemoryWorkflowStore and SqliteWorkflowStore with injected store "
                "faults (runs of 0-4 failing status writes against a back-off of 2, single failures of append_event and of "
                "the idle bookkeeping writes); outcomes success, step failure, handler recovery/exhaustion, timeout, cancel, "
                "retry policy raising, malformed tick; distinct key = (kind, store, outcome, final record, fault shape)")
    ctx.prove()
    ctx.trusted.append("harness/suites/server.py: fault-injecting store subclasses, observation of control_loop._reduce_tick "
                       "through a recording wrapper, bare-package import of llama_agents.server (no Starlette), datetime "
                       "rebinding to the virtual wall clock")
    ctx.assumptions.append("update_handler_status is atomic (true of the memory and SQLite stores, which have no await point "
                           "between read and write); PostgresWorkflowStore is not exercised")
    ctx.assumptions.append("steps do not put StopEvent instances on the stream by hand (tick_clean); "
                           "C15_hand_published_stop_event_reverts_status shows what happens otherwise")
    rng = random.Random(ctx.seed * 31 + 15)
    n = ctx.n(72, 1500)
    cases, exprs, fails = [], [], []
    cov = dict(outcome={}, store={}, kind={}, retry_exhausted=0, retry_recovered=0, event_fault=0, idle_fault=0,
               watcher_write=0, idle_published=0, start_failed=0, transient_twins=0)
    for i in range(n):
        kind = KINDS[i % len(KINDS)] if i < 2 * len(KINDS) else None
        spec = S.gen_spec(rng, kind)
        plan = S.gen_plan(rng) if i >= len(KINDS) else {}
        store = "sqlite" if i % 3 == 2 else "memory"
        try:
            obs = S.run_case(spec, {k: list(v) for k, v in plan.items()}, store, ctx.scratch, "c15_%d" % i)
        except Exception as ex:  # noqa: BLE001  the real service itself failed in a way the model does not know
            fails.append(dict(key="service-error", why="the server stack raised %r while running this case (the handler record "
                              "and the run outcome can no longer be related)" % (ex,), spec=S.describe(spec), faults=plan,
                              store=store, case_index=i, store_calls=[]))
            continue
        cases.append((spec, plan, store, obs))
        exprs.append(S.coq_case(obs, plan))
        enc = S.e_outcome(obs.outcome)
        cov["outcome"][str(enc[0])] = cov["outcome"].get(str(enc[0]), 0) + 1
        cov["store"][store] = cov["store"].get(store, 0) + 1
        cov["kind"][spec["kind"]] = cov["kind"].get(spec["kind"], 0) + 1
        st_calls = [c for c in obs.calls if c[0] in (1, 2)]
        fails_in_row = 0
        for c in st_calls:
            fails_in_row = fails_in_row + 1 if c[-1] == 0 else 0
            if fails_in_row == len(S.BACKOFF) + 1:
                cov["retry_exhausted"] += 1
        if any(a[-1] == 0 and b[-1] == 1 for a, b in zip(st_calls, st_calls[1:])):
            cov["retry_recovered"] += 1
        cov["event_fault"] += any(c[0] == 3 and c[-1] == 0 for c in obs.calls)
        cov["idle_fault"] += any(c[0] == 4 and c[-1] == 0 for c in obs.calls)
        cov["idle_published"] += any(c[0] == 4 and c[1] == 1 for c in obs.calls)
        cov["watcher_write"] += (enc[0] in (6, 7) and obs.record is not None and S.tolerable(plan.get("status", [])))
        cov["start_failed"] += obs.record is None
        ctx.count(1, (spec["kind"], store, tuple(enc[:1]), tuple(S.e_record(obs.record)[:2]),
                      tuple(len(plan.get(k, [])) for k in ("status", "event", "idle"))))
        if i < 4:
            ctx.sample(dict(spec=S.describe(spec), faults=plan, store=store, outcome=enc,
                            record=S.e_record(obs.record), store_calls=len(obs.calls)))
        why_all = monitor(spec, plan, obs)
        if plan.get("status") and S.tolerable(plan["status"]) and not plan.get("event") and not plan.get("idle"):
            # transient_faults_tolerated, on the implementation: same record and outcome as the fault-free twin
            twin = S.run_case(spec, {}, store, ctx.scratch, "c15_%d_twin" % i)
            cov["transient_twins"] += 1
            if S.e_record(twin.record) != S.e_record(obs.record) or S.e_outcome(twin.outcome) != enc:
                why_all.append(("transient", "at most %d status-write failures in a row changed the outcome: record %s "
                                "outcome %s, fault-free record %s outcome %s" % (
                                    len(S.BACKOFF), S.e_record(obs.record), enc, S.e_record(twin.record),
                                    S.e_outcome(twin.outcome))))
        for key, why in why_all:
            fails.append(dict(key=key, why=why, spec=S.describe(spec), faults=plan, store=store, case_index=i,
                              store_calls=[list(c) for c in obs.calls]))
    # a run RESUMED by a new server process (no start event) that then dies of a store error without a terminal event:
    # its handler must not stay "running" either
    nrf, died = ctx.n(10, 120), 0
    for i in range(nrf):
        spec2 = S.gen_spec(rng, ["fan", "wait", "success", "fan"][i % 4])
        k = rng.choice([1, 2, 2, 3])
        store = "sqlite" if i % 3 == 2 else "memory"
        try:
            o2 = S.crash_case(spec2, store, ctx.scratch, "c15_rf_%d" % i, k, plan2={"event": [True]})
        except Exception as ex:  # noqa: BLE001
            fails.append(dict(key="service-error", why="the server stack raised %r while a resumed run met a store fault" % (ex,),
                              spec=S.describe(spec2), faults={"event_after_restart": [True]}, store=store, case_index=-1, store_calls=[]))
            continue
        ctx.count(1, ("resumed-fault", spec2["kind"], store, k))
        consumed = not (o2.plan2_left.get("event") or [])
        if not o2.crashed or not consumed:
            continue
        died += 1
        rec_ = S.e_record(o2.record)
        if rec_[:2] == [1, 0]:      # record exists, status running
            fails.append(dict(key="resumed-run-dies-handler-running",
                              why="a run resumed by a new server process after a stop at persisted tick %d met one failing append_event "
                                  "(the engine run ends with that error, no terminal event): the handler record is still 'running'" % k,
                              spec=S.describe(spec2), faults={"event_after_restart": [True]}, store=store, case_index=-1,
                              store_calls=[list(c) for c in o2.calls2]))
    cov["resumed_runs_killed_by_store_fault"] = died
    ctx.programs += n + nrf
    res = ctx.run_cases("server", S.HEADER, exprs, shard=ctx.n(9, 40))
    bad = [i for i, z in enumerate(res) if z != 0]
    ctx.disagreements += len(bad)
    ctx.disagreements_checked = len(bad)
    ctx.suite("server", runs=n, disagreements=len(bad), monitor_failures=len(fails), **cov)
    for f in fails[:3]:
        ctx.violation("C15 fails on the real server stack: %s" % f["why"],
                      dict(kind="implementation-monitor/L3", clause=f["key"], input=f,
                           replay_hint="suites.server.run_case(spec, faults, store, scratch) reproduces the run"))
    if bad and not fails:
        details = ctx.eval_terms(S.HEADER, [S.coq_detail(cases[i][3], cases[i][1]) for i in bad[:2]])
        ctx.violation("model/implementation disagreement in suite server (no property-level failing input found)",
                      dict(suite="server", theorems=THEOREMS,
                           cases=[dict(spec=S.describe(cases[i][0]), faults=cases[i][1], store=cases[i][2],
                                       implementation=cases[i][3].expect) for i in bad[:2]],
                           model=details), found_input=False)
    elif bad:
        ctx.notes.append("%d model/implementation disagreements accompany the monitor failures" % len(bad))
    if fails or bad:
        return      # a verdict was reached; coverage of a broken implementation is not meaningful
    for need in ("1", "2", "3", "4", "6", "7"):
        ctx.require_coverage("server", "outcome_" + need, cov["outcome"].get(need, 0), 2)
    ctx.require_coverage("server", "store_sqlite", cov["store"].get("sqlite", 0), 10)
    for k in ("retry_exhausted", "retry_recovered", "event_fault", "watcher_write", "idle_published", "transient_twins",
              "resumed_runs_killed_by_store_fault"):
        ctx.require_coverage("server", k, cov[k], 2)


def replay(ctx, path):
    print(json.dumps(json.load(open(path)), indent=1)[:6000])
    run(ctx)
