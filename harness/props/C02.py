"""C02 — Every emitted event reaches each accepting step exactly once."""
import random
from collections import Counter

from props._engine_common import run_l1
from suites import engine as E, engine_specs as S
from workflows.events import InputRequiredEvent, UnhandledEvent
from workflows.runtime.types.commands import CommandPublishEvent
from workflows.runtime.types.ticks import TickAddEvent

THEOREMS = "C02_routing_exact / C02_unhandled_exactly_when_no_taker"


def sameev(a, b):
    if a is None or b is None:
        return a is b
    return type(a) is type(b) and a.model_dump() == b.model_dump()


def evkey(e):
    return (type(e).__name__, repr(sorted(e.model_dump().items(), key=repr)))


def pending(w):
    return w.resolved_event is not None or w.timed_out


def matches(ev, w):
    return type(ev) is w.waiting_for_event and all(getattr(ev, k, None) == v for k, v in w.requirements.items())


def samewaiter(a, b):
    return (a.waiter_id == b.waiter_id and sameev(a.resolved_event, b.resolved_event) and a.timed_out == b.timed_out
            and sameev(a.event, b.event))


def new_inputs(b, a):
    """events of the entries added to queue / in_progress by the tick"""
    return [x.event for x in a.queue[len(b.queue):]] + [x.event for x in a.in_progress[len(b.in_progress):]]


def l1_monitor(rec):
    if rec[0] != "tick" or not isinstance(rec[2], TickAddEvent):
        return []
    _, before, t, after, cmds, now = rec
    out = []
    ev = t.event
    taken = False
    for n, b in before.workers.items():
        a = after.workers[n]
        tgt = t.step_name is None or t.step_name == n
        fresh = [i for i, w in enumerate(b.collected_waiters) if tgt and not pending(w) and matches(ev, w)]
        accepted = type(ev) in before.config.steps[n].accepted_events
        added = new_inputs(b, a)
        if len(a.queue) < len(b.queue) or len(a.in_progress) < len(b.in_progress):
            out.append("step %s lost queued/running work on an add-event tick" % n)
        if fresh:
            taken = True
            if len(added) != len(fresh):
                out.append("step %s: %d waiters resolved but %d inputs admitted" % (n, len(fresh), len(added)))
            want = [b.collected_waiters[i].event for i in fresh]
            # the first replay may start on a free worker while the next is queued: compare as multisets
            if sorted(evkey(x) for x in added) != sorted(evkey(x) for x in want):
                out.append("step %s received the event as a new input although it was waiting for it" % n)
            for i, w in enumerate(b.collected_waiters):
                w2 = a.collected_waiters[i]
                if i in fresh:
                    if not sameev(w2.resolved_event, ev):
                        out.append("step %s waiter %s not resolved with the event" % (n, w.waiter_id))
                elif not samewaiter(w, w2):
                    out.append("step %s waiter %s changed although it does not take the event" % (n, w.waiter_id))
        elif accepted and tgt:
            taken = True
            if len(added) != 1 or not sameev(added[0], ev):
                out.append("accepting step %s received the event %d times" % (n, len(added)))
        else:
            if added:
                out.append("step %s received an event it does not accept / that was addressed elsewhere" % n)
        if not fresh and not all(samewaiter(x, y) for x, y in zip(b.collected_waiters, a.collected_waiters)):
            out.append("step %s waiters changed without a matching event" % n)
    nun = sum(1 for c in cmds if isinstance(c, CommandPublishEvent) and isinstance(c.event, UnhandledEvent))
    want = 0 if (taken or isinstance(ev, InputRequiredEvent)) else 1
    if nun != want:
        out.append("%d UnhandledEvent published, expected %d" % (nun, want))
    return out


def l2_monitor(spec, rec, obs):
    out = []
    acc = {n: [c.__name__ for c in s["accepts"]] for n, s in spec["steps"].items()}
    emitted = [(r["ev"], r["i"]) for r in rec.log if r["kind"] in ("send", "return") and "Stop" not in r["ev"]]
    adds = Counter()
    for t in obs.ticks or []:
        if isinstance(t, TickAddEvent) and not t.attempts and not t.recovery_counts:
            adds[(type(t.event).__name__, t.event.get("i", None))] += 1
    for x in emitted:
        if adds[x] > 1:
            out.append("event %s handed to the run %d times" % (x, adds[x]))
        if adds[x] == 0 and not obs.done:
            out.append("event %s never handed to the run and the run did not end" % (x,))
    # "unless the run ends first": an event a step SENT that was never handed to the run although an event sent LATER
    # (by any step) was handed - the run had not ended when it should have arrived
    sent = [(r["ev"], r["i"]) for r in rec.log if r["kind"] == "send"]
    for k, x in enumerate(sent):
        if adds[x] == 0 and any(adds[y] > 0 for y in sent[k + 1:]):
            out.append("event %s sent by a step was never handed to the run although events sent after it were" % (x,))
            break
    for r in rec.log:
        if r["kind"] == "enter" and r["step"] in acc and r["ev"] not in acc[r["step"]]:
            out.append("step %s entered with %s which it does not accept" % (r["step"], r["ev"]))
    # an addressed event (a StepFailedEvent is addressed to the handler that owns the failed step) goes to that step only
    if spec.get("handlers"):
        from props.C08 import expected_owner
        for r in rec.log:
            if r["kind"] == "enter" and r.get("failed_step") is not None and r["step"] in spec["handlers"]:
                own = expected_owner(spec, r["failed_step"])
                if own != r["step"]:
                    out.append("StepFailedEvent of step %s, addressed to handler %s, was also handed to handler %s"
                               % (r["failed_step"], own, r["step"]))
    if "expected" in spec:
        got = Counter((r["step"], r["i"]) for r in rec.log if r["kind"] == "enter" and r["ev"] == "T1")
        for k, want in spec["expected"].items():
            if got[k] > want or (obs.done and obs.exception is None and got[k] != want):
                out.append("step %s received T1(i=%s) %d times, expected %d" % (k[0], k[1], got[k], want))
    return out


def run(ctx):
    ctx.rule = ("L1: random reachable reducer histories (targeted and broadcast adds, waiters with requirements, "
                "unknown targets, events nobody accepts); L2: generated fan-out / targeted-send / wait / failing-with-handlers workflows on "
                "the real engine under virtual time with gate-driven completion orders; distinct key = history "
                "index with >5 ops / (template, seed, #ticks)")
    ctx.prove()
    run_l1(ctx, ctx.n(160, 4000), l1_monitor, THEOREMS)
    rng = random.Random(ctx.seed * 37 + 11)
    n2 = ctx.n(150, 4000)
    fails, targeted_sends, done = [], 0, 0
    for i in range(n2):
        seed = rng.randrange(1 << 30)
        tmpls = S.TEMPLATES_C02 + [S.failflow]
        tmpl = tmpls[i % len(tmpls)]
        spec, rec, obs = E.run_case(tmpl, seed)
        targeted_sends += sum(1 for r in rec.log if r["kind"] == "send" and r.get("target"))
        done += 1 if obs.done and obs.exception is None else 0
        ctx.count(1, ("l2", tmpl.__name__, len(obs.ticks or []), len(rec.log)))
        if i < 3:
            ctx.sample(dict(kind="l2-run", template=tmpl.__name__, seed=seed,
                            sends=[(r["ev"], r["i"], r.get("target")) for r in rec.log if r["kind"] == "send"][:6],
                            actions=[str(a) for a in obs.actions[:6]]), limit=8)
        for w in l2_monitor(spec, rec, obs):
            fails.append(dict(template=tmpl.__name__, seed=seed, why=w, actions=[str(a) for a in obs.actions]))
    ctx.programs += n2
    ctx.suite("engine", runs=n2, completed=done, targeted_sends=targeted_sends, failures=len(fails))
    ctx.require_coverage("engine", "targeted_sends", targeted_sends, 10)
    ctx.require_coverage("engine", "completed", done, n2 // 2)
    for f in fails[:3]:
        ctx.violation("C02 fails on the real engine: %s" % f["why"],
                      dict(kind="implementation-monitor/L2", input=f,
                           replay_hint="suites.engine.run_case(engine_specs.<template>, seed) reproduces the run"))
    # the run-loop theorems (C02_run_loop_*) rest on Model/Runner.v: tie it to _ControlLoopRunner
    from props._engine_common import run_runnerdiff
    run_runnerdiff(ctx, ctx.n(60, 1500), 'C02_run_loop_conserves_events / C02_run_loop_blocks_only_when_quiescent')


def replay(ctx, path):
    import json
    print(json.dumps(json.load(open(path)), indent=1)[:4000])
    run(ctx)
