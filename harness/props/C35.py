"""C35 — Step lifecycle telemetry on the stream is balanced and ordered."""
import random
from collections import Counter

from props._engine_common import run_l1, run_l2, report_l2
from suites import engine_specs as S
from suites.wfevents import IR
from workflows.events import InputRequiredEvent, StepState, StepStateChanged, StopEvent
from workflows.runtime.types.commands import CommandPublishEvent, CommandQueueEvent
from workflows.runtime.types.results import StepWorkerResult
from workflows.runtime.types.ticks import TickAddEvent, TickStepResult

THEOREMS = "C35_every_tick / C35_whole_stream / C35_balanced / C35_running_or_preparing"


def automaton(open_, seq):
    """The telemetry automaton of Proofs/EngineTelemetry.v (tel_step). Returns (open', error|None)."""
    open_ = list(open_)
    for st, wid in seq:
        if st == StepState.PREPARING:
            if wid != "<enqueued>":
                return open_, "PREPARING carries worker id %r" % (wid,)
            continue
        try:
            k = int(wid)
        except (TypeError, ValueError):
            return open_, "%s without a worker id (%r)" % (st.name, wid)
        if st == StepState.RUNNING:
            if k in open_:
                return open_, "RUNNING published for slot %d which is already running" % k
            open_.append(k)
        elif st == StepState.NOT_RUNNING:
            if k not in open_:
                return open_, "NOT_RUNNING published for slot %d which is not running" % k
            open_.remove(k)
    return open_, None


def l1_monitor(rec):
    if rec[0] != "tick":
        return []
    _, before, t, after, cmds, now = rec
    out = []
    for n, b in before.workers.items():
        seq = [(c.event.step_state, c.event.worker_id) for c in cmds
               if isinstance(c, CommandPublishEvent) and isinstance(c.event, StepStateChanged) and c.event.name == n]
        got, err = automaton([ip.worker_id for ip in b.in_progress], seq)
        want = [ip.worker_id for ip in after.workers[n].in_progress]
        if err:
            out.append("step %s: %s" % (n, err))
        elif got != want:
            out.append("step %s: telemetry of the tick leaves slots %s open but in_progress is %s" % (n, got, want))
        # PREPARING exactly for events queued at capacity
        nprep = sum(1 for s, _ in seq if s == StepState.PREPARING)
        grown = len(after.workers[n].queue) - len(b.queue)
        nrun = sum(1 for s, _ in seq if s == StepState.RUNNING)
        if isinstance(t, TickAddEvent) and nprep != max(grown, 0):
            out.append("step %s: %d PREPARING published but the queue grew by %d" % (n, nprep, grown))
        if isinstance(t, TickAddEvent) and nprep and len(b.in_progress) + nrun < b.config.num_workers:
            out.append("step %s: PREPARING published although a worker was free" % n)
    if isinstance(t, TickStepResult):
        for r in t.result:
            if isinstance(r, StepWorkerResult) and isinstance(r.result, InputRequiredEvent):
                npub = sum(1 for c in cmds if isinstance(c, CommandPublishEvent) and c.event is r.result)
                if npub != 1:
                    out.append("InputRequiredEvent returned by %s published %d times at its result tick" % (t.step_name, npub))
    if isinstance(t, TickAddEvent) and isinstance(t.event, InputRequiredEvent):
        if any(isinstance(c, CommandPublishEvent) and c.event is t.event for c in cmds):
            out.append("InputRequiredEvent published again when it was delivered")
    return out


def l2_monitor(spec, rec, obs):
    out = []
    per = {}
    for ev in obs.stream:
        if isinstance(ev, StepStateChanged):
            per.setdefault(ev.name, []).append((ev.step_state, ev.worker_id))
    prep = 0
    for n, seq in per.items():
        left, err = automaton([], seq)
        if err:
            out.append("step %s: %s" % (n, err))
        # every PREPARING is followed by a later RUNNING of the step unless the run ended first
        npre = sum(1 for s, _ in seq if s == StepState.PREPARING)
        prep += npre
        ended_ok = obs.done and obs.exception is None
        nrun = sum(1 for s, _ in seq if s == StepState.RUNNING)
        nnot = sum(1 for s, _ in seq if s == StepState.NOT_RUNNING)
        nenter = sum(1 for r in rec.log if r["kind"] == "enter" and r["step"] == n)
        if nrun < nenter and not any(r["kind"] == "collect" and r["step"] == n for r in rec.log):
            out.append("step %s: %d bodies entered but only %d RUNNING published" % (n, nenter, nrun))
        if not err and ended_ok and left and not isinstance(obs.result, object.__class__):
            pass
    # RUNNING precedes the body, NOT_RUNNING follows it: checked through counts per step at run end for
    # runs that completed normally and whose steps all finished (no body cancelled by the stop)
    cancelled = any(r["kind"] == "exit" and r["outcome"] == "cancelled" for r in rec.log)
    if obs.done and obs.exception is None and not cancelled:
        for n, seq in per.items():
            left, err = automaton([], seq)
            if not err and left:
                out.append("step %s: RUNNING on slots %s never closed although every body finished and the run "
                           "completed" % (n, left))
    # an InputRequiredEvent returned by a step appears exactly once
    returned_ir = [r["i"] for r in rec.log if r["kind"] == "return" and r["ev"] == "IR"]
    seen = Counter(e.get("i", None) for e in obs.stream if isinstance(e, IR))
    nir = 0
    stop_at = next((k for k, e in enumerate(obs.stream) if isinstance(e, StopEvent)), None)
    for i in returned_ir:
        nir += 1
        if seen[i] > 1:
            out.append("InputRequiredEvent i=%s returned by a step was published %d times" % (i, seen[i]))
        if seen[i] == 0 and obs.done and obs.exception is None and not cancelled:
            out.append("InputRequiredEvent i=%s returned by a step was never published" % i)
    return out, dict(preparing=prep, returned_input_required=nir,
                     state_changes=sum(len(v) for v in per.values()))


def run(ctx):
    ctx.rule = ("L1: random reachable reducer histories (real _reduce_tick transitions; the telemetry automaton of "
                "the theorem is run on the StepStateChanged commands of every tick against in_progress before/after); "
                "L2: generated fan-out / wait / input-required workflows on the real engine under virtual time, "
                "gate-driven completion orders, the same automaton on the published stream; distinct key = history "
                "index / (template, log length, stream length, facts)")
    ctx.prove()
    run_l1(ctx, ctx.n(160, 4000), l1_monitor, THEOREMS)
    fails, facts = run_l2(ctx, [S.fanout, S.irflow, S.waitfan], ctx.n(150, 3000), l2_monitor,
                          need=(("preparing", 10), ("returned_input_required", 10), ("state_changes", 200)))
    report_l2(ctx, fails)
    # resumed runs: a run snapshotted with work in progress and resumed re-starts that work; the stream of the RESUMED run
    # must be well-formed on its own (every NOT_RUNNING preceded by the RUNNING of that slot, bodies entered <= RUNNINGs)
    import vloop
    from props.C12 import _snapshot_resume
    rngr = random.Random(ctx.seed * 97 + 5)
    nrs, resumed = ctx.n(70, 800), 0
    for i in range(nrs):
        seed = rngr.randrange(1 << 30)
        r = vloop.run(_snapshot_resume(S.countflow, seed))
        if not r.get("snapshot") or not r["running"]:
            continue
        resumed += 1
        ctx.count(1, ("resume-stream", r["steps"], len(r["running"])))
        why, _ = l2_monitor(r["spec"], r["rec"], r["obs"])
        for w in why:
            ctx.violation("C35 fails on the real engine: stream of a run resumed from a snapshot with %d invocations in progress: %s"
                          % (len(r["running"]), w),
                          dict(kind="implementation-monitor/L2", input=dict(template="countflow snapshot/resume", seed=seed)))
            break
        if why:
            break
    ctx.programs += nrs
    ctx.suite("engine.resumed_stream", attempts=nrs, resumed_with_work_in_progress=resumed)
    ctx.require_coverage("engine.resumed_stream", "resumed_with_work_in_progress", resumed, 10)
    # the run-loop theorems (C35_run_loop_*) rest on Model/Runner.v: tie it to _ControlLoopRunner
    from props._engine_common import run_runnerdiff
    run_runnerdiff(ctx, ctx.n(60, 1500), 'C35_run_loop_stream_is_log_commands / C35_run_loop_stream_telemetry')


def replay(ctx, path):
    import json
    print(json.dumps(json.load(open(path)), indent=1)[:4000])
    run(ctx)
