"""C37 — llamactl never activates a profile the user did not pick in that environment."""
import json
import os
import random
import shutil

from core import CheckError
from suites import llamactl as L

THEOREMS = "C37_active_profile_was_picked / C37_current_environment_known / C37_active_is_last_pick"

# Directed histories that are always run first: the witness of the repaired defect and the two
# sibling situations (the name left in `current_profile` would resolve in the environment that
# becomes current).  Names/keys: key 0 -> profile "default".
CORPUS = [
    [("create", 0, 1), ("envadd", 1, False), ("create", 0, 1), ("envdel", 1)],
    [("create", 0, 1), ("envadd", 1, False), ("create", 0, 1), ("switch", 0)],
    [("envadd", 1, False), ("create", 0, 1), ("switch", 0), ("create", 0, 1), ("envadd", 1, True)],
    [("create", 1, 1), ("envadd", 2, True), ("oidc", 1, L.KEYNAME[1], 1), ("select", L.KEYNAME[1]), ("envdel", 2),
     ("selany",), ("envdel", 0), ("create", 1, 2)],
    [("create", 0, 1), ("envadd", 1, False), ("select", L.KEYNAME[0]), ("envdel", 1)],
    [("create", 0, 1), ("envadd", 1, False), ("create", 0, 2), ("envdel", 0), ("envdel", 1), ("create", 0, 3)],
    # two profiles of one environment whose names differ only in case; the user selects the one created later
    [("oidc", 1, L.NAMES.index("A@x.io"), 1), ("oidc", 2, L.NAMES.index("a@x.io"), 1), ("select", L.NAMES.index("a@x.io")),
     ("select", L.NAMES.index("A@x.io")), ("select", L.NAMES.index("a@x.io"))],
]


def eval_cases(ctx, name, exprs, shard):
    """ctx.run_cases, retried when another check rebuilt Generated.vo between our build and our
    evaluation (concurrent checks share coq/; the .vo files are then briefly inconsistent or
    half-written).  Only the model is needed for the cases, so only the model is rebuilt."""
    import re
    import time
    import core
    for attempt in range(5):
        try:
            return ctx.run_cases(name, L.HEADER, exprs, shard=shard)
        except CheckError as e:
            if not re.search(r"inconsistent assumptions|premature end of file|Try to rebuild|bad magic|"
                             r"Cannot find a physical path|corrupted", str(e)) or attempt == 4:
                raise
            time.sleep(2 + 3 * attempt)
            ok, out = core.coq_make(["theories/Model/Llamactl.vo"])
            if not ok:
                raise CheckError("rebuild after a concurrent Generated.v change failed:\n" + out[-2000:])


def scratch_base(ctx):
    """SQLite commits fsync; on tmpfs the same operations are ~2x faster.  Everything is created
    and removed by this run; falls back to ctx.scratch."""
    shm = "/dev/shm"
    if os.path.isdir(shm) and os.access(shm, os.W_OK):
        return os.path.join(shm, "verif-C37-%d" % os.getpid())
    return os.path.join(ctx.scratch, "llamactl")


def check_shape(ctx):
    """The proofs are about a source in which all three clearing statements are present and profiles
    are looked up by (name, api_url).  Generated.v carries these facts into Coq (C37_generated_shape);
    they are also re-read here directly, because concurrent checks share coq/theories/Generated.v and
    one of them may have rewritten it from another tree between our translation and our build."""
    import translate
    import translate_llamactl as TL
    try:
        shape = TL.extract(translate.src)
    except (TL.Err, translate.TranslateError, SyntaxError, OSError) as e:
        shape = "TRANSLATE-ERROR: %s" % e
    if ("TRANSLATE-ERROR" in shape or ":= false" in shape) and not ctx.broken_obligations:
        ctx.broken_obligations.append(("C37_generated_shape (source shape, re-read directly)", shape))


def report_failure(ctx, ops, fail, origin):
    i, key, text = fail
    ctx.finding(key, "C37 fails on the real llamactl configuration code: after %s, %s"
                % (" ; ".join(map(repr, ops[:i + 1])), text),
                dict(kind="implementation-monitor", origin=origin, history=[list(o) for o in ops[:i + 1]],
                     universes=dict(urls=L.URLS, names=L.NAMES, keys=L.KEYS, projects=L.PROJ, uids=L.UIDS),
                     replay_hint="bin/check C37 --replay <this file> re-executes the history on /repo"))


def run(ctx):
    ctx.rule = ("histories of llamactl CLI operations (EnvService/AuthService calls) over 4 environments, 6 profile "
                "names, colliding api keys, OIDC identities; distinct key = the history's sequence of (operation "
                "kind, result code, current environment, active profile id) — so two histories count as one when "
                "they take the same path through the code; thorough adds every history of <= 5 operations over "
                "2 environments x 2 names (breadth-first over the real code, equal states shared)")
    ctx.trusted += [
        "C37: stubs for the two HTTP client modules auth_service.py imports (llama_agents.cli.auth.client, "
        "llama_agents.core.client.manage_client) — no operation of the property touches the network; "
        "`llama_agents.cli` registered as a bare package (its __init__ needs dulwich); real sqlite3 (3.40) "
        "with the repository's own migrations",
        "C37: AuthService is always obtained through EnvService.current_auth_service() immediately before "
        "the call (what every CLI command does); update_profile is only given profiles whose name/api_url "
        "are unchanged (the CLI only changes credentials) — the model theorem C37_rename_is_outside_the_cli "
        "shows this restriction is necessary",
    ]
    ctx.assumptions += [
        "profile names are non-empty strings (an empty name makes `if current_name:` false)",
        "the settings row current_environment_api_url exists (seeded by migration 0001, never deleted by the code)",
    ]
    ctx.prove()
    check_shape(ctx)
    rng = random.Random(ctx.seed)
    base = scratch_base(ctx)
    shutil.rmtree(base, ignore_errors=True)
    os.makedirs(base)
    try:
        _run(ctx, rng, base)
    finally:
        shutil.rmtree(base, ignore_errors=True)


def _run(ctx, rng, base):
    n = ctx.n(300, 16000)
    histories = [list(h) for h in CORPUS]
    rename_idx = set()      # histories of gen_rename_scenario: op 7 renames a profile of ANOTHER environment
    for i in range(n):
        ln = rng.choice([4, 6, 8, 10, 12, 14, 16, 20])
        if i % 11 == 5:
            rename_idx.add(len(histories))
            histories.append(L.gen_rename_scenario(rng, ln))
        elif i % 3 == 0:
            histories.append(L.gen_scenario(rng, ln))
        else:
            histories.append(L.gen_ops(rng, ln, raw=(i % 4 == 1)))
    results = L.run_histories(base, histories, procs=ctx.n(8, 16))

    exprs, cov, lens = [], {}, {}
    mon_fail = []
    for idx, (ops, (outs, fail, c)) in enumerate(zip(histories, results)):
        exprs.append(L.case_expr(ops, outs))
        for k, v in c.items():
            cov[k] = cov.get(k, 0) + v
        lens[len(ops)] = lens.get(len(ops), 0) + 1
        key = tuple((o[0], out[0], out[2], out[4]) for o, out in zip(ops, outs))
        ctx.count(1, key)
        if idx in (0, 3) or 6 <= idx < 9:
            ctx.sample(dict(history=[list(o) for o in ops], last_observation=outs[-1]))
        # (a rename through update_profile inside the current environment can activate a profile the user did not pick,
        # by design; monitor failures after such an op are not counted - except in the rename scenario, whose op 7
        # renames a profile of another environment and must leave the current environment's active profile alone)
        if fail and ((idx in rename_idx and fail[0] == 7) or not any(o[0] == "rawupdate" for o in ops[:fail[0] + 1])):
            mon_fail.append((ops, fail, "corpus" if idx < len(CORPUS) else "random"))
    res = eval_cases(ctx, "llamactl", exprs, ctx.n(24, 300))
    bad = [i for i, z in enumerate(res) if z != 0]
    ctx.programs += len(histories)
    ctx.suite("llamactl", histories=len(histories), operations=sum(len(h) for h in histories),
              disagreements=len(bad), lengths=lens, coverage=dict(sorted(cov.items())))
    for c, m in (("stale_name_at_envdel", 3), ("stale_name_at_switch", 3), ("stale_name_at_envadd", 3),
                 ("same_name_in_two_envs", 50), ("active_some", 200), ("dangling_pointer", 20),
                 ("create_duplicate_or_blank", 10), ("switch_to_unknown_env", 5), ("select_missing_name", 5),
                 ("op_selany", 20), ("op_oidc", 20)):
        ctx.require_coverage("llamactl", c, cov.get(c, 0), m)

    # exhaustive small scope on the real code
    depth = ctx.n(3, 5)
    edges, efail, stats = L.explore(base, depth)
    eres = eval_cases(ctx, "llamactl.explore", [L.edge_expr(*e) for e in edges], ctx.n(70, 400))
    ebad = [i for i, z in enumerate(eres) if z != 0]
    ctx.count(len(edges))
    for lit, op, out in edges:
        ctx.nontrivial.add(("edge", lit, op))
    ctx.suite("llamactl.explore", depth=depth, alphabet=len(L.small_alphabet()), disagreements=len(ebad),
              monitor_failures=len(efail), **stats)
    ctx.require_coverage("llamactl.explore", "nodes", stats["nodes"], 50)
    ctx.disagreements += len(bad) + len(ebad)
    ctx.disagreements_checked = len(bad) + len(ebad)

    for ops, fail, origin in sorted(mon_fail, key=lambda t: t[1][0])[:3]:
        report_failure(ctx, ops, fail, origin)
    for path, key, text in sorted(efail, key=lambda t: len(t[0]))[:2]:
        report_failure(ctx, path, (len(path) - 1, key, text), "exhaustive exploration")
    if (bad or ebad) and not (mon_fail or efail):
        cases = []
        for i in bad[:3]:
            k = res[i]
            model = L.split_trace(ctx.eval_terms(L.HEADER, [L.trace_term(histories[i])])[0])
            cases.append(dict(history=[list(o) for o in histories[i][:k if k > 0 else None]], first_differing_op=k,
                              implementation=results[i][0][k - 1] if k > 0 else None,
                              model=model[k - 1] if 0 < k <= len(model) else None))
        for i in ebad[:3]:
            cases.append(dict(state=edges[i][0], op=list(edges[i][1]), implementation=edges[i][2],
                              model=ctx.eval_terms(L.HEADER, [L.edge_trace_term(edges[i][0], edges[i][1])])[0]))
        ctx.violation("model/implementation disagreement in suite llamactl (no property-level failing input found)",
                      dict(suite="llamactl", theorem=THEOREMS + " (Model/Llamactl.v no longer matches the code)",
                           cases=cases), found_input=False)
    elif bad or ebad:
        ctx.notes.append("%d model/implementation disagreements accompany the monitor failures" % (len(bad) + len(ebad)))


def replay(ctx, path):
    body = json.load(open(path))
    print(json.dumps(body, indent=1))
    hist = body.get("history")
    if not hist:
        return run(ctx)
    base = scratch_base(ctx)
    shutil.rmtree(base, ignore_errors=True)
    os.makedirs(base)
    try:
        ops = [tuple(o) for o in hist]
        w = L.World(os.path.join(base, "replay"))
        outs, fail, _ = L.run_history(w, ops)
        w.close()
        for o, out in zip(ops, outs):
            print("%-40r -> rc=%d env=%s pointer=%s active=%s" % (
                o, out[0], L.URLS[out[2]] if out[2] < L.NE else out[2],
                None if out[3] == 0 else L.NAMES[out[3] - 1], out[4] or None))
        ctx.count(1, tuple(ops))
        ctx.programs += 1
        ctx.prove()
        if fail:
            report_failure(ctx, ops, fail, "replay")
        else:
            print("replay: the history no longer violates C37 on %s" % L.boot.REPO)
    finally:
        shutil.rmtree(base, ignore_errors=True)
