"""C09 — collect_events returns each full set once without losing events."""
import itertools
import random
from collections import Counter

from props._engine_common import run_l1, run_l2, report_l2
from suites import collect as C, engine_specs as S
from workflows.runtime.types.commands import CommandRunWorker
from workflows.runtime.types.results import AddCollectedEvent, DeleteCollectedEvent, StepWorkerResult
from workflows.runtime.types.ticks import TickStepResult

THEOREMS = "C09_add_fresh_snapshot / C09_add_stale_snapshot_reruns / C09_delete_on_completion"
K_DOUBLE = "C09/event-in-two-returned-lists"


def l1_monitor(rec):
    """reducer half on real transitions: fresh add appends exactly the event; stale add re-runs and changes nothing"""
    if rec[0] != "tick":
        return []
    _, before, t, after, cmds, now = rec
    if not isinstance(t, TickStepResult) or t.step_name not in before.workers:
        return []
    adds = [r for r in t.result if isinstance(r, AddCollectedEvent)]
    if len(adds) != 1 or any(isinstance(r, DeleteCollectedEvent) for r in t.result):
        return []
    r = adds[0]
    b, a = before.workers[t.step_name], after.workers[t.step_name]
    ip = next((x for x in b.in_progress if x.worker_id == t.worker_id), None)
    if ip is None:
        return []
    cur = b.collected_events.get(r.event_id, [])
    sent = ip.shared_state.collected_events.get(r.event_id, [])
    new = a.collected_events.get(r.event_id, [])
    stopped = any(isinstance(x, StepWorkerResult) and getattr(x.result, "__class__", None).__name__ in ("StopEvent", "MyStop")
                  for x in t.result)
    out = []
    if stopped:
        return out
    from workflows.events import StepState, StepStateChanged
    from workflows.runtime.types.commands import CommandPublishEvent
    released = any(isinstance(c, CommandPublishEvent) and isinstance(c.event, StepStateChanged)
                   and c.event.name == t.step_name and c.event.step_state == StepState.NOT_RUNNING
                   and c.event.worker_id == str(t.worker_id) for c in cmds)
    # a re-run keeps the slot (no NOT_RUNNING for it) and issues CommandRunWorker for the same slot
    rerun = (not released) and any(isinstance(c, CommandRunWorker) and c.step_name == t.step_name
                                   and c.id == t.worker_id for c in cmds)
    if len(sent) < len(cur):
        if not rerun:
            out.append("stale AddCollectedEvent was not re-run (event lost or double counted)")
        if [id(x) for x in new] != [id(x) for x in cur]:
            out.append("stale AddCollectedEvent changed the buffer")
    else:
        if [id(x) for x in new] != [id(x) for x in cur] + [id(r.event)]:
            out.append("fresh AddCollectedEvent did not append exactly the event to the buffer")
        if rerun:
            out.append("fresh AddCollectedEvent re-ran the step")
    return out


def l2_monitor(spec, rec, obs):
    out = []
    n, rounds = spec.get("collect_n"), spec.get("collect_rounds")
    lists = [r for r in rec.log if r["kind"] == "collect" and r["got"] is not None]
    used = Counter(i for r in lists for (_, i) in r["got"])
    for r in lists:
        if [t for t, _ in r["got"]] != r["expected"]:
            out.append("collect_events returned %s for expected %s" % (r["got"], r["expected"]))
    sent = [r["i"] for r in rec.log if r["kind"] == "send" and r["ev"] == "T2"]
    if spec.get("collect_then_fail"):
        # a failed attempt keeps the buffer: the retry of the invocation that got the full set gets the same set again
        out2, seq = [], {}
        for r in rec.log:
            if r["kind"] == "collect":
                seq.setdefault(r["i"], []).append(None if r["got"] is None else sorted(i for _, i in r["got"]))
        for i, ls in seq.items():
            full = next((l for l in ls if l is not None), None)
            if full is None:
                continue
            after = ls[ls.index(full) + 1:]
            if any(l != full for l in after):
                out2.append("%s of the collecting invocation (event %s) got %s from collect_events after %s "
                            "had received the full set %s (buffered events lost)"
                            % ("the replay" if spec.get("collect_then_wait") else "retry", i, after,
                               "the attempt that then suspended in wait_for_event" if spec.get("collect_then_wait") else "a failed attempt", full))
        if spec.get("collect_then_wait"):
            if obs.done and obs.exception is not None and not out2:
                out2.append("a step that collected a full set and then waited for an event never finished: %r" % (obs.exception,))
            return out2, dict(returned_lists=len(lists), collect_then_wait_runs=1 if any(len(l) > 1 for l in seq.values()) else 0)
        return out2, dict(returned_lists=len(lists), collect_then_fail_runs=1)
    dup = [i for i, c in used.items() if c > 1]
    if dup and (spec.get("collect_k") or 1) >= 2:
        # (known only for a collecting step with several workers: overlapping invocations read a stale snapshot)
        out.append("%s: events %s appear in more than one returned list (%s)"
                   % (K_DOUBLE, dup, [r["got"] for r in lists if any(i in dup for _, i in r["got"])]))
    elif dup:
        out.append("events %s appear in more than one returned list although the collecting step has ONE worker (%s)"
                   % (dup, [r["got"] for r in lists if any(i in dup for _, i in r["got"])]))
    stale = 0
    collected_i = {r["i"] for r in rec.log if r["kind"] == "collect"}
    cancelled = any(r["kind"] == "exit" and r["outcome"] == "cancelled" for r in rec.log)
    # the run was driven to quiescence: every sent event went through collect_events and no body was cut off
    quiet = not rec.waiting and not obs.stuck and not cancelled and all(i in collected_i for i in sent)
    if n and quiet and not dup:
        # nothing lost: every complete set was handed out exactly once
        if len(lists) != rounds:
            out.append("%d events in sets of %d: %d full lists returned, expected %d (events lost or stuck)"
                       % (len(sent), n, len(lists), rounds))
        if any(i not in sent for i in used):
            out.append("a returned list contains an event that was never sent")
    entered = Counter(r["i"] for r in rec.log if r["kind"] == "enter" and r["step"] == "c_gather")
    stale = sum(1 for c in entered.values() if c > 1)
    return out, dict(returned_lists=len(lists), reruns_on_stale_snapshot=stale,
                     runs_multi_worker=1 if (spec.get("collect_k") or 1) > 1 else 0,
                     runs_with_double_use=1 if dup else 0)


def run(ctx):
    ctx.rule = ("L0: random (buffers, incoming event, expected list with multiplicities, buffer id) through the real "
                "InternalContext.collect_events vs Model/Collect.v, plus the statement on the real output; L1: reducer "
                "transitions with AddCollectedEvent (fresh / stale snapshot); L2: repeated collections with 1-4 workers on "
                "the real engine, invocations gated before collect_events so snapshots go stale, collecting invocations that fail "
                "and are retried or suspend in wait_for_event and are replayed; distinct key = "
                "(expected, buffer shape, outcome) / history index / run facts")
    ctx.prove()
    rng = random.Random(ctx.seed * 17 + 9)
    ids = itertools.count(1)
    n = ctx.n(800, 40000)
    exprs, fails, kinds = [], [], Counter()
    for i in range(n):
        coll, ev, expected, bid = C.gen_case(rng, ids)
        r, rvs = C.real_collect(coll, ev, expected, bid)
        exprs.append(C.coq_case(coll, ev, expected, bid, C.encode(r, rvs)))
        kind = "returned" if r is not None else ("buffered" if rvs else "dropped")
        kinds[kind] += 1
        ctx.count(1, (tuple(c.__name__ for c in expected), tuple(sorted((k, len(v)) for k, v in coll.items())), kind,
                      type(ev).__name__, bid))
        if i < 4:
            ctx.sample(dict(kind="l0-collect", expected=[c.__name__ for c in expected], buffer_id=bid,
                            buffers={k: [(type(e).__name__, e.i) for e in v] for k, v in coll.items()},
                            incoming=(type(ev).__name__, ev.i), outcome=kind), limit=8)
        for w in C.monitor(coll, ev, expected, bid, r, rvs):
            fails.append(dict(why=w, expected=[c.__name__ for c in expected], buffer_id=bid,
                              buffers={k: [(type(e).__name__, e.i) for e in v] for k, v in coll.items()},
                              incoming=(type(ev).__name__, ev.i)))
    res = ctx.run_cases("collect", C.HEADER, exprs)
    bad = [i for i, z in enumerate(res) if z != 0]
    ctx.suite("collect", cases=n, disagreements=len(bad), outcomes=dict(kinds), monitor_failures=len(fails))
    ctx.disagreements += len(bad)
    ctx.disagreements_checked += len(bad)
    for f in fails[:3]:
        ctx.violation("C09 fails on the real collect_events: %s" % f["why"], dict(kind="implementation-monitor/L0", input=f))
    if bad and not fails:
        ctx.violation("model/implementation disagreement in suite collect (no property-level failing input found)",
                      dict(suite="collect", theorem="C09_returned_list / C09_returns_iff_complete (Model/Collect.v no longer "
                           "matches InternalContext.collect_events)", coq_cases=[exprs[i] for i in bad[:3]]), found_input=False)
    for k in ("returned", "buffered", "dropped"):
        ctx.require_coverage("collect", k, kinds[k], 20)
    run_l1(ctx, ctx.n(220, 4000), l1_monitor, THEOREMS, need=("collect_rerun", "stale_collect_with_returned_event"))
    fails2, facts = run_l2(ctx, [S.collect2, S.fanout, S.collectfail, S.collectwait], ctx.n(180, 4000), l2_monitor,
                           need=(("returned_lists", 50), ("reruns_on_stale_snapshot", 10), ("runs_multi_worker", 20), ("collect_then_fail_runs", 10),
                                 ("collect_then_wait_runs", 10)))
    known = [f for f in fails2 if f["why"].startswith(K_DOUBLE)]
    other = [f for f in fails2 if not f["why"].startswith(K_DOUBLE)]
    if known:
        ctx.finding(K_DOUBLE, known[0]["why"], dict(kind="implementation-monitor/L2", input=known[0], occurrences=len(known)))
    ctx.partial.append("'each received event appears in at most one returned list' is refuted for a collecting step with "
                       "num_workers >= 2 (C09_linear_use_refuted) and listed as a known finding")
    report_l2(ctx, other)


def replay(ctx, path):
    import json
    print(json.dumps(json.load(open(path)), indent=1)[:4000])
    run(ctx)
