"""Shared driver pieces of C36 / C26 / C14: run the in-process L3 suite (suites/idlerel.py), turn its
conformance results and monitor issues into verdicts with the common protocol."""
from suites import idlerel as IR

REPLAY_HINT = ("suites.idlerel.run_case(case) replays the scenario on the real runtime chain under virtual time "
               "(times in 1/64 s); `trace` is the recorded M-IdleRelease action sequence with observations "
               "[active, live loops, idle mark, status running, persisted events, busy inputs, receive queue, "
               "waiter timeouts, retries]")


def run_inprocess(ctx, pid, n, theorems, need=()):
    out, total = IR.run_suite(ctx, n, props={pid})
    ctx.programs += len(out)
    for k, r in enumerate(out):
        c, f = r["case"], r["facts"]
        key = (c["kind"], c["tau"], c["y"], f.get("releases", 0), f.get("reloads_by_sender", 0),
               f.get("reloads_by_startup", 0), f.get("idle_marks", 0), f.get("sent", 0), r["res"]["status"],
               tuple(sorted(i["key"] or "violation" for i in r["issues"])))
        ctx.count(r["ntrace"], key)
        if 8 <= k < 11:
            ctx.sample(dict(kind="l3-scenario", scenario=c["kind"], idle_timeout=c["tau"], store_yields=c["y"],
                            ops=[(t, op, p) for (t, op, p) in c["ops"]][:4], outcome=r["res"]["status"],
                            first_actions=[a for a, _ in r["trace"][:12]]), limit=8)
    ctx.suite("idlerel", scenarios=len(out), **total)
    bad = [r for r in out if r["conform"] != 0]
    ctx.disagreements += len(bad)
    ctx.disagreements_checked += len(bad)
    seen, nviol = set(), 0
    for r in out:
        for i in r["issues"]:
            replay = dict(kind="implementation-monitor/L3", why=i["what"], scenario=r["case"],
                          outcome=r["res"], trace=[[a, o] for a, o in r["trace"]][:400], replay_hint=REPLAY_HINT)
            if i["key"] is not None:
                if i["key"] not in seen:
                    seen.add(i["key"])
                    before = len(ctx.violations)
                    ctx.finding(i["key"], "%s fails on the real server stack: %s" % (pid, i["what"]), replay)
                    nviol += len(ctx.violations) - before
            elif nviol < 3:
                nviol += 1
                ctx.violation("%s fails on the real server stack: %s" % (pid, i["what"]), replay, True)
    if bad and nviol == 0:
        r = bad[0]
        pos = abs(r["conform"])
        ctx.violation("model/implementation disagreement in suite idlerel (no property-level failing input found)",
                      dict(suite="idlerel", theorem="%s (Model/IdleRelease.v no longer matches the runtime chain)" % theorems,
                           scenarios_disagreeing=len(bad), scenario=r["case"],
                           first_bad_action=pos, action_not_enabled_in_model=(r["conform"] < 0),
                           trace_prefix=[[a, o] for a, o in r["trace"]][:pos], replay_hint=REPLAY_HINT),
                      found_input=False)
    elif bad:
        ctx.notes.append("%d model/implementation disagreements accompany the monitor failures" % len(bad))
    if not ctx.violations:
        # generators fail closed -- but a run that already produced a concrete failing input is a verdict, not a
        # coverage problem (a defect may well make a whole branch unreachable)
        for k in ("releases", "reloads_by_sender", "released_on_time", "crashes", "yielding_store",
                  "compared_with_reference") + tuple(need):
            k, m = (k if isinstance(k, tuple) else (k, 1))
            ctx.require_coverage("idlerel", k, total.get(k, 0), m)
    return out, total
