"""C21 — The single-connection SQLite store keeps working after use."""
import json
import os
import random
import shutil

import core
from suites import connstore as K, statestore as S

THEOREMS = "C21_store_single_eq_percall / C21_single_eq_percall_generic"


def judge(ops, single, percall):
    """The property on the real store: single-connection results == per-call results."""
    for i, (a, b) in enumerate(zip(single, percall)):
        if a != b:
            if a[0] == "closed":
                key = "C21/state-store-closes-shared-connection"
                what = ("single_connection=True: op #%d %s raised sqlite3.ProgrammingError (closed database); "
                        "per-call mode returned %r" % (i, short(ops[i]), b))
            elif any(o[0] == "reopen" for o in ops[:i]):
                key = "C21/single-connection-loses-data-on-reopen"
                what = ("after closing and reopening the store, op #%d %s: single-connection %r, per-call %r"
                        % (i, short(ops[i]), a, b))
            else:
                key = "C21/single-connection-result-differs"
                what = "op #%d %s: single-connection %r, per-call %r" % (i, short(ops[i]), a, b)
            return [(key, what, dict(op_index=i, single=repr(a), percall=repr(b)))]
    return []


def short(o):
    s = repr(o)
    return s if len(s) < 140 else s[:137] + "..."


def shrink(dbdir, ops, key):
    """Delete operations of the generated part; the read-back suffix stays."""
    nb = len(K.READ_BACK)
    suffix = list(ops[-nb:]) if list(ops[-nb:]) == list(K.READ_BACK) else []
    body = list(ops[:len(ops) - len(suffix)])
    body = _shrink(dbdir, body, suffix, key)
    return body + suffix


def _shrink(dbdir, ops, suffix, key):
    cur, budget, changed = list(ops), 60, True
    while changed and budget > 0:
        changed = False
        for i in range(len(cur) - 1, -1, -1):
            if budget <= 0:
                break
            cand = cur[:i] + cur[i + 1:]
            if not cand:
                continue
            budget -= 1
            a, b = K.run_both(dbdir, 900000 + budget, cand + suffix)
            if key in [k for k, _, _ in judge(cand + suffix, a, b)]:
                cur, changed = cand, True
    return cur


def run(ctx):
    ctx.rule = ("random sequences of 3-14 store operations (handler update/query/delete, event and tick append/"
                "query, create_state_store with in-memory seed / copy from another run, state get/set/set_state/"
                "clear/edit_state/get_state on DictState and typed runs) executed on a fresh SqliteWorkflowStore "
                "with single_connection=True and on one with per-call connections; distinct key = (op kinds, "
                "result kinds)")
    ctx.prove()
    ctx.partial.append("handler/event/tick semantics are modelled as far as the suite drives them (ids, statuses, payload "
                       "ids, sequence numbers); subscribe_events is not driven; stream_ticks only by the two-mode monitor (a stream "
                       "left open across appends through the same store), not modelled")
    ctx.trusted.append("sqlite3: a closed connection raises ProgrammingError on use; committed data is visible to every "
                       "later connection (exercised on real database files, not modelled)")
    S.check_pools()
    rng = random.Random(ctx.seed * 23 + 5)
    dbdir = S.fast_scratch(ctx)
    n = ctx.n(250, 4000)
    only_own = S.source_flags().get("statestore_sqlite_closes_only_own_conn", "true")
    closes = "false" if only_own == "true" else "true"
    cases, exprs, fails = [], [], []
    cov = dict(state_op_then_store_op=0, seed_then_op=0, copy_with_source=0, state_ops=0, store_ops=0,
               two_session_state_ops=0, typed_state_ops=0, closed_results=0, reopen_mid_sequence=0)
    kinds = {}
    try:
        for i in range(n):
            ops = K.gen_case(rng, i)
            single, percall = K.run_both(dbdir, i, ops)
            cases.append(ops)
            exprs.append(K.case_expr(ops, single, percall, closes=closes))
            measure(cov, kinds, ops, single)
            ctx.count(1, (tuple(o[0] if o[0] != "state" else "state:" + o[2][0] for o in ops),
                          tuple(r[0] for r in single)))
            if i < 3:
                ctx.sample(S.jsonable(dict(ops=ops, single_connection=single, per_call=percall)), limit=3)
            for key, what, detail in judge(ops, single, percall):
                fails.append((key, what, detail, ops))
        seen = set()
        for key, what, detail, ops in fails:
            if key in seen:
                continue
            seen.add(key)
            small = shrink(dbdir, ops, key)
            a, b = K.run_both(dbdir, 999999, small)
            ctx.finding(key, "C21 fails on the real code: " + (judge(small, a, b) or [(0, what, 0)])[0][1],
                        dict(kind="implementation-monitor", ops=S.jsonable(small), original_ops=S.jsonable(ops),
                             detail=S.jsonable(detail), single_connection=S.jsonable(a), per_call=S.jsonable(b),
                             replay_hint="bin/check C21 --replay <this file> re-executes `ops` in both modes"))
        # an open tick stream interleaved with appends through the same store (monitor only: the two modes must agree)
        nsi, si_fails = ctx.n(40, 400), []
        for i in range(nsi):
            f2, facts2 = K.stream_interleave_case(rng, dbdir, "c21")
            ctx.count(1, ("stream-interleave", facts2["n"], facts2["k"], facts2["pos"]))
            for w in f2:
                si_fails.append((w, facts2))
        for i in range(ctx.n(3, 12)):
            f3, facts3 = K.long_run_case(rng, dbdir, "c21")
            ctx.count(1, ("long-run", facts3["n"]))
            for w in f3:
                si_fails.append((w, facts3))
        ctx.programs += nsi
        ctx.suite("connstore.stream_interleave", cases=nsi, failures=len(si_fails))
        for w, facts2 in si_fails[:2]:
            ctx.violation("C21 fails on the real code: " + w, dict(kind="implementation-monitor", scenario="stream_ticks interleaved with append_tick / a run longer than any page size",
                                                                 input=facts2))
    finally:
        shutil.rmtree(dbdir, ignore_errors=True)
    res = ctx.run_cases("connstore", K.header(), exprs, shard=25)
    bad = [i for i, z in enumerate(res) if z != 0]
    ctx.disagreements += len(bad)
    ctx.disagreements_checked = len(bad)
    ctx.programs += len(exprs)
    ctx.suite("connstore", cases=len(exprs), ops=sum(len(o) for o in cases), disagreements=len(bad),
              monitor_failures=len(fails), op_kinds=kinds, **cov)
    for k in ("state_op_then_store_op", "seed_then_op", "copy_with_source", "two_session_state_ops",
              "typed_state_ops", "reopen_mid_sequence"):
        ctx.require_coverage("connstore", k, cov[k], 5)
    if bad and not fails:
        i = bad[0]
        ctx.violation("model/implementation disagreement in suite connstore (no property-level failing input found)",
                      dict(suite="connstore", theorem=THEOREMS, code=res[i], ops=S.jsonable(cases[i]),
                           coq_expr=exprs[i][:3000],
                           code_meaning="n<1000: single-connection model differs at op n-1; 1000+n: per-call model"),
                      found_input=False)
    elif bad:
        ctx.notes.append("%d model/implementation disagreements accompany the monitor failures" % len(bad))


def measure(cov, kinds, ops, single):
    seen_state = seen_seed = False
    for o, r in zip(ops, single):
        k = o[0] if o[0] != "state" else "state:" + o[2][0]
        kinds[k] = kinds.get(k, 0) + 1
        if o[0] == "state":
            cov["state_ops"] += 1
            if o[2][0] in ("set", "edit", "clear"):
                cov["two_session_state_ops"] += 1
            if K.RUN_TYPE[o[1]] != [0]:
                cov["typed_state_ops"] += 1
            if seen_seed:
                cov["seed_then_op"] += 1
            seen_state = True
        elif o[0] == "reopen":
            cov["reopen_mid_sequence"] += 1
        elif o[0] in ("seed", "copy"):
            if o[0] == "copy" and o[1] != o[2]:
                cov["copy_with_source"] += 1
            seen_seed = True
        else:
            cov["store_ops"] += 1
            if seen_state:
                cov["state_op_then_store_op"] += 1
            if seen_seed:
                cov["seed_then_op"] += 1
        if r[0] == "closed":
            cov["closed_results"] += 1


def replay(ctx, path):
    rec = json.load(open(path))
    print(json.dumps({k: rec[k] for k in rec if k not in ("original_ops",)}, indent=1)[:3000])
    if "ops" in rec:
        ops = [_retuple(o) for o in rec["ops"]]
        dbdir = os.path.join(ctx.scratch, "replay")
        a, b = K.run_both(dbdir, 1, ops)
        print("re-execution now: single-connection:", a)
        print("                  per-call         :", b)
        for key, what, _ in judge(ops, a, b):
            ctx.finding(key, "C21 fails on the real code (replay): " + what, dict(kind="replay", source=path))
    ctx.prove()


def _retuple(o):
    o = list(o)
    if o[0] == "state":
        so = list(o[2])
        if so[0] == "get":
            so[2] = tuple(so[2]) if so[2] is not None else None
        if so[0] in ("edit", "snap_edit"):
            so[1] = [tuple(e) for e in so[1]]
        o[2] = tuple(so)
    return tuple(o)
