"""C29 — Stream merge and sorted-prefix utilities preserve items and order."""
import json
import random

from suites import iterutils as U

THEOREMS = ("C29_merge_preserves_each_inputs_order / C29_merge_every_item_exactly_once / "
            "C29_merge_reraises_input_error / C29_sorted_prefix")


def run(ctx):
    ctx.rule = ("merge: 1-4 gated sources with 0-4 items each, normal end or error, both modes, eager or gated "
                "consumer; the driver releases 1..all sources in the same loop iteration (simultaneous completions, "
                "set order varied by junk allocations); the observed schedule (source completions, every `done` set "
                "of asyncio.wait in its iteration order, consumer requests) is replayed through the model and the "
                "generator frame + yielded list compared after every driver action. sorted prefix: 0-6 timed items "
                "under virtual time with delays biased to land exactly at / next to the end of the debounce window and "
                "of the max window, keys with ties; each boundary case repeated under several allocation patterns. "
                "distinct key = (sources or items/keys/delays, mode, observed schedule)")
    ctx.prove()
    rng = random.Random(ctx.seed)
    exprs, meta = [], []
    failures = []

    # ---- merge_generators ----
    n_merge = ctx.n(260, 5000)
    st = dict(batches=0, multi=0, err_seen=0, err_sources=0, multi_release=0, stop_mode=0, slow=0, both_orders=0)
    orders_seen = {}
    for i in range(n_merge):
        srcs = U.gen_srcs(rng)
        stop = rng.random() < 0.25
        slow = rng.random() < 0.4
        segs, out, raised, fin, mon, stats = U.run_merge(rng, srcs, stop, slow)
        for k in ("batches", "multi", "err_seen"):
            st[k] += stats[k]
        st["stop_mode"] += stop
        st["slow"] += slow
        st["err_sources"] += 1 if any(e >= 0 for _, e in srcs) else 0
        st["multi_release"] += 1 if len(srcs) > 1 else 0
        sched = [c for cs, _ in segs for c in cs]
        for c in sched:
            if c[0] == 1 and len(c) == 3:
                orders_seen.setdefault(tuple(sorted(c[1:])), set()).add(tuple(c[1:]))
        exprs.append(U.merge_expr(srcs, stop, segs))
        m = dict(suite="iterutils", fn="merge_generators", sources=srcs, stop_on_first_completion=stop,
                 gated_consumer=slow, schedule=sched, yielded=out, raised=raised)
        meta.append(m)
        ctx.count(len(sched), ("merge", str(srcs), stop, slow, str(sched)))
        if i < 3:
            ctx.sample(m)
        for clause, text in mon:
            failures.append((clause, text, dict(kind="implementation-monitor", **m)))
    st["both_orders"] = sum(1 for v in orders_seen.values() if len(v) > 1)

    # ---- debounced_sorted_prefix ----
    n_dsp = ctx.n(300, 6000)
    reps = ctx.n(3, 8)
    ds = dict(cases=0, runs=0, boundary_items=0, late_item_cases=0, unsorted_burst_cases=0, nonempty_later=0,
              sorted_bursts=0, distinct_outputs_same_case=0)
    for i in range(n_dsp):
        items, keys, delays, deb, mw = U.gen_dsp(rng)
        ds["cases"] += 1
        ds["boundary_items"] += sum(1 for d in delays if d in (deb, mw))
        ds["late_item_cases"] += 1 if any(d >= deb for d in delays[1:len(items)]) else 0
        ks = [keys[v] for v in items]
        ds["unsorted_burst_cases"] += 1 if ks[:2] != sorted(ks[:2]) and delays[1:2] == [0.0] else 0
        outs = set()
        for r in range(reps):
            junk = rng.randrange(400)
            sched, out, fin = U.run_dsp(rng, items, keys, delays, deb, mw, junk_n=junk)
            ds["runs"] += 1
            outs.add(tuple(out))
            exprs.append(U.dsp_expr(items, keys, sched, out, fin))
            m = dict(suite="iterutils", fn="debounced_sorted_prefix", items=items, keys=[keys[v] for v in items],
                     delays=delays, debounce_seconds=deb, max_window_seconds=mw, junk_objects=junk,
                     schedule=sched, yielded=out, finished=fin)
            meta.append(m)
            ctx.count(len(sched), ("dsp", tuple(items), tuple(m["keys"]), tuple(delays), deb, mw, str(sched)))
            if i < 2 and r == 0:
                ctx.sample(m)
            bad = U.dsp_monitor(items, keys, out, delays, deb, mw) if fin else ("dsp-hang", "the stream did not end")
            if bad:
                failures.append((bad[0], bad[1], dict(kind="implementation-monitor", **m)))
            if out != items and out != sorted(items, key=lambda v: keys[v]):
                ds["nonempty_later"] += 1
            if out != items:
                ds["sorted_bursts"] += 1
        if len(outs) > 1:
            ds["distinct_outputs_same_case"] += 1
    ctx.programs += n_merge + ds["runs"]

    res = ctx.run_cases("iterutils", U.HEADER, exprs, shard=150)
    bad = [i for i, z in enumerate(res) if z != 0]
    ctx.suite("iterutils", merge_cases=n_merge, disagreements=len(bad), simultaneous_pairs_seen_in_both_orders=st["both_orders"],
              **{k: int(v) for k, v in st.items() if k != "both_orders"})
    ctx.suite("iterutils.sorted_prefix", **ds)
    ctx.suite("iterutils.monitor", failures=len(failures))
    ctx.disagreements += len(bad)
    ctx.disagreements_checked = len(bad)

    # ---- an input that dies with CancelledError of its own (the consumer is not being cancelled)
    rngc = random.Random(ctx.seed * 61 + 9)
    ncan, raised_ok = ctx.n(40, 600), 0
    for _ in range(ncan):
        w, facts = U.merge_cancelled_input_case(rngc)
        ctx.count(1, ("merge-cancelled-input", facts["inputs"], tuple(facts["lengths"]), facts["victim"], facts["dies_after"]))
        raised_ok += 0 if w else 1
        if w:
            failures.append(("merge-cancelled-input", w, dict(kind="implementation-monitor", input=facts)))
    ctx.suite("iterutils.cancelled_input", cases=ncan, error_reached_the_consumer=raised_ok)

    seen = set()
    for clause, text, rep in failures:
        if clause in seen:
            continue
        seen.add(clause)
        ctx.finding("C29/" + clause, "C29 fails on the real iter_utils (%s): %s" % (clause, text), rep)
    if bad and not failures:
        ctx.violation("model/implementation disagreement in suite iterutils (no property-level failing input found)",
                      dict(suite="iterutils", theorem=THEOREMS, first_differing_observation=res[bad[0]],
                           cases=[meta[i] for i in bad[:3]], coq_exprs=[exprs[i][:1500] for i in bad[:2]],
                           n_disagreements=len(bad)),
                      found_input=False)
    elif bad:
        ctx.notes.append("%d model/implementation disagreements accompany the monitor failures" % len(bad))
    # generators fail closed — measured on the generated inputs, never on what the implementation did with them
    ctx.require_coverage("iterutils", "multi_release", st["multi_release"], 30)
    ctx.require_coverage("iterutils", "err_sources", st["err_sources"], 10)
    ctx.require_coverage("iterutils", "stop_mode", int(st["stop_mode"]), 20)
    ctx.require_coverage("iterutils.sorted_prefix", "boundary_items", ds["boundary_items"], 100)
    ctx.require_coverage("iterutils.sorted_prefix", "late_item_cases", ds["late_item_cases"], 30)
    ctx.require_coverage("iterutils.sorted_prefix", "unsorted_burst_cases", ds["unsorted_burst_cases"], 10)
    if not failures and not bad:
        ctx.require_coverage("iterutils", "multi", st["multi"], 30)
        ctx.require_coverage("iterutils", "both_orders", st["both_orders"], 1)
    ctx.partial.append("termination of merge_generators under a fair scheduler is exercised (monitor merge-hang / "
                       "dsp-hang on every run), not proved; the Debouncer's timing arithmetic is abstracted: the theorem "
                       "quantifies over every position of \"__COMPLETE__\" in the schedule")
    ctx.trusted.append("asyncio.wait(FIRST_COMPLETED) returns the set of all tasks finished by the time the waiter resumes; "
                       "Python's list.sort is a stable sort (modelled by a stable insertion sort)")
    ctx.assumptions.append("no input item equals the string \"__COMPLETE__\"; the consumer iterates to the end "
                           "(early aclose of the merged generator is not modelled)")


def replay(ctx, path):
    d = json.load(open(path))
    print(json.dumps(d, indent=1)[:3000])
    if d.get("fn") == "debounced_sorted_prefix":
        items = d["items"]
        keys = dict(zip(items, d["keys"]))
        for junk in [d.get("junk_objects", 0)] + list(range(0, 400, 37)):
            sched, out, fin = U.run_dsp(random.Random(0), items, keys, d["delays"], d["debounce_seconds"],
                                        d["max_window_seconds"], junk_n=junk)
            bad = U.dsp_monitor(items, keys, out, d["delays"], d["debounce_seconds"], d["max_window_seconds"]) if fin else ("dsp-hang", "the stream did not end")
            if bad:
                print("re-executed (junk=%d): yielded %s -> %s" % (junk, out, bad[1]))
                ctx.finding("C29/" + bad[0], "C29 fails on the real iter_utils (%s): %s" % bad,
                            dict(kind="implementation-monitor/replay", items=items, keys=d["keys"], delays=d["delays"],
                                 debounce_seconds=d["debounce_seconds"], max_window_seconds=d["max_window_seconds"],
                                 junk_objects=junk, yielded=out))
                break
        ctx.prove()
    else:
        run(ctx)
