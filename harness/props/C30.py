"""C30 — A workflow instance never runs more concurrent runs than its limit."""
import json
import random

from suites import runlimit as RL

THEOREMS = "C30_at_most_n_runs_execute, C30_permits_conserved, C30_fifo_progress, C30_no_lost_wakeup (Model/RunLimit.v)"


def _jsonable(x):
    if isinstance(x, (list, tuple)):
        return [_jsonable(y) for y in x]
    if isinstance(x, dict):
        return {str(k): _jsonable(v) for k, v in x.items()}
    return x


def run(ctx):
    ctx.rule = ("suite sem: online-generated start/release/cancel/yield scripts on one real asyncio.Semaphore(0..3) "
                "with up to 10 tasks; suite runs: 1-3 real Workflow instances (two of one class) with "
                "num_concurrent_runs in {1,2,3,4,None}, up to 14 overlapping runs, endings by result / step failure / "
                "cancel_run / hard cancel / timeout, driver ops open-gate / tick / settle / advance; suite replacement: 8-16 "
                "instances of limit 1..4 run and are dropped, a new instance with another limit is allocated at the "
                "address (id) of a dropped one and given limit+1..2 overlapping runs; distinct key = "
                "(instance configuration, sequence of model action kinds of the recorded schedule)")
    ctx.prove()
    ctx.trusted.append("asyncio.Semaphore / Task.cancel / event-loop FIFO scheduling of CPython 3.12: transcribed in "
                       "Model/RunLimit.v and compared with the real class on every run (suite runlimit.sem)")
    ctx.trusted.append("suite runlimit.runs replaces asyncio.Semaphore in the asyncio namespace by a subclass that only "
                       "logs around the inherited acquire()/release(); run ids are read from the runtime's contextvar")
    rng = random.Random(ctx.seed)

    # ---- part A: the primitive ------------------------------------------------------------------
    nA = ctx.n(300, 3000)
    exprs, metas, tot = [], [], {}
    for i in range(nA):
        e, m, key, stats = RL.sem_case(rng)
        exprs.append(e)
        metas.append(m)
        ctx.count(1, key)
        for k, v in stats.items():
            tot[k] = tot.get(k, 0) + v
        if i < 2:
            ctx.sample(_jsonable(dict(suite="runlimit.sem", script=m["script"])))
    resA = ctx.run_cases("runlimit_sem", RL.HEADER, exprs, shard=100)
    badA = [i for i, z in enumerate(resA) if z != 0]
    ctx.suite("runlimit.sem", cases=nA, disagreements=len(badA), **tot)
    cover = [("runlimit.sem", c, tot.get(c, 0), 3)
             for c in ("blocked", "woken_cancelled", "pending_cancelled", "queued_with_free_permit", "fast")]
    ctx.disagreements += len(badA)

    # ---- part B: real workflows -------------------------------------------------------------------
    nB = ctx.n(260, 2500)
    exprs, metas, tot = [], [], {}
    findings = []          # (key, msg, detail, spec)
    nind = 0
    for i in range(nB):
        e, m, key, stats, mon, obs = RL.run_case(rng, big=(ctx.tier == "thorough" and i % 3 == 0))
        exprs.append(e)
        metas.append(m)
        ctx.count(1, key)
        for k, v in stats.items():
            tot[k] = tot.get(k, 0) + v
        if len(m["spec"]["instances"]) > 1 and i % 4 == 0:
            mon = mon + RL.independence_monitor(m["spec"], obs)
            nind += 1
        for k, msg, d in mon:
            findings.append((k, msg, d, m["spec"]))
        if i < 3:
            ctx.sample(_jsonable(dict(suite="runlimit.runs", instances=m["spec"]["instances"],
                                      ops=m["spec"]["ops"][:12], results=m["results"])))
    resB = ctx.run_cases("runlimit_runs", RL.HEADER, exprs, shard=65)
    badB = [i for i, z in enumerate(resB) if z != 0]
    ctx.suite("runlimit.runs", cases=nB, disagreements=len(badB), independence_reruns=nind,
              monitor_failures=len(findings), **tot)
    cover += [("runlimit.runs", c, tot.get(c, 0), 2)
              for c in ("blocked", "handoff", "acq_cancelled", "releases", "gc_absent", "gc_present", "unlimited_runs",
                        "at_limit")]
    cover.append(("runlimit.runs", "independence_reruns", nind, 5))
    ctx.disagreements += len(badB)
    ctx.disagreements_checked = len(badA) + len(badB)

    # ---- part C: a new instance at the address of a dropped one --------------------------------------
    nC = ctx.n(60, 600)
    reused = 0
    for i in range(nC):
        out, facts = RL.replacement_case(rng)
        reused += 1 if facts["reused"] else 0
        ctx.count(1, ("replacement", facts["spec"]["old_limit"], facts["spec"]["new_limit"], facts["spec"]["runs"], facts["reused"]))
        if i < 2:
            ctx.sample(_jsonable(dict(suite="runlimit.replacement", **facts)))
        for k, msg, d in out:
            findings.append((k, msg, d, dict(instances=[], ops=[], replacement=d)))
    ctx.programs += nC
    ctx.suite("runlimit.replacement", cases=nC, address_reused=reused)
    cover.append(("runlimit.replacement", "address_reused", reused, 10))

    # ---- a run snapshotted mid-step and resumed while fresh runs hold every slot
    nD, full = ctx.n(24, 300), 0
    for i in range(nD):
        out, facts = RL.resume_case(rng)
        full += 1 if facts["peak_after_resume"] >= facts["spec"]["limit"] else 0
        ctx.count(1, ("resume", facts["spec"]["limit"], facts["spec"]["fresh_runs"], facts["peak_after_resume"], facts["finished"]))
        for k, msg, d in out:
            findings.append((k, msg, d, dict(instances=[], ops=[], resume=d)))
    ctx.programs += nD
    ctx.suite("runlimit.resume", cases=nD, all_slots_busy_when_resumed=full)
    cover.append(("runlimit.resume", "all_slots_busy_when_resumed", full, 5))

    # ---- verdicts ---------------------------------------------------------------------------------
    seen = set()
    findings.sort(key=lambda f: len(f[3]["ops"]))
    for k, msg, d, spec in findings:
        if k in seen:
            continue
        seen.add(k)
        ctx.finding(k, "C30 fails on the implementation: %s" % msg,
                    dict(kind="implementation-monitor", suite="runlimit.runs", spec=_jsonable(spec), detail=_jsonable(d),
                         replay_hint="bin/check C30 --replay <this file> re-executes the driver script on the real engine"))
    if (badA or badB) and not findings:
        cases = []
        for i in sorted(badB, key=lambda i: len(metas[i]["spec"]["ops"]))[:2]:
            cases.append(dict(first_differing_segment=resB[i], spec=_jsonable(metas[i]["spec"]),
                              trace=_jsonable(metas[i]["trace"][:max(resB[i], 0) + 1])))
        ctx.violation("model/implementation disagreement in suite runlimit (no property-level failing input found)",
                      dict(suite="runlimit", theorem=THEOREMS, sem_cases=len(badA), run_cases=len(badB),
                           cases=cases), found_input=False)
    elif badA or badB:
        ctx.notes.append("%d model/implementation disagreements accompany the monitor failures" % (len(badA) + len(badB)))
    # generators fail closed — but a degenerate distribution caused by a broken implementation must not
    # hide the violation found above
    for suite, c, v, need in cover:
        if ctx.violations:
            if v < need:
                ctx.notes.append("coverage counter %s.%s = %d < %d" % (suite, c, v, need))
        else:
            ctx.require_coverage(suite, c, v, need)


def replay(ctx, path):
    body = json.load(open(path))
    print(json.dumps({k: body[k] for k in body if k not in ("spec",)}, indent=1)[:3000])
    spec = body.get("spec")
    if not spec or spec.get("replacement"):
        return run(ctx)
    spec["ops"] = [tuple(tuple(x) if isinstance(x, list) else x for x in op) for op in spec["ops"]]
    rng = random.Random(ctx.seed)
    e, m, key, stats, mon, obs = RL.run_case(rng, spec=spec)
    mon = mon + (RL.independence_monitor(spec, obs) if len(spec["instances"]) > 1 else [])
    for l in obs["log"]:
        if l[0] != "dict":
            print("   ", l)
    ctx.prove()
    ctx.count(1, key)
    ctx.suite("runlimit.replay", monitor_failures=len(mon))
    for k, msg, d in mon[:3]:
        ctx.finding(k, "C30 fails on the implementation: %s" % msg,
                    dict(kind="implementation-monitor", suite="runlimit.runs", spec=_jsonable(spec), detail=_jsonable(d)))
