"""C04 — Every run ends once, and its stream ends with the matching terminal event."""
from props._engine_common import run_l1, run_l2, report_l2
import random

from suites import engine as E, engine_specs as S
from workflows.errors import WorkflowCancelledByUser, WorkflowTimeoutError
from workflows.events import (StopEvent, WorkflowCancelledEvent, WorkflowFailedEvent, WorkflowTimedOutEvent)
from workflows.runtime.types.commands import (CommandCompleteRun, CommandFailWorkflow, CommandHalt,
                                              CommandPublishEvent)

THEOREMS = "C04_terminal_event_immediately_before_exit / C04_raising_policy_is_a_normal_failure"
K_CANCEL_PUBLISH = "C04/publish-from-cancelled-step-after-terminal-event"


def terminal_kind(ev):
    if isinstance(ev, WorkflowFailedEvent):
        return "failed"
    if isinstance(ev, WorkflowCancelledEvent):
        return "cancelled"
    if isinstance(ev, WorkflowTimedOutEvent):
        return "timedout"
    if isinstance(ev, StopEvent):
        return "result"
    return None


def l1_monitor(rec):
    """a terminal event is published exactly when, and immediately before, the exit command of the same kind"""
    if rec[0] != "tick":
        return []
    _, before, t, after, cmds, now = rec
    out = []
    pend = None
    from workflows.runtime.types.ticks import TickPublishEvent
    hand_published = isinstance(t, TickPublishEvent) and isinstance(t.event, StopEvent)
    for c in cmds:
        if pend is not None:
            ok = (pend == "result" and isinstance(c, CommandCompleteRun)) or \
                 (pend == "failed" and isinstance(c, CommandFailWorkflow)) or \
                 (pend in ("cancelled", "timedout") and isinstance(c, CommandHalt))
            if not ok and not hand_published:
                out.append("terminal event (%s) is not immediately followed by the matching exit command but by %s" % (pend, type(c).__name__))
            pend = None
            continue
        if isinstance(c, CommandPublishEvent):
            pend = terminal_kind(c.event)
        elif isinstance(c, (CommandCompleteRun, CommandFailWorkflow, CommandHalt)):
            if not (isinstance(c, CommandCompleteRun) and type(c.result).__name__ == "IdleReleasedEvent"):
                out.append("%s without a terminal event published just before it" % type(c).__name__)
    if pend is not None and not hand_published:
        out.append("terminal event (%s) published without an exit command" % pend)
    return out


def l2_monitor(spec, rec, obs):
    out = []
    mode = spec.get("mode", "other")
    terms = [(i, terminal_kind(e)) for i, e in enumerate(obs.stream) if not isinstance(e, tuple) and terminal_kind(e)]
    if obs.done:
        if obs.exception is None:
            kind = "result"
        elif isinstance(obs.exception, WorkflowTimeoutError):
            kind = "timedout"
        elif isinstance(obs.exception, WorkflowCancelledByUser):
            kind = "cancelled"
        else:
            kind = "failed"
        if not obs.stream_ended:
            out.append("the run ended (%s: %r) but stream_events() never terminated" % (kind, obs.exception))
        if len(terms) != 1:
            out.append("the run ended (%s) with %d terminal events on the stream: %s" % (kind, len(terms), terms))
        else:
            i, tk = terms[0]
            if tk != kind:
                out.append("the run ended as %s (%r) but the stream's terminal event is %s" % (kind, obs.exception, tk))
            if i != len(obs.stream) - 1:
                out.append("events on the stream after the terminal event: %s" % [type(e).__name__ for e in obs.stream[i + 1:]])
        if obs.leftover:
            late = [type(e).__name__ for e in obs.leftover]
            from_cancel = any(r["kind"] == "publish" and r.get("on_cancel") for r in rec.log)
            # (known for runs ended by cancel_run / timeout / failure, whose cleanup runs after the terminal event was
            # published; a StopEvent result cancels and awaits the sibling bodies BEFORE it is published)
            if from_cancel and all(n == "U6" for n in late) and kind != "result":
                out.append("%s: %s published after the terminal event by a step body that was being cancelled by the exit cleanup"
                           % (K_CANCEL_PUBLISH, late))
            else:
                out.append("published after the terminal event: %s" % late)
    elif terms:
        out.append("a terminal event %s is on the stream but the run has no outcome" % terms)
    return out, {"mode_" + mode: 1, "runs_ended": 1 if obs.done else 0,
                 "late_publishes": 1 if obs.leftover else 0}


async def _late_consumer(seed):
    """a run that publishes a burst of N stream events and ends (result or failure) while nobody reads the stream; the
    consumer attaches only afterwards and must still get every event, the terminal event last, and the end of stream"""
    import asyncio
    import vloop
    from suites.wfevents import U6
    from workflows.events import StartEvent, StopEvent
    rng = random.Random(seed)
    n = rng.choice([50, 2100, 2600, 3000])
    fail = rng.random() < 0.4
    spec = dict(steps={"a_start": dict(accepts=[StartEvent], returns=[StopEvent], num_workers=1,
                                       script=[("publish_many", U6, n)] + ([("raise", "value", "boom")] if fail else [("return", StopEvent)]))})
    rec = E.Recorder()
    wf = E.build_workflow(spec, rec)
    handler = wf.run()
    exc = None
    try:
        await handler
    except BaseException as ex:  # noqa: BLE001
        exc = ex
    await vloop.settle()
    got, ended = [], False

    async def consume():
        async for ev in handler.stream_events(expose_internal=True):
            got.append(ev)
    t = asyncio.ensure_future(consume())
    for _ in range(50):
        await vloop.settle()
        if t.done():
            break
    ended = t.done()
    if not ended:
        t.cancel()
        await asyncio.gather(t, return_exceptions=True)
    return dict(n=n, fail=fail, exc=exc, got=got, ended=ended)


async def _resubmit(seed):
    """a run with an explicit run_id finishes without its stream being read (the caller only awaits the result, the handler
    stays referenced); the SAME id is then submitted again.  Either the second submission is refused, or it is a run of
    its own: its stream holds its own events only and ends with the terminal event matching ITS outcome."""
    import asyncio
    from workflows import Context, Workflow, step
    from workflows.events import Event, StartEvent
    rng = random.Random(seed)
    n1, n2 = rng.randint(0, 3), rng.randint(0, 3)
    second_fails = rng.random() < 0.5

    class Note(Event):
        tag: int
        k: int

    class W(Workflow):
        @step
        async def start(self, ctx: Context, ev: StartEvent) -> StopEvent:
            for k in range(ev.n):
                ctx.write_event_to_stream(Note(tag=ev.tag, k=k))
            if ev.boom:
                raise ValueError("boom %d" % ev.tag)
            return StopEvent(result=ev.tag)

    wf = W(timeout=None)
    h1 = wf.run(run_id="rid-%d" % seed, tag=1, n=n1, boom=False)
    r1 = await asyncio.wait_for(h1, 5)
    out = dict(seed=seed, first_result=r1, notes_first=n1, notes_second=n2, second_fails=second_fails)
    try:
        h2 = wf.run(run_id="rid-%d" % seed, tag=2, n=n2, boom=second_fails)
    except Exception as ex:  # noqa: BLE001
        out["refused"] = repr(ex)[:120]
        return out, []
    stream = []

    async def consume():
        async for e in h2.stream_events():
            stream.append(e)
    why = []
    try:
        await asyncio.wait_for(consume(), 5)
    except asyncio.TimeoutError:
        why.append("the stream of the re-submitted run never terminated")
    res2, exc2 = None, None
    try:
        res2 = await asyncio.wait_for(h2, 5)
    except Exception as ex:  # noqa: BLE001
        exc2 = ex
    out.update(stream=[type(e).__name__ + (":%d" % e.tag if hasattr(e, "tag") else "") for e in stream],
               second_outcome=("result %r" % (res2,)) if exc2 is None else ("raised %r" % (exc2,)))
    foreign = [e for e in stream if getattr(e, "tag", 2) != 2 or (isinstance(e, StopEvent) and getattr(e, "result", 2) != 2)]
    if foreign:
        why.append("the stream of the re-submitted run holds events of the EARLIER run under that id: %s" % out["stream"])
    term = [e for e in stream if isinstance(e, (StopEvent, WorkflowFailedEvent, WorkflowCancelledEvent, WorkflowTimedOutEvent))]
    want = WorkflowFailedEvent if exc2 is not None else StopEvent
    if not why and (len(term) != 1 or not isinstance(stream[-1], want)):
        why.append("the re-submitted run ended with %s but its stream is %s" % (out["second_outcome"], out["stream"]))
    return out, why


def run(ctx):
    ctx.rule = ("L1: random reachable reducer histories, terminal-event/exit-command pairing on every real transition; L2: "
                "generated workflows ending in every way (result, step failure with/without retries, raising retry policy, "
                "raising retry predicate, non-event return, racing StopEvents (also with siblings that publish while "
                "being cancelled), cancel_run at a random moment, workflow timeout, body publishing while cancelled) on the real engine under virtual time; the full stream, the "
                "handler outcome and the publish queue after the end are checked; runs that publish a burst of 50-3000 events and "
                "end before any consumer attaches; distinct key = history index / run facts")
    ctx.prove()
    run_l1(ctx, ctx.n(100, 4000), l1_monitor, THEOREMS, need=("complete_run", "fail_workflow", "tick_TickCancelRun", "tick_TickTimeout"))
    modes = ["result", "step_fail", "policy_raises", "pred_raises", "other_return", "stop_race", "cancel", "timeout",
             "finally_publish", "user_policy_object", "stop_race_publish", "uncopyable_payload", "stop_race_slow_unwind"]
    fails, facts = run_l2(ctx, [S.exits, S.exits, S.exits, S.failflow, S.fanout, S.lockflow], ctx.n(270, 5000), l2_monitor,
                          need=tuple(("mode_" + m, 3) for m in modes) + (("runs_ended", 100),))
    known = [f for f in fails if f["why"].startswith(K_CANCEL_PUBLISH)]
    other = [f for f in fails if not f["why"].startswith(K_CANCEL_PUBLISH)]
    if known:
        ctx.finding(K_CANCEL_PUBLISH, known[0]["why"], dict(kind="implementation-monitor/L2", input=known[0], occurrences=len(known)))
    report_l2(ctx, other)
    # ---- the same run id submitted again after the first run finished unread
    import vloop
    rfails, refused = [], 0
    rng2 = random.Random(ctx.seed * 53 + 1)
    for _ in range(ctx.n(12, 200)):
        sd = rng2.randrange(1 << 30)
        o, why = vloop.run(_resubmit(sd))
        refused += 1 if "refused" in o else 0
        ctx.count(1, ("resubmit", o.get("notes_first"), o.get("notes_second"), o.get("second_fails"), "refused" in o))
        for w in why:
            rfails.append(dict(why=w, case=o))
    ctx.suite("resubmit_same_run_id", cases=ctx.n(12, 200), refused=refused, failures=len(rfails))
    for f in rfails[:2]:
        ctx.violation("C04 fails on the real engine: %s" % f["why"], dict(kind="implementation-monitor/L2", input=f["case"],
                      replay_hint="props.C04._resubmit(seed)"))
    # late consumers of runs that published a burst of events
    import vloop
    from suites.wfevents import U6
    rng2 = random.Random(ctx.seed * 67 + 3)
    nl, big = ctx.n(8, 40), 0
    for i in range(nl):
        seed = rng2.randrange(1 << 30)
        r = vloop.run(_late_consumer(seed))
        big += 1 if r["n"] > 2048 else 0
        ctx.count(1, ("late-consumer", r["n"], r["fail"]))
        want = "failed" if r["fail"] else "result"
        terms = [(k, terminal_kind(e)) for k, e in enumerate(r["got"]) if terminal_kind(e)]
        nu6 = sum(1 for e in r["got"] if isinstance(e, U6))
        why = None
        if not r["ended"]:
            why = "stream_events() of a finished run (%s) never terminated for a consumer that attached after the end; it had delivered %d events, terminal events %s" % (want, len(r["got"]), terms)
        elif len(terms) != 1 or terms[0][1] != want or terms[0][0] != len(r["got"]) - 1:
            why = "a consumer that attached after the end of the run (%s) got terminal events %s among %d events" % (want, terms, len(r["got"]))
        elif nu6 != r["n"]:
            why = "a consumer that attached after the end got %d of the %d events published before the terminal event" % (nu6, r["n"])
        if why:
            ctx.violation("C04 fails on the real engine: %s" % why,
                          dict(kind="implementation-monitor/L2", input=dict(template="burst of %d published events, late consumer" % r["n"], seed=seed, fails=r["fail"])))
    ctx.programs += nl
    ctx.suite("engine.late_consumer", runs=nl, bursts_over_2048=big)
    ctx.require_coverage("engine.late_consumer", "bursts_over_2048", big, 2)
    from props._engine_common import run_runnerdiff
    run_runnerdiff(ctx, ctx.n(60, 1500), 'C04_run_loop_stream_ends_with_the_matching_terminal_event / C04_exit_freezes_the_run / C04_nothing_published_after_exit',
                   need_outcomes=(1, 2, 3, 4))


def replay(ctx, path):
    import json
    print(json.dumps(json.load(open(path)), indent=1)[:4000])
    run(ctx)
