"""C26 — Idle release and resume never lose an event or double-run a workflow."""
import os
import random

from props._idle_common import run_inprocess

THEOREMS = ("C26_one_loop / C26_reload_lock_exclusive / C26_one_owner / C26_release_only_quiescent / "
            "C26_events_conserved / C26_no_event_lost_partial")
LC_THEOREMS = "C26_dbos_one_owner / C26_dbos_live_releaser_not_preempted / C26_dbos_takeover_only_after_timeout"


def run(ctx):
    ctx.rule = ("in-process: fixed witness scenarios + generated scenarios on the real runtime chain under virtual time "
                "(concurrent senders, sends at the release instant, self-sent events, retries, waits, crashes + restarts, "
                "suspending store), each recorded as an M-IdleRelease action sequence (lock acquisitions, sender / releaser "
                "/ server-start steps, engine ticks) and replayed in the model; DBOS: generated operation sequences "
                "(3 runs x 3 lock objects, concurrent batches, crash-timeout boundaries 119/120/121 s) on the real "
                "SqliteRunLifecycleLock vs M-Lifecycle; distinct key = scenario signature / (op kinds, results)")
    ctx.prove()
    run_inprocess(ctx, "C26", ctx.n(66, 2500), THEOREMS,
                  need=(("reloads_by_startup", 1), ("startup_races", 1), ("self_sent", 5)))

    # ---- the reload lock itself: the in-process suite above substitutes a recording lock for IdleReleaseDecorator's
    # KeyedLock (its mutual exclusion per key is the subject of C25 and an assumption of M-IdleRelease); the
    # implementation-side monitors of C25 are therefore evaluated here too, on the real KeyedLock
    from suites import keyedlock as KL
    rngk = random.Random(ctx.seed * 13 + 5)
    nk, kfails = ctx.n(120, 1500), []
    for i in range(nk):
        keys = KL.gen_keys(rngk)
        segs, mon, sched, stats = KL.random_schedule(rngk, keys)
        ctx.count(1, ("keyedlock-forced", tuple(keys), tuple(sched)))
        for clause, text in mon:
            kfails.append((clause, text, dict(mode="forced", keys=keys, schedule_codes=sched)))
    for i in range(ctx.n(60, 600)):
        seed = rngk.randrange(1 << 30)
        mon, facts = KL.loop_run(random.Random(seed))
        ctx.count(1, ("keyedlock-loop", seed % 1000))
        for clause, text in mon:
            kfails.append((clause, text, dict(mode="looping-workers", seed=seed, keys=facts["keys"], plan=facts["plan"])))
    ctx.suite("reload_lock.keyedlock_monitor", forced=nk, failures=len(kfails))
    for clause, text, rep in kfails[:2]:
        ctx.violation("C26 fails on the real KeyedLock used as the reload lock (%s): %s - two senders can both reload the run" % (clause, text),
                      dict(kind="implementation-monitor", suite="keyedlock", input=rep))

    # ---- DBOS lifecycle lock: real SqliteRunLifecycleLock vs M-Lifecycle
    from suites import lifecycle as L
    rng = random.Random(ctx.seed * 17 + 3)
    d = os.path.join(ctx.scratch, "lc")
    os.makedirs(d, exist_ok=True)
    n = ctx.n(60, 3000)
    exprs, metas, fails = [], [], []
    cov = dict(release_wins=0, resume_wins=0, takeovers=0, refused_takeovers=0, concurrent_batches=0, no_row_release=0)
    for k in range(n):
        ops = L.gen_ops(rng, rng.randint(4, 30), rng.choice([0.0, 0.08, 0.2]))
        conc = (k % 3 == 0)
        trace, results = L.run_ops(os.path.join(d, "l%d.db" % (k % 16)), ops, concurrent=conc)
        exprs.append("lconform %s [%s]" % (L.coq_ops(ops), "; ".join(str(x) for x in trace)))
        metas.append(dict(ops=ops, concurrent=conc))
        cov["concurrent_batches"] += 1 if conc else 0
        seen_row = set()
        for (op, r) in results:
            if op[3] == "create":
                seen_row.add(op[2])
            if op[3] == "begin" and r:
                cov["release_wins"] += 1
            if op[3] == "begin" and not r and op[2] not in seen_row:
                cov["no_row_release"] += 1
            if op[3] == "resume" and r == L.RunLifecycleState.released:
                cov["resume_wins"] += 1
        m2 = L.monitor_crash_timeout(results)
        for w in L.monitor_one_owner(results) + m2:
            fails.append(dict(why=w, ops=ops, concurrent=conc))
        ctx.count(len(ops), ("lifecycle", tuple(o[3] for o in ops), tuple(L.enc_res(o[3], r) for (o, r) in results)))
        if k < 2:
            ctx.sample(dict(kind="lifecycle-ops", ops=ops[:6], results=[L.enc_res(o[3], r) for (o, r) in results][:6]), limit=8)
        # crash-timeout boundary coverage
        now, began = 0, {}
        for (op, r) in results:
            now += op[0]
            if op[3] == "begin" and r:
                began[op[2]] = now
            if op[3] == "resume" and op[2] in began and op[4] is not None:
                if r == L.RunLifecycleState.released and now - began[op[2]] > op[4]:
                    cov["takeovers"] += 1
                if r == L.RunLifecycleState.releasing:
                    cov["refused_takeovers"] += 1
            if op[3] in ("complete", "create") or (op[3] == "resume" and r == L.RunLifecycleState.released):
                began.pop(op[2], None)
    res = ctx.run_cases("lifecycle", L.HEADER, exprs, shard=60)
    bad = [i for i, z in enumerate(res) if z != 0]
    ctx.programs += n
    ctx.disagreements += len(bad)
    ctx.disagreements_checked += len(bad)
    ctx.suite("lifecycle", sequences=n, disagreements=len(bad), monitor_failures=len(fails), **cov)
    for k in ("release_wins", "resume_wins", "takeovers", "refused_takeovers", "no_row_release"):
        ctx.require_coverage("lifecycle", k, cov[k], 3)
    for f in fails[:3]:
        ctx.violation("C26 fails on the real SqliteRunLifecycleLock: %s" % f["why"],
                      dict(kind="implementation-monitor/lifecycle", input=f,
                           replay_hint="suites.lifecycle.run_ops(path, ops, concurrent) replays the operations "
                                       "(dt seconds before op, lock object, run, kind, crash_timeout)"))
    if bad and not fails:
        ctx.violation("model/implementation disagreement in suite lifecycle (no property-level failing input found)",
                      dict(suite="lifecycle", theorem="%s (Model/Lifecycle.v no longer matches journal/lifecycle.py)" % LC_THEOREMS,
                           sequences_disagreeing=len(bad), case=metas[bad[0]], coq_expr=exprs[bad[0]][:3000]),
                      found_input=False)
    # ---- DBOS decorator: idle periods re-armed from inside (waiter timeout), then work arriving from outside
    rngd = random.Random(ctx.seed * 23 + 11)
    nre, rfails, busy_at_old_timer = ctx.n(8, 120), [], 0
    for k in range(nre):
        tau = rngd.choice([0.5, 1.0, 2.0])
        T = tau * rngd.choice([0.25, 0.5, 0.75])
        send_after = rngd.choice([0.0, 0.125, 0.25, tau / 2])
        dur = tau * rngd.choice([0.5, 2.0, 3.0])
        o = L.drive_decorator_rearm(os.path.join(d, "r%d.db" % (k % 4)), tau, T, send_after, dur, tau + 1.0)
        ctx.count(1, ("dbos-rearm", tau, T, send_after, dur, len(o["attempts"]), tuple(k for k, _ in o["bodies"])))
        ctx.programs += 1
        if len(o["idle_marks"]) >= 2 and send_after < tau and dur > tau:
            busy_at_old_timer += 1      # the job is still running when the timers of the first two idle marks would be due
        for w in L.monitor_rearm(o, tau, dur):
            rfails.append(dict(why=w, idle_timeout=tau, wait_timeout=T, send_after=send_after, dur=dur, observed=o))
    ctx.suite("dbos-decorator-rearm", runs=nre, busy_when_earlier_timers_due=busy_at_old_timer, failures=len(rfails))
    ctx.require_coverage("dbos-decorator-rearm", "busy_when_earlier_timers_due", busy_at_old_timer, 2)
    for f in rfails[:2]:
        ctx.violation("C26 fails on the real DBOSIdleReleaseDecorator: %s" % f["why"],
                      dict(kind="implementation-monitor/dbos-decorator", input=f,
                           replay_hint="suites.lifecycle.drive_decorator_rearm(path, idle_timeout, wait_timeout, send_after, dur, tail)"))
    ctx.partial.append("PARTIAL (DBOS): one_owner / crash-timeout theorems are about the lifecycle lock (tied to the real "
                       "SqliteRunLifecycleLock); PostgresRunLifecycleLock is modelled by the same CAS steps but not executed; "
                       "the decorator's use of the lock (check-then-send window between try_begin_resume and the send) and "
                       "DBOS send/recv are not modelled -- with no lifecycle row ever created (C36 finding) try_begin_resume "
                       "always answers `active`, so that window cannot currently be reached")
    ctx.partial.append("REFUTED: C26_no_event_lost_refuted (release with an undelivered self-sent event, idle_timeout 0), "
                       "C26_startup_race_refuted (server-start resumption vs sender reload on a suspending store); "
                       "`scheduled work`: a pending waiter timeout does not keep a run from being released (see C14)")
    ctx.assumptions.append("abort() of the control loop ends the loop atomically; an engine tick and the idle-mark clearing "
                           "write of on_tick are one step (a suspending store opens a window between them that is not modelled)")
    ctx.assumptions.append("self-sent events are queued in the model at the sending step's result tick (the real put happens "
                           "inside _finalize_step just before); only the multiset of the receive queue is compared")
    ctx.trusted.append("suites/idlerel.py, suites/lifecycle.py: recording subclasses and the mapping of hook calls to model actions")


def replay(ctx, path):
    import json
    print(json.dumps(json.load(open(path)), indent=1)[:6000])
    run(ctx)
