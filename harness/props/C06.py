"""C06 — Retry delays follow the wait strategy in documented order."""
from fractions import Fraction

from props.C05 import run_chain
from workflows import retry_policy as rp

K_SHIFT = "C06/wait-strategy-evaluated-at-failure-count"


def has_indexed(w):
    """does the strategy's delay depend on its index (so that the index shift is observable)?"""
    if isinstance(w, (rp.wait_chain, rp.wait_exponential, rp.wait_incrementing)):
        return True
    if isinstance(w, rp.wait_combine):
        return any(has_indexed(s) for s in w.strategies)
    return False


def chain_monitor(info, xs, execs, wfe, obs, pol):
    out = []
    w = info["wait"]
    t0 = Fraction(execs[0]["t"])
    for k in range(1, len(execs)):           # k-th retry follows the k-th failure
        gap = Fraction(execs[k]["t"]) - Fraction(execs[k - 1]["t"])
        elapsed = Fraction(execs[k - 1]["t"]) - t0
        returned = pol.next(float(elapsed), k, xs[k - 1])      # what the policy told the engine for that failure
        if returned is None:
            out.append("retry %d happened although the policy returned None for failure %d" % (k, k))
            continue
        if gap < Fraction(max(returned, 0.0)):
            out.append("C06/retry-before-its-delay: retry %d started %s s after the failure, the policy asked for %s s"
                       % (k, float(gap), returned))
        documented = Fraction(max(w(k - 1), 0.0))           # strategies are indexed from 0: first retry = first strategy
        shifted = Fraction(max(w(k), 0.0))                  # the known defect: the strategy evaluated at index k
        if gap < documented and gap == shifted:
            out.append("%s: retry %d started %s s after failure %d, earlier than the %s s the strategy documents for it "
                       "(the strategy was evaluated at index %d instead of %d)" % (K_SHIFT, k, float(gap), k, float(documented), k, k - 1))
        elif gap < documented:
            out.append("C06/retry-earlier-than-documented: retry %d started %s s after failure %d, earlier than the %s s the "
                       "strategy documents for it (and not the strategy's value at index %d either: %s s)"
                       % (k, float(gap), k, float(documented), k, float(shifted)))
        elif k == 1 and isinstance(w, (rp.wait_chain, rp.wait_exponential, rp.wait_exponential_jitter)) and gap != documented:
            out.append("%s: the first retry waited %s s, not the first strategy / initial delay %s s"
                       % (K_SHIFT, float(gap), float(documented)))
    return out


def l1_monitor(rec):
    """resuming (rewind_in_progress on the live state: what a server reload from the tick log does) keeps the retry
    bookkeeping of every interrupted execution: it is started again (or queued again) as the SAME attempt - same attempt
    number and first-attempt time - so that the next failure is answered with the delay the strategy documents for that
    retry"""
    if rec[0] != "rewind":
        return []
    _, before, after, cmds, cfg = rec
    from workflows.runtime.types.commands import CommandRunWorker  # noqa: F401
    out = []
    for name, w in before.workers.items():
        want = sorted(((ip.event.get("i", None), type(ip.event).__name__, ip.attempts, ip.first_attempt_at) for ip in w.in_progress), key=repr)
        if not want:
            continue
        wa = after.workers[name]
        have = sorted([(ip.event.get("i", None), type(ip.event).__name__, ip.attempts, ip.first_attempt_at) for ip in wa.in_progress]
                      + [(q.event.get("i", None), type(q.event).__name__, q.attempts or 0, q.first_attempt_at) for q in wa.queue], key=repr)
        for x in want:
            if x in have:
                have.remove(x)
            elif not x[2] and any(h[:3] == (x[0], x[1], 0) for h in have):
                # an interrupted FIRST attempt starts over as a first attempt (its clock restarts): nothing to keep
                have.remove(next(h for h in have if h[:3] == (x[0], x[1], 0)))
            else:
                out.append("rewind_in_progress restarted the interrupted execution of step %s for event %s as attempt %s "
                           "(first attempt at %s): the state after has %s" % (name, x[:2], x[2], x[3],
                                                                              [h for h in have if h[:2] == x[:2]] or have))
    return out


def run(ctx):
    ctx.rule = ("L2 retry chains (see C05): every retry's start time on the real engine under the virtual clock against (i) the "
                "delay the policy returned for the failure it follows and (ii) the delay the strategy documents for that retry "
                "(strategy at index k-1), vs Model/RetryChain.v exactly; distinct key = (shape, executions, outcome, policy)")
    ctx.prove()
    # the run loop's timer heap (several retries pending with different delays, a long delay scheduled before a short one)
    from suites import timerheap as TH
    TH.run_suite(ctx, ctx.n(400, 8000), "C06", "C06_run_loop_no_wakeup_fires_early / C06_run_loop_wait_step_fires_exactly_what_is_due")
    exprs, bad, fails, shapes, multi = run_chain(ctx, chain_monitor)
    known = [f for f in fails if f["why"].startswith(K_SHIFT)]
    other = [f for f in fails if not f["why"].startswith(K_SHIFT)]
    if known:
        ctx.finding(K_SHIFT, known[0]["why"], dict(kind="implementation-monitor/L2", input=known[0], occurrences=len(known)))
    ctx.suite("retrychain.c06", index_shift_observed=len(known), other_failures=len(other))
    for f in other[:3]:
        ctx.violation("C06 fails on the real engine: %s" % f["why"], dict(kind="implementation-monitor/L2", input=f))
    if bad and not other:
        ctx.violation("model/implementation disagreement in suite retrychain (no property-level failing input found)",
                      dict(suite="retrychain", theorem="C06_retry_starts_delay_after_failure / C06_delay_is_wait_of_failure_count "
                           "(Model/RetryChain.v no longer matches the engine's retry loop)", coq_cases=[exprs[i] for i in bad[:3]]),
                      found_input=False)
    ctx.require_coverage("retrychain", "chains_with_3_or_more_executions", multi, 30)
    # the delay is a function of the attempt number: the reducer must keep it across a resume (live rewind, exact vs the
    # model + the statement on the real objects)
    from props._engine_common import run_l1
    run_l1(ctx, ctx.n(160, 4000), l1_monitor, "C06_delay_is_wait_of_failure_count (attempt numbers across rewind_in_progress)",
           need=("rewind_peek", "rewind_peek_with_retry_in_progress"))
    ctx.partial.append("'the first retry uses the first strategy / the k-th retry waits the documented delay' is refuted "
                       "(C06_documented_order_refuted, C06_exponential_initial_delay_refuted) and listed as a known finding; "
                       "proved: each retry starts exactly the policy-returned delay after its failure, and for "
                       "non-decreasing strategies that is at least the documented delay")


def replay(ctx, path):
    import json
    print(json.dumps(json.load(open(path)), indent=1)[:4000])
    run(ctx)
