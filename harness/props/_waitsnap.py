"""Snapshot / resume of runs whose steps are parked in wait_for_event with requirements (shared by C12 and C10)."""
import asyncio
import json
import random

import vloop
from suites import engine as E, engine_specs as S
from workflows import Context


async def _drain(handler):
    try:
        async for _ in handler.stream_events(expose_internal=True):
            pass
    except Exception:  # noqa: BLE001
        pass


async def _store_of(obs, n):
    out = {}
    for k in ["n"] + ["got%d" % i for i in range(1, n + 1)]:
        try:
            out[k] = await obs.handler.ctx.store.get(k, default=None)
        except Exception as ex:  # noqa: BLE001
            out[k] = "error %r" % (ex,)
    return out


async def _wait_reference(seed):
    rng = random.Random(seed)
    rec = E.Recorder()
    spec, ext, opts = S.waitflow(rng)
    wf = E.build_workflow(spec, rec)
    obs = await E.drive(wf, rec, random.Random(seed + 1), externals=ext, policy="random")
    return spec, obs, await _store_of(obs, spec["count_n"])


async def _wait_snapshot_resume(seed):
    """snapshot while steps are parked in wait_for_event (some waiters already resolved, some not), resume, deliver the
    remaining events - a non-matching event of the awaited type may come first"""
    rng = random.Random(seed)
    rec = E.Recorder()
    spec, ext, opts = S.waitflow(rng)
    wf = E.build_workflow(spec, rec)
    drv = random.Random(seed + 2)
    handler = wf.run()
    consumer = asyncio.ensure_future(_drain(handler))
    await vloop.settle()
    before = drv.randint(0, len(ext) // 2)
    for f in ext[:before]:
        f(handler, rec)
        await vloop.settle()
    if handler._result_task.done():
        await asyncio.gather(consumer, return_exceptions=True)
        return dict(snapshot=False)
    d = json.loads(json.dumps(handler.ctx.to_dict()))
    waiting = sum(len(w.get("collected_waiters", [])) for w in d.get("workers", {}).values()) if isinstance(d.get("workers"), dict) else None
    await handler.cancel_run()
    await vloop.settle()
    try:
        await handler
    except BaseException:  # noqa: BLE001
        pass
    await asyncio.gather(consumer, return_exceptions=True)
    # half of the cases: the snapshot goes through further round trips (resumed, serialized again at once, stopped)
    trips = drv.choice([0, 0, 1, 2])
    for _ in range(trips):
        # resumed and snapshotted again at once, before the resumed run has processed anything, then stopped
        recx = E.Recorder()
        recx.eid = rec.eid
        wfx = E.build_workflow(spec, recx)
        ctxx = Context.from_dict(wfx, d)
        hx = wfx.run(ctx=ctxx)
        consx = asyncio.ensure_future(_drain(hx))
        d = json.loads(json.dumps(ctxx.to_dict()))
        await hx.cancel_run()
        await vloop.settle()
        try:
            await hx
        except BaseException:  # noqa: BLE001
            pass
        await asyncio.gather(consx, return_exceptions=True)
    rec2 = E.Recorder()
    rec2.eid = rec.eid
    wf2 = E.build_workflow(spec, rec2)
    ctx2 = Context.from_dict(wf2, d)
    obs = await E.drive(wf2, rec2, drv, ctx=ctx2, externals=ext[before:], policy="random")
    return dict(snapshot=True, spec=spec, obs=obs, rec=rec2, store=await _store_of(obs, spec["count_n"]),
                delivered_before=before, remaining=[f.label for f in ext[before:]], waiting=waiting, round_trips=trips)



async def _idle_snapshot_resume(seed):
    """snapshot while the run is alive but IDLE - it has returned an InputRequiredEvent and nothing is queued, running,
    buffered or waiting; only an external HumanResponseEvent can make it go on - then resume on a fresh workflow object
    and send the response.  Returns the result and the state-store counters (each step counts its executions)."""
    from suites.wfevents import HR, IR
    from workflows.events import StartEvent, StopEvent
    rng = random.Random(seed)
    asks = rng.choice([1, 1, 2])
    spec = dict(steps={
        "a_start": dict(accepts=[StartEvent], returns=[IR], num_workers=1, script=[("incr", "asked"), ("return", IR)]),
        "c_answer": dict(accepts=[HR], returns=[StopEvent, IR], num_workers=1,
                         script=[("incr", "answered"), ("return_const", "done")]),
    })
    trips = rng.choice([0, 0, 1])

    async def store_of(h):
        out = {}
        for k in ("asked", "answered"):
            out[k] = await h.ctx.store.get(k, default=0)
        return out

    async def finish(wf, rec, ctx=None):
        h = wf.run(ctx=ctx) if ctx is not None else wf.run()
        cons = asyncio.ensure_future(_drain(h))
        await vloop.settle()
        return h, cons

    # uninterrupted
    rec0 = E.Recorder()
    wf0 = E.build_workflow(spec, rec0)
    h0, c0 = await finish(wf0, rec0)
    h0.ctx.send_event(HR(k=1))
    await vloop.settle()
    ref = (await asyncio.wait_for(h0, 5), await store_of(h0))
    await asyncio.gather(c0, return_exceptions=True)
    # snapshot at the idle point
    rec = E.Recorder()
    wf = E.build_workflow(spec, rec)
    h, c = await finish(wf, rec)
    d = json.loads(json.dumps(h.ctx.to_dict()))
    await h.cancel_run()
    await vloop.settle()
    try:
        await h
    except BaseException:  # noqa: BLE001
        pass
    await asyncio.gather(c, return_exceptions=True)
    rec2 = E.Recorder()
    rec2.eid = rec.eid
    wf2 = E.build_workflow(spec, rec2)
    h2, c2 = await finish(wf2, rec2, ctx=Context.from_dict(wf2, d))
    h2.ctx.send_event(HR(k=1))
    await vloop.settle()
    done = h2._result_task.done()
    res, exc = None, None
    if done:
        try:
            res = h2._result_task.result()
        except BaseException as ex:  # noqa: BLE001
            exc = ex
    else:
        await h2.cancel_run()
        await vloop.settle()
    await asyncio.gather(c2, return_exceptions=True)
    return dict(ref=ref, done=done, result=res, exc=exc, store=await store_of(h2),
                start_executions_after_resume=sum(1 for r in rec2.log if r["kind"] == "enter" and r["step"] == "a_start"))
