"""C05 — Retry budgets count attempts and elapsed time correctly."""
import random
from fractions import Fraction

from props._engine_common import run_l1
from props.C08 import l1_monitor as c08_l1
from suites import retrychain as RC
from workflows.events import WorkflowFailedEvent
from workflows.runtime.types.commands import CommandPublishEvent, CommandQueueEvent
from workflows.runtime.types.results import StepWorkerFailed
from workflows.runtime.types.ticks import TickStepResult

THEOREMS = "C05_reducer_reports_failures_and_elapsed / C05_reducer_retry_carries_attempts"


def l1_monitor(rec):
    """reducer: failures = attempts+1, elapsed = failed_at - first_attempt_at reach the reports and the retry"""
    if rec[0] != "tick":
        return []
    _, before, t, after, cmds, now = rec
    if isinstance(t, TickStepResult) and t.step_name in before.workers and t.step_name in after.workers:
        # an invocation that is re-run (stale collect snapshot: same slot, CommandRunWorker again) is the SAME attempt of the same
        # input: its attempt count, first-attempt time and last failure are what they were
        from workflows.runtime.types.commands import CommandRunWorker
        from workflows.runtime.types.results import AddCollectedEvent
        ip0 = next((x for x in before.workers[t.step_name].in_progress if x.worker_id == t.worker_id), None)
        from workflows.events import StepState, StepStateChanged
        # (the slot was NOT released in this tick - no NOT_RUNNING for it - and a CommandRunWorker names it again: a re-run of
        # this very invocation, not another queued attempt that took the slot over)
        released = any(isinstance(c, CommandPublishEvent) and isinstance(c.event, StepStateChanged)
                       and c.event.name == t.step_name and c.event.step_state == StepState.NOT_RUNNING
                       and c.event.worker_id == str(t.worker_id) for c in cmds)
        rerun = (not released) and any(isinstance(c, CommandRunWorker) and c.step_name == t.step_name and c.id == t.worker_id
                                       and c.event is t.event for c in cmds)
        if ip0 is not None and rerun and any(isinstance(r, AddCollectedEvent) for r in t.result) \
                and not any(isinstance(r, StepWorkerFailed) for r in t.result):
            same = [x for x in after.workers[t.step_name].in_progress if x.worker_id == t.worker_id and x.event is t.event]
            if same and not any((x.attempts, x.first_attempt_at) == (ip0.attempts, ip0.first_attempt_at) for x in same):
                return ["the re-run of a collecting invocation (stale snapshot) of step %s restarted as attempt %s (first attempt at %s); "
                        "the invocation was attempt %s, first attempt at %s: its retry budget starts over"
                        % (t.step_name, same[0].attempts, same[0].first_attempt_at, ip0.attempts, ip0.first_attempt_at)]
    if not isinstance(t, TickStepResult) or t.step_name not in before.workers or len(t.result) != 1 \
            or not isinstance(t.result[0], StepWorkerFailed):
        return []
    ip = next((x for x in before.workers[t.step_name].in_progress if x.worker_id == t.worker_id), None)
    if ip is None:
        return []
    out = []
    fa = t.result[0].failed_at
    for c in cmds:
        if isinstance(c, CommandQueueEvent) and c.attempts:
            if c.attempts != ip.attempts + 1 or c.first_attempt_at != ip.first_attempt_at or c.last_exception is not t.result[0].exception \
                    or c.last_failed_at != fa:
                out.append("retry carries attempts=%s first=%s (expected %s, %s)" % (c.attempts, c.first_attempt_at, ip.attempts + 1, ip.first_attempt_at))
        if isinstance(c, CommandPublishEvent) and isinstance(c.event, WorkflowFailedEvent):
            if c.event.attempts != ip.attempts + 1 or c.event.elapsed_seconds != fa - ip.first_attempt_at:
                out.append("WorkflowFailedEvent reports attempts=%s elapsed=%s, real %s / %s"
                           % (c.event.attempts, c.event.elapsed_seconds, ip.attempts + 1, fa - ip.first_attempt_at))
    return out


def chain_monitor(info, xs, execs, wfe, obs):
    out = []
    m = len(execs)
    if info.get("expect_execs") is not None and m != info["expect_execs"]:
        out.append("the step ran %d times; under retry=(ValueError or RuntimeError), stop_after_attempt(%d) and the exceptions "
                   "%s it runs %d times (the named condition was used to derive another one before)"
                   % (m, info["n"], [type(x).__name__ for x in xs[:info["expect_execs"] + 1]], info["expect_execs"]))
    if info.get("stop_tree") is not None and m < RC.NEXC:
        # the number of executions the nested stop condition documents: the first failure count at which it holds
        want = next((k for k in range(1, RC.NEXC + 1) if RC.stop_oracle(info["stop_tree"], k)), None)
        if want is not None and m != want and (wfe or m < want):
            out.append("the step ran %d times under the stop condition %s, which holds first after %d failures"
                       % (m, info["stop_tree"], want))
    if [r["retry"] for r in execs] != list(range(m)):
        out.append("retry_info().retry_number sequence %s is not 0,1,2,..." % [r["retry"] for r in execs])
    for k, r in enumerate(execs):
        want = None if k == 0 else repr(xs[k - 1])
        if r["last_exc"] != want:
            out.append("execution %d sees last_exception %s, the previous attempt raised %s" % (k, r["last_exc"], want))
    if wfe:
        w = wfe[0]
        real_elapsed = Fraction(execs[-1]["t"]) - Fraction(execs[0]["t"])
        if w.attempts != m:
            out.append("WorkflowFailedEvent.attempts=%d but the step body ran %d times" % (w.attempts, m))
        if Fraction(w.elapsed_seconds) != real_elapsed:
            out.append("WorkflowFailedEvent.elapsed_seconds=%s but %s s really elapsed between the first attempt and the "
                       "last failure" % (w.elapsed_seconds, float(real_elapsed)))
    if info["shape"] == "attempt":
        want = max(info["n"], 1)
        if want <= RC.NEXC and m != want:
            out.append("stop_after_attempt(%d): body executed %d times, expected %d" % (info["n"], m, want))
    if info["shape"] == "never" and m != 1:
        out.append("non-retryable error executed %d times" % m)
    if info["shape"] == "delay":
        # retried while k*w < d  (failure k happens k*w after the first attempt)
        want, k = 1, 0
        while Fraction(k) * Fraction(info["w"]) < Fraction(info["d"]) and want <= RC.NEXC:
            want += 1
            k += 1
        if m != min(want, RC.NEXC + 1):
            out.append("stop_after_delay(%s) with wait %s: body executed %d times, expected %d (retry while real elapsed < d)"
                       % (info["d"], info["w"], m, want))
    for r in execs[1:]:
        real = Fraction(r["t"]) - Fraction(execs[0]["t"])
        if Fraction(r["elapsed"]) != real:
            out.append("retry_info().elapsed_seconds=%s at retry %d, really %s" % (r["elapsed"], r["retry"], float(real)))
            break
    return out


def run_chain(ctx, monitor, label="retrychain"):
    rng = random.Random(ctx.seed * 37 + 11)
    n = ctx.n(250, 8000)
    exprs, fails, shapes, multi = [], [], {}, 0
    for i in range(n):
        pol, g, info, xs = RC.gen_case(rng)
        seed = rng.randrange(1 << 30)
        execs, wfe, obs = RC.observe(pol, xs, seed)
        if not execs:
            continue
        exprs.append(RC.coq_case(g, xs, RC.encode(execs, wfe)))
        shapes[info["shape"]] = shapes.get(info["shape"], 0) + 1
        multi += 1 if len(execs) > 2 else 0
        ctx.count(1, (info["shape"], len(execs), bool(wfe), g[:60]))
        if i < 3:
            ctx.sample(dict(kind="l2-retrychain", policy=g, executions=len(execs),
                            starts=[r["t"] - execs[0]["t"] for r in execs],
                            reported=None if not wfe else dict(attempts=wfe[0].attempts, elapsed=wfe[0].elapsed_seconds)), limit=8)
        for w in monitor(info, xs, execs, wfe, obs, pol):
            fails.append(dict(why=w, policy=g, seed=seed, executions=len(execs),
                              starts=[r["t"] - execs[0]["t"] for r in execs]))
    res = ctx.run_cases(label, RC.HEADER, exprs, shard=60)
    bad = [i for i, z in enumerate(res) if z != 0]
    ctx.programs += n
    ctx.mark(label)
    ctx.suite(label, cases=n, disagreements=len(bad), shapes=shapes, chains_with_3_or_more_executions=multi,
              monitor_failures=len(fails))
    ctx.disagreements += len(bad)
    ctx.disagreements_checked += len(bad)
    return exprs, bad, fails, shapes, multi


def run(ctx):
    ctx.rule = ("L2 retry chains: a step raising a generated exception sequence under generated composed policies (retry "
                "conditions incl. any/all, all non-jittered wait strategies and compositions, all stop conditions; pure "
                "stop_after_attempt / stop_after_delay / non-retryable shapes) on the real engine under the virtual clocks "
                "(monotonic and wall clock deliberately offset) vs Model/RetryChain.v exactly (executions, retry numbers, "
                "start times, reported attempts/elapsed); L1: failed-result transitions of the real reducer; distinct key "
                "= (shape, executions, outcome, policy)")
    ctx.prove()
    exprs, bad, fails, shapes, multi = run_chain(ctx, lambda info, xs, execs, wfe, obs, pol: chain_monitor(info, xs, execs, wfe, obs))
    for f in fails[:3]:
        ctx.violation("C05 fails on the real engine: %s" % f["why"], dict(kind="implementation-monitor/L2", input=f))
    if bad and not fails:
        ctx.violation("model/implementation disagreement in suite retrychain (no property-level failing input found)",
                      dict(suite="retrychain", theorem="C05_stop_after_attempt_exact / C05_report_is_real (Model/RetryChain.v no "
                           "longer matches the engine's retry loop)", coq_cases=[exprs[i] for i in bad[:3]]), found_input=False)
    for k in ("attempt", "delay", "never", "composed", "nested", "aliased"):
        ctx.require_coverage("retrychain", k, shapes.get(k, 0), 10)
    ctx.require_coverage("retrychain", "chains_with_3_or_more_executions", multi, 30)
    run_l1(ctx, ctx.n(100, 4000), l1_monitor, THEOREMS, need=("retry_queued", "fail_workflow"))
    # events that waited in a busy step's queue before their first attempt: elapsed is measured from that first attempt
    from props._engine_common import run_l2, report_l2
    from suites import engine_specs as S

    def queue_monitor(spec, rec, obs):
        out, first, queued = [], {}, 0
        sent_at = {r["i"]: r["t"] for r in rec.log if r["kind"] == "send"}
        for r in rec.log:
            if r["kind"] != "enter" or r["step"] != "b_work":
                continue
            if r["i"] not in first:
                first[r["i"]] = r["t"]
                if r["t"] > sent_at.get(r["i"], r["t"]):
                    queued += 1
                if r["retry"] != 0:
                    out.append("first execution of event %s has retry_number %s" % (r["i"], r["retry"]))
                if r["last_exc"] is not None:
                    out.append("first execution of event %s sees last_exception %s" % (r["i"], r["last_exc"]))
            else:
                want = "ValueError('fail%d')" % (r["retry"] - 1)
                if r["last_exc"] != want:
                    out.append("event %s, retry %d: retry_info().last_exception is %s, the previous attempt raised %s "
                               "(the retry may have waited in the step's queue for a free worker)"
                               % (r["i"], r["retry"], r["last_exc"], want))
                real = Fraction(r["t"]) - Fraction(first[r["i"]])
                if Fraction(r["elapsed"]) != real:
                    out.append("event %s, retry %d: retry_info().elapsed_seconds=%s but %s s elapsed since its first attempt began "
                               "(it had waited %s s in the queue before)" % (r["i"], r["retry"], r["elapsed"], float(real),
                                                                               first[r["i"]] - sent_at.get(r["i"], first[r["i"]])))
        return out, dict(events_that_waited_in_queue=queued, retries=sum(1 for r in rec.log if r["kind"] == "enter" and r["retry"]))
    fails2, facts = run_l2(ctx, [S.queuewait], ctx.n(40, 1500), queue_monitor,
                           need=(("events_that_waited_in_queue", 20), ("retries", 30)), label="engine.queuewait")
    report_l2(ctx, fails2)


def replay(ctx, path):
    import json
    print(json.dumps(json.load(open(path)), indent=1)[:4000])
    run(ctx)
