"""C17 — The client's auto-reconnecting event stream delivers each event once."""
import json
import random

import core
from suites import sseclient as SC

THEOREMS = "C17_connection / C17_client_delivers / C17_once_and_in_order / C17_gives_up_only_beyond_limit / " \
           "C17_client_completes"

CUT_KINDS = ("at-0", "inside-id-line", "between-id-and-data", "inside-data-line", "after-data-line",
             "frame-boundary", "inside-heartbeat", "at-or-beyond-end", "inside-multibyte-char")


def run_one(ctx, case, tot, fails, sample=False):
    res = SC.execute(case)
    SC.check_payloads(res)
    tot["executions"] += 1
    tot["status_" + res.status.split(":")[0]] = tot.get("status_" + res.status.split(":")[0], 0) + 1
    kinds = []
    for c in res.conns:
        if c["kind"] == "fail":
            tot["connection_failures"] += 1
        elif c["status"] == 204:
            tot["responses_204"] += 1
        k = SC.classify_cut(c)
        if k:
            tot["cut_" + k] += 1
            kinds.append(k)
        if b": heartbeat" in c["body"]:
            tot["responses_with_heartbeats"] += 1
        if c["kind"] == "serve" and c["n1"] != c["n2"]:
            tot["responses_while_log_grows"] += 1
    if any(ch in p for p in res.payloads for ch in "  \x85"):
        tot["cases_with_unicode_line_separators"] += 1
    if len(res.requests) > 1:
        tot["cases_with_reconnect"] += 1
    for key, what in SC.monitor(case, res):
        fails.append(dict(key=key, what=what, case=case))
    ctx.count(1, (len(case["events"]), case["k0"] >= 0, case["incl"], case["max_attempts"], res.status,
                  tuple(sorted(set(kinds))), min(len(res.requests), 5)))
    if sample:
        ctx.sample(dict(events=[list(e) for e in case["events"]], k0=case["k0"], attempts=[list(a) for a in case["attempts"]],
                        max_reconnect_attempts=case["max_attempts"], requests=res.requests,
                        yielded=[s for s, _ in res.yielded], status=res.status, last_sequence=res.last), limit=5)
    return res


def _cases(ctx, name, header, exprs, **kw):
    """ctx.run_cases, except that with a broken Coq build the comparison is skipped (the break itself is
    reported by finish(); the monitors still search for a failing input)"""
    if ctx.broken_obligations:
        try:
            return ctx.run_cases(name, header, exprs, **kw)
        except core.CheckError as e:
            ctx.notes.append("comparison %s skipped, Coq side broken: %s" % (name, str(e)[:200]))
            return [0] * len(exprs)
    return ctx.run_cases(name, header, exprs, **kw)


def run(ctx, only=None):
    ctx.rule = ("real WorkflowClient.get_workflow_events over httpx.MockTransport serving the real _stream_events / "
                "format_stream output (real MemoryWorkflowStore, events appended over virtual time so that heartbeats "
                "interleave): random streams of 1..7 events (payload strings with quotes, escapes, non-ASCII, U+2028 / "
                "U+2029 / U+0085, 'id:'/'data:' look-alikes), cursors -2..n+1, include_internal on/off, "
                "max_reconnect_attempts 0..3, random patterns of connection failures and drops at random byte "
                "offsets with chunk sizes 1..4096; plus, for selected streams, ONE drop at EVERY byte offset of the "
                "whole response; distinct key = (stream length, cursor class, filter, limit, outcome, kinds of cut "
                "positions, number of requests)")
    ctx.prove()
    # the comparator is not a dependency of the property file: build it explicitly (a failure is a broken
    # obligation; the implementation-side monitors below still run and report a concrete input if there is one)
    ok, out = core.coq_make(["theories/Model/SseClientEnc.vo"])
    if not ok:
        ctx.broken_obligations.append(("make theories/Model/SseClientEnc.vo", out[-3000:]))
    ctx.trusted.append("source-slice loader: _WorkflowAPI._stream_events (with format_stream) and "
                       "_resolve_event_stream executed from the text of _api.py; HTTPException / StreamingResponse / "
                       "Request replaced by stand-ins; httpx.MockTransport instead of a socket")
    ctx.trusted.append("UTF-8 decoding by httpx (aiter_text) abstracted: a drop inside a multi-byte character is a "
                       "drop before it; pydantic model_validate_json(model_dump_json(e)) identifies the event; "
                       "Python str(int)/int(str) as the section hypotheses of C17_*")
    ctx.assumptions.append("payload JSON text contains no line feed and no blank at either end (asserted on every "
                           "generated payload); the run stores nothing after its terminal event (terminal_last); a "
                           "handler is marked completed only after its events are stored (honest)")
    if SC.python_whitespace() != SC.MODEL_WS:
        raise core.CheckError("str.isspace of this interpreter differs from is_ws of Model/SseClient.v: %r"
                              % sorted(set(SC.python_whitespace()) ^ set(SC.MODEL_WS)))
    rng = random.Random(ctx.seed * 104729 + 17)
    tot = dict(executions=0, connection_failures=0, responses_204=0, responses_with_heartbeats=0,
               responses_while_log_grows=0, cases_with_unicode_line_separators=0, cases_with_reconnect=0)
    for k in CUT_KINDS:
        tot["cut_" + k] = 0
    fails, exprs, meta = [], [], []
    # ---- random fault patterns --------------------------------------------------------------------
    cases = only or []
    if not only:
        for ci in range(ctx.n(70, 700)):
            case = SC.gen_case(rng)
            ln, _ = SC.full_body_length(case)
            case["attempts"] = SC.gen_attempts(rng, ln)
            cases.append(case)
    body_terms = 0
    for ci, case in enumerate(cases):
        res = run_one(ctx, case, tot, fails, sample=ci < 3)
        exprs.append(SC.coq_case(case, res))
        meta.append((case, res, "client"))
        if ci % 4 == 0:
            for b in SC.coq_body_cases(case, res):
                exprs.append(b)
                meta.append((case, res, "body"))
                body_terms += 1
    results = _cases(ctx, "sseclient", SC.HEADER, exprs, shard=8)
    bad = [(meta[i], results[i]) for i in range(len(results)) if results[i] != 0]
    # ---- one drop at every byte offset of the whole response ------------------------------------------
    n_exh = 0
    if not only:
        for si in range(ctx.n(1, 8)):
            case = SC.gen_case(rng, n_events=rng.choice([1, 2]) if ctx.tier == "quick" else rng.choice([2, 3, 4, 5]))
            case.update(k0=-1, handler="running", max_attempts=1, prestored=rng.randrange(0, len(case["events"]) + 1))
            # at least one payload with multi-byte characters and a Unicode line separator
            j = len(case["events"]) - 1          # the terminal event is never filtered
            case["events"][j] = (case["events"][j][0], rng.choice(["é p", "\U0001f600\u2029", "ü\x85ü"]),
                                 case["events"][j][2])
            ln, base = SC.full_body_length(case)
            ex, mt = [], []
            for cut in range(0, ln + 2):
                c = dict(case, attempts=[("serve", cut, rng.choice([1, 5, 64, 4096]))])
                res = run_one(ctx, c, tot, fails)
                ex.append(SC.coq_case_named(c, res))
                mt.append((c, res, "client"))
                n_exh += 1
            rs = _cases(ctx, "sse_exhaustive_%d" % si, SC.header_for(case, base), ex, shard=40)
            bad += [(mt[i], rs[i]) for i in range(len(rs)) if rs[i] != 0]
    ctx.programs += tot["executions"]
    ctx.disagreements += len(bad)
    ctx.disagreements_checked = len(bad)
    ctx.suite("sse-client", random_cases=len(cases), every_offset_cases=n_exh, body_comparisons=body_terms,
              disagreements=len(bad), monitor_failures=len(fails), **tot)
    # a broken implementation distorts the distribution; coverage is only demanded of quiet runs
    if not only and not fails and not bad:
        for c, m in (("cut_inside-id-line", 3), ("cut_between-id-and-data", 1), ("cut_inside-data-line", 10),
                     ("cut_frame-boundary", 2), ("cut_at-0", 3), ("cut_at-or-beyond-end", 3),
                     ("connection_failures", 10), ("responses_with_heartbeats", 5), ("responses_while_log_grows", 5),
                     ("cases_with_unicode_line_separators", 5), ("cases_with_reconnect", 20), ("responses_204", 3),
                     ("cut_inside-multibyte-char", 1)):
            ctx.require_coverage("sse-client", c, tot.get(c, 0), m)
        ctx.require_coverage("sse-client", "status_gaveup", tot.get("status_gaveup", 0), 2)
    seen = set()
    for f in fails:
        if f["key"] in seen:
            continue
        seen.add(f["key"])
        ctx.finding(f["key"], "C17 fails on the real client: %s" % f["what"],
                    dict(kind="implementation-monitor", case=f["case"],
                         replay_hint="bin/check C17 --replay <this file> re-runs the real client on this stream and "
                                     "fault pattern"))
    if bad and not fails:
        (case, res, kind), code = bad[0]
        ctx.violation("model/implementation disagreement in suite sse-client (no property-level failing input found)",
                      dict(suite="sse-client", theorem=THEOREMS + " (Model/SseClient.v no longer matches client.py / "
                           "format_stream)", compared=kind, first_difference_index=code, case=case,
                           implementation=dict(requests=res.requests, yielded=[s for s, _ in res.yielded],
                                               status=res.status, last_sequence=res.last,
                                               bodies=[c["body"].decode("utf-8", "replace")[:400] for c in res.conns]),
                           disagreeing_cases=len(bad)),
                      found_input=False)
    elif bad:
        ctx.notes.append("%d model/implementation disagreements accompany the monitor failures" % len(bad))


def replay(ctx, path):
    body = json.load(open(path))
    print(json.dumps({k: v for k, v in body.items() if k != "case"}, indent=1)[:3000])
    case = body.get("case")
    if not case:
        return run(ctx)
    case["events"] = [tuple(e) for e in case["events"]]
    case["attempts"] = [tuple(a) for a in case["attempts"]]
    res = SC.execute(case)
    print("requests", res.requests, "yielded", [s for s, _ in res.yielded], "status", res.status, res.error,
          "last_sequence", res.last)
    for key, what in SC.monitor(case, res):
        print("MONITOR", key, what)
    run(ctx, only=[case])
