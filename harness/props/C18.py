"""C18 — Events and ticks survive serialization unchanged."""
import json
import random

from suites import serde as S


def exn_mechanism(it, orig, back):
    """Why an exception did not keep (type, message): the structural finding key, or None when the
    class is outside the property's domain (not importable by its qualified name).  A known key is
    returned only when what was read back is exactly what that mechanism produces; anything else
    is `C18/exception-not-kept`."""
    cls, msg = type(orig), str(orig)
    imp, ctor, nw = S.exn_behaviour(it, cls, msg)
    if not imp:
        return None
    got = (type(back), str(back))
    if ctor[0] == 0:
        rebuilt = str(cls(msg))
        if rebuilt != msg and got == (cls, rebuilt):
            return "C18/exception-message-changed-by-constructor"
        return "C18/exception-not-kept"
    new_ok = False
    if ctor[0] == 2:
        try:
            x = cls.__new__(cls)
            x.args = (msg,)
            new_ok = str(x) == msg
        except Exception:      # noqa: BLE001
            new_ok = False
    if not new_ok and got == (Exception, msg):
        return "C18/exception-type-lost-constructor-needs-state"
    return "C18/exception-not-kept"


def find_exn(ev, path):
    """Exception object at a canonical path 'event.a.b' of an event."""
    cur = ev
    for part in path.split(".")[1:]:
        cur = getattr(cur, part)
    return cur


def monitor_event(it, codec, orig, back):
    """C18 on one real round trip.  Returns None, or (key, text), or ("skip", why)."""
    if isinstance(back, S.EncodeFailed):
        return ("C18/encode-raises-%s" % codec, "writing raised %s" % str(back)[:160])
    if isinstance(back, BaseException):
        return ("C18/decode-raises-%s" % codec, "reading back raised %s: %s" % (type(back).__name__, str(back)[:120]))
    a, b = S.canon_event(orig), S.canon_event(back)
    d = S.diff_events(a, b)
    if d is None:
        return None
    clause, path = d
    if clause in ("exception-type", "exception-message"):
        key = exn_mechanism(it, find_exn(orig, path), find_exn(back, path))
        if key is None:
            return ("skip", "exception class not importable")
        return (key, "%s not kept at %s (%s codec)" % (clause, path, codec))
    stop = isinstance(orig, S.StopEvent)
    return ("C18/%s-%s%s" % (clause, "stop-" if stop else "", codec), "%s differ at %s" % (clause, path))


def monitor_tick(it, orig, back):
    if isinstance(back, S.EncodeFailed):
        return ("C18/encode-raises-tick", "writing the tick raised %s" % str(back)[:160])
    if isinstance(back, BaseException):
        return ("C18/decode-raises-tick", "reading the tick back raised %s: %s" % (type(back).__name__, str(back)[:120]))
    if type(orig) is not type(back):
        return ("C18/tick-class", "tick class %s read back as %s" % (type(orig).__name__, type(back).__name__))
    ea, eb = S.tick_events(orig), S.tick_events(back)
    if [p for p, _ in ea] != [p for p, _ in eb]:
        return ("C18/tick-structure", "event positions differ: %s vs %s" % ([p for p, _ in ea], [p for p, _ in eb]))
    for (p, x), (_, y) in zip(ea, eb):
        if isinstance(x, Exception):
            if type(x) is type(y) and str(x) == str(y):
                continue
            key = exn_mechanism(it, x, y)
            if key is None:
                continue
            return (key, "exception not kept at %s (tick codec)" % p)
        r = monitor_event(it, "tick", x, y)
        if r and r[0] != "skip":
            return (r[0], "%s at %s" % (r[1], p))
    return None


def back_term(it, back, conv):
    if isinstance(back, BaseException):
        return "None"
    return "(Some %s)" % conv(it, back)


def tables(it, objs, extra_classes=()):
    classes, exns = set(extra_classes), set()
    for o in objs:
        if isinstance(o, BaseException):
            continue
        S.collect_classes(o, classes)
        S.collect_exns(o, exns)
    cls_sorted = sorted(classes, key=lambda c: S.CID[c])
    return S.g_ct(it, cls_sorted), exns


def run(ctx, only=None):
    ctx.rule = ("events of 28 classes (5 built-in roots, WorkflowFailed/StepFailed/TimedOut/Cancelled, 11 hand-written "
                "shapes incl. StopEvent subclasses with fields / overridden _get_result / nested SerializableEvent / "
                "exception fields, 8 classes made with pydantic.create_model) with random typed values, dynamic "
                "fields (keys incl. the codecs' reserved words) and results drawn from nested JSON (ints to 2^70, "
                "floats, unicode, null, wrapper look-alikes); exceptions of 11 classes with 5 constructor "
                "behaviours; ticks of all 8 kinds with all 6 step-result kinds; three codecs; distinct key = "
                "(codec, class, shape of payload, exception classes, outcome)")
    ctx.prove()
    S.check_tick_shapes()
    rng = random.Random(ctx.seed)
    n = ctx.n(900, 12000)
    exprs, meta, mon = [], [], []
    stats = dict(json_cases=0, env_cases=0, env_registry_hit=0, env_no_qname=0, tick_cases=0, stop_with_dyn=0,
                 nested_events=0, exn_fields=0, exn_ctor_other=0, exn_transform=0, exn_unimportable=0,
                 result_nonnull=0, dyn_reserved_key=0, decode_raised=0, skipped_out_of_domain=0)
    for i in range(n):
        it = S.new_interner()
        k = i % 4
        if only is not None:
            break
        if k < 2:
            ev = S.gen_event(rng)
            wire, back = S.real_json_roundtrip(ev)
            ct, exns = tables(it, [ev, back])
            exns |= S.collect_exns(ev, set())
            # every exception message on the wire is the original's str()
            xt = S.g_xt(it, exns)
            e = "scase %s %s %s %s %s" % (ct, xt, S.g_event(it, ev), S.g_json(it, wire), back_term(it, back, S.g_event))
            r = monitor_event(it, "json", ev, back)
            stats["json_cases"] += 1
            codec = "json"
        elif k == 2:
            ev = S.gen_event(rng)
            mode = rng.random()
            registry = []
            if mode < 0.5:
                registry = [type(ev)] + rng.sample(S.EVENT_CLASSES, 2)
                rng.shuffle(registry)
            elif mode < 0.7:
                registry = rng.sample([c for c in S.EVENT_CLASSES if c is not type(ev)], 3)
            with_q = not (type(ev) in registry and rng.random() < 0.3)
            wire, back = S.real_env_roundtrip(ev, registry, with_q)
            if wire is not None:
                wire.pop("types", None)
                if wire.get("qualified_name") is None:
                    wire["qualified_name"] = ""
            ct, exns = tables(it, [ev, back], registry)
            xt = S.g_xt(it, exns)
            reg = S.glist(str(S.CID[c]) for c in registry)
            model_ev = S.g_event(it, ev)
            if with_q:
                e = "ecase %s %s %s %s %s %s" % (ct, xt, model_ev, reg, S.g_json(it, wire),
                                                 back_term(it, back, S.g_event))
            else:
                # (encoding without a qualified name is not modelled: compare the decode side only)
                e = "dcase %s %s %s %s %s %s" % (ct, xt, reg, model_ev, S.g_json(it, wire),
                                                 back_term(it, back, S.g_event))
            r = monitor_event(it, "envelope", ev, back)
            stats["env_cases"] += 1
            stats["env_registry_hit"] += type(ev) in registry
            stats["env_no_qname"] += not with_q
            codec = "envelope"
        else:
            tick = S.gen_tick(rng)
            wire, back = S.real_tick_roundtrip(tick)
            ct, exns = tables(it, [tick, back], [x for x in S.EVENT_CLASSES
                                                 if any(getattr(r, "event_type", None) is x
                                                        for r in getattr(tick, "result", []) or [])])
            xt = S.g_xt(it, exns)
            e = "tcase %s %s %s %s %s" % (ct, xt, S.g_tickobj(it, tick), S.g_json(it, wire),
                                          back_term(it, back, S.g_tickobj))
            r = monitor_tick(it, tick, back)
            stats["tick_cases"] += 1
            ev = tick
            codec = "tick"
        if wire is None:
            e = "0"          # nothing to compare: the real encoder raised (reported by the monitor)
        exprs.append(e)
        carried = [x for _, x in S.tick_events(ev)] if codec == "tick" else [ev]
        evs = [x for x in carried if isinstance(x, S.Event)]
        allx = S.collect_exns(ev, set())
        for x in evs:
            stats["stop_with_dyn"] += isinstance(x, S.StopEvent) and bool(x._data)
            stats["result_nonnull"] += isinstance(x, S.StopEvent) and x._result is not None
            stats["dyn_reserved_key"] += any(kk in S.Interner.RESERVED for kk in x._data)
            stats["nested_events"] += any(isinstance(getattr(x, f), S.Event) for f in type(x).model_fields)
        stats["exn_fields"] += bool(allx)
        for cls, msg in allx:
            imp, ctor, nw = S.exn_behaviour(it, cls, msg)
            stats["exn_unimportable"] += not imp
            stats["exn_ctor_other"] += imp and ctor[0] == 2
            stats["exn_transform"] += imp and ctor[0] == 0 and ctor[1] != it.s(msg)
        stats["decode_raised"] += isinstance(back, BaseException)
        desc = dict(codec=codec, cls=type(ev).__name__, repr=repr(ev)[:300], wire=wire)
        meta.append(desc)
        shape = (codec, type(ev).__name__, tuple(sorted(type(x).__name__ for x in evs)),
                 tuple(sorted(c.__name__ for c, _ in allx)),
                 tuple(sorted((type(x).__name__, len(x._data), x._result is not None if isinstance(x, S.StopEvent)
                               else None) for x in evs)), isinstance(back, BaseException))
        ctx.count(1, shape)
        if i < 6:
            ctx.sample(dict(codec=codec, object=repr(ev)[:200], wire=json.dumps(wire)[:300]), limit=6)
        if r is not None:
            if r[0] == "skip":
                stats["skipped_out_of_domain"] += 1
            else:
                mon.append((r, desc))
    res = ctx.run_cases("serde", S.HEADER, exprs, shard=150)
    badi = [i for i, z in enumerate(res) if z & 3]
    in_domain = sum(1 for z in res if not z & 8)
    dom_fail = [i for i, z in enumerate(res) if z & 4]
    ctx.suite("serde", cases=len(exprs), disagreements=len(badi), in_theorem_domain=in_domain,
              in_domain_not_restored=len(dom_fail), **stats)
    ctx.suite("serde.monitor", failures=len(mon), keys=sorted({r[0] for r, _ in mon}))
    ctx.disagreements += len(badi)
    ctx.disagreements_checked = len(badi)
    seen = set()
    unknown = 0
    for (key, text), desc in mon:
        if key in seen:
            continue
        seen.add(key)
        before = len(ctx.violations)
        ctx.finding(key, "C18 fails on the implementation: %s" % text,
                    dict(kind="implementation-monitor", case=desc,
                         replay_hint="the `repr` field is the event/tick; feed it to the codec named in `codec`"))
        unknown += len(ctx.violations) - before
    if dom_fail and not unknown:
        # a value inside the hypotheses of C18_*_roundtrip that the real code did not restore, and the
        # monitor did not flag: report with the concrete case
        ctx.violation("C18 fails on the implementation: a value inside the theorem's domain is not restored",
                      dict(kind="in-domain-check", case=meta[dom_fail[0]]), found_input=True)
        unknown += 1
    if badi and not unknown:
        ctx.violation("model/implementation disagreement in suite serde (no property-level failing input found)",
                      dict(suite="serde", theorem="C18_json_roundtrip / C18_envelope_roundtrip / C18_tick_roundtrip "
                                                  "(Model/Serde.v no longer matches the codecs)",
                           result_bits=[res[i] for i in badi[:5]], cases=[meta[i] for i in badi[:5]],
                           coq_exprs=[exprs[i] for i in badi[:2]]), found_input=False)
    elif badi:
        ctx.notes.append("%d model/implementation disagreements accompany the monitor failures" % len(badi))
    if not badi and not unknown:
        ctx.require_coverage("serde", "in_theorem_domain", in_domain, len(exprs) // 2)
        for c, m in (("json_cases", 100), ("env_cases", 50), ("tick_cases", 50), ("stop_with_dyn", 20),
                     ("nested_events", 10), ("exn_fields", 30), ("exn_ctor_other", 3), ("exn_transform", 3),
                     ("result_nonnull", 20), ("dyn_reserved_key", 10), ("env_registry_hit", 10)):
            ctx.require_coverage("serde", c, stats[c], m)


def replay(ctx, path):
    body = json.load(open(path))
    print(json.dumps({k: body[k] for k in body if k != "coq_exprs"}, indent=1)[:4000])
    # cases are a deterministic function of (seed, tier): re-run the recorded stream on the current tree
    ctx.seed = int(body.get("seed", ctx.seed))
    ctx.tier = body.get("tier", ctx.tier)
    run(ctx)
