"""C20 — Concurrent state updates are never lost."""
import json
import random
import shutil

import core
from suites import statesched as K, statestore as S
from workflows.context.state_store import InMemoryStateStore

THEOREMS = "C20_memory_serialisable / C20_sqlite_serialisable"


def judge(store, init, ops, log, fin):
    """The property on the real store: the final state is the result of some serial execution."""
    outs = K.serial_outcomes(init, ops)
    if any(f == fin for _, f in outs):
        return []
    susp = any(o[0] == "edit" and len(o[1]) > 1 for o in ops)
    if store == "sqlite" and susp and any(o[0] == "set_state" for o in ops):
        key = "C20/sqlite-set-state-not-under-lock"
    else:
        key = "C20/%s-not-serialisable" % store
    distinct = []
    for _, f in outs:
        if f not in distinct:
            distinct.append(f)
    what = ("%s store: final state %r after the interleaving %r is not the result of any serial order of the "
            "%d operations" % (store, fin, log, len(ops)))
    return [(key, what, dict(store=store, final=repr(fin), serial_outcomes=[repr(f) for f in distinct][:8]))]


def run(ctx):
    ctx.rule = ("2-4 concurrent operations (set / set_state / get / edit_state blocks of 1-3 parts that await "
                "between parts, incl. read-modify-write counters) on a DictState or typed state, driven by random "
                "schedules (start a task / open the next gate, run the loop to quiescence; in a third of the cases a task started "
                "while an edit block is suspended inherits that block's contextvars context) on InMemoryStateStore "
                "and SqliteStateStore; distinct key = (store, op kinds, observed segment order)")
    ctx.prove()
    ctx.partial.append("asyncio.Lock = the FIFO model of Model/StateSchedFifo.v is checked by replay on every run, not "
                       "proved against asyncio; waiter cancellation is covered by an implementation-side monitor only (a writer cancelled "
                       "while waiting for the lock), clear() is not covered")
    ctx.trusted.append("asyncio runs the code between two await points atomically (single-threaded event loop)")
    S.check_pools()
    for nme in ("n",):
        for t in ({}, [], "x", 1, 1.5, True, None, S.DictState()):
            if hasattr(t, nme):
                raise core.CheckError("statesched: key %r is an attribute of %r" % (nme, type(t)))
    locks = K.source_locks() or dict(memory=[True] * 4, sqlite=[False, True, True, True])
    rng = random.Random(ctx.seed * 29 + 11)
    dbdir = S.fast_scratch(ctx)
    env = S.Env(dbdir)
    n = ctx.n(160, 3000)
    exprs, meta, fails = [], [], []
    cov = dict(suspended_edit_with_other_writer=0, waiter_blocked_on_lock=0, set_state_during_edit=0,
               rmw_counter=0, interleaved_logs=0, typed_cases=0, failing_ops=0, three_or_more_tasks=0)
    try:
        for i in range(n):
            init, ops, sched = K.gen_case(rng, i)
            cls = S.BY_CHAIN[tuple(init[0])]
            runs = {}
            inh = (i % 3 == 1)      # tasks started while an edit block is suspended inherit that block's contextvars
            try:
                runs["memory"] = K.run_real(lambda: InMemoryStateStore(cls()), init, ops, sched, inherit=inh)
                runs["sqlite"] = K.run_real(lambda: env.fresh_sql(cls)[0], init, ops, sched, inherit=inh)
            except K.NeverFinished as ex:
                # under the deterministic loop every operation of every schedule finishes on the unchanged tree
                ctx.violation("C20: operations %s of a schedule never finish on the %s store (a deadlock, or store work handed to "
                              "a thread, outside the store lock's reach and outside what the schedule driver can order): the "
                              "atomicity statement cannot be evaluated on this store any more"
                              % (ex.args[0], "sqlite" if "memory" in runs else "memory"),
                              dict(kind="implementation-monitor", suite="statesched", initial=S.jsonable(init),
                                   ops=[repr(o)[:200] for o in ops], schedule=list(sched), pending=ex.args[0],
                                   theorem=THEOREMS), found_input=False)
                break
            for store in ("memory", "sqlite"):
                log, fin, outcome, fifo = runs[store]
                exprs.append(K.case_expr(store, locks[store], init, ops, log, fin))
                meta.append((store, init, ops, sched, log))
                exprs.append(K.case_expr(store, locks[store], init, ops, log, fin, fifo=fifo))
                meta.append((store + " (FIFO-lock model, schedule = pokes + hand-overs %r)" % (fifo,), init, ops, sched, log))
                ctx.count(1, (store, tuple(o[0] + (str(len(o[1])) if o[0] == "edit" else "") for o in ops), tuple(log)))
                for key, what, detail in judge(store, init, ops, log, fin):
                    fails.append((key, what, detail, store, init, ops, sched, log))
            measure(cov, init, ops, sched, runs)
            if i < 3:
                ctx.sample(S.jsonable(dict(initial=init, ops=ops, driver_schedule=sched,
                                           memory_segment_order=runs["memory"][0],
                                           sqlite_segment_order=runs["sqlite"][0],
                                           final=runs["memory"][1])), limit=3)
        seen = set()
        for key, what, detail, store, init, ops, sched, log in fails:
            if key in seen:
                continue
            seen.add(key)
            ctx.finding(key, "C20 fails on the real code: " + what,
                        dict(kind="implementation-monitor", store=store, initial=S.jsonable(init), ops=S.jsonable(ops),
                             driver_schedule=sched, observed_segment_order=log, detail=S.jsonable(detail),
                             replay_hint="bin/check C20 --replay <this file> re-runs ops under driver_schedule"))
        # a writer cancelled while it waits for the store lock (monitor only; the interleaving model has no cancellation)
        ncc, waited = ctx.n(40, 400), 0
        for i in range(ncc):
            init, _, _ = K.gen_case(rng, 2 * i + 1)
            cls = S.BY_CHAIN[tuple(init[0])]
            for store, mk in (("memory", lambda: InMemoryStateStore(cls())), ("sqlite", lambda: env.fresh_sql(cls)[0])):
                why, facts = K.cancel_case(rng, mk, init)
                waited += 1 if facts["waited"] else 0
                ctx.count(1, ("cancel", store, facts["b"][0], i))
                if why:
                    ctx.violation("C20 fails on the real code: %s store: %s" % (store, why),
                                  dict(kind="implementation-monitor", store=store, initial=S.jsonable(init),
                                       scenario="edit block A suspended; writer B waits for the lock and is cancelled; writer C; A finishes",
                                       A=S.jsonable(facts["a"]), B=S.jsonable(facts["b"]), C=S.jsonable(facts["c"])))
                    break
        ctx.programs += 2 * ncc
        ctx.suite("statesched.cancelled_waiter", cases=2 * ncc, waiters_cancelled_while_waiting=waited)
        ctx.require_coverage("statesched.cancelled_waiter", "waiters_cancelled_while_waiting", waited, 20)
    finally:
        env.close()
        shutil.rmtree(dbdir, ignore_errors=True)
    res = ctx.run_cases("statesched", K.header(), exprs, shard=25)
    bad = [i for i, z in enumerate(res) if z != 0]
    ctx.disagreements += len(bad)
    ctx.disagreements_checked = len(bad)
    ctx.programs += len(exprs)
    ctx.suite("statesched", cases=len(exprs), disagreements=len(bad), monitor_failures=len(fails),
              locks=S.jsonable(locks), **cov)
    for k in ("suspended_edit_with_other_writer", "waiter_blocked_on_lock", "set_state_during_edit", "rmw_counter",
              "typed_cases", "three_or_more_tasks"):
        ctx.require_coverage("statesched", k, cov[k], 5)
    ctx.require_coverage("statesched", "interleaved_logs", cov["interleaved_logs"], 2)
    if bad and not fails:
        i = bad[0]
        store, init, ops, sched, log = meta[i]
        ctx.violation("model/implementation disagreement in suite statesched (no property-level failing input found)",
                      dict(suite="statesched", theorem=THEOREMS, code=res[i], store=store, initial=S.jsonable(init),
                           ops=S.jsonable(ops), driver_schedule=sched, observed_segment_order=log,
                           coq_expr=exprs[i][:3000],
                           code_meaning="1: under the observed segment order the model does not finish every task "
                                        "(a task ran while the model has it waiting for the lock); 2: final state differs "
                                        "(even cases: guard-lock model on the observed segment order; odd cases: FIFO-lock "
                                        "model on the driver's pokes + hand-overs)"),
                      found_input=False)
    elif bad:
        ctx.notes.append("%d model/implementation disagreements accompany the monitor failures" % len(bad))


def measure(cov, init, ops, sched, runs):
    log = runs["memory"][0]
    multi = [i for i, o in enumerate(ops) if o[0] == "edit" and len(o[1]) > 1]
    writers = [i for i, o in enumerate(ops) if o[0] != "get"]
    if init[0] != [0]:
        cov["typed_cases"] += 1
    if len(ops) >= 3:
        cov["three_or_more_tasks"] += 1
    if any(r[2].get(i) != "ok" for r in runs.values() for i in range(len(ops))):
        cov["failing_ops"] += 1
    if any(o[0] == "edit" and any(e[0] == "add" for p in o[1] for e in p) for o in ops):
        cov["rmw_counter"] += 1
    # was another writer started (driver schedule) while a multi-part edit was suspended?
    started, opened = set(), {}
    for i in sched:
        if i not in started:
            started.add(i)
            susp = [m for m in multi if m in started and m != i and opened.get(m, 0) < len(ops[m][1]) - 1]
            if susp and i in writers:
                cov["suspended_edit_with_other_writer"] += 1
                if ops[i][0] == "set_state":
                    cov["set_state_during_edit"] += 1
                cov["waiter_blocked_on_lock"] += 1
                break
        elif i in multi:
            opened[i] = opened.get(i, 0) + 1
    slog = runs["sqlite"][0]
    for lg in (log, slog):
        seen, inter = [], False
        for t in lg:
            if t in seen and seen[-1] != t:
                inter = True
            seen.append(t)
        if inter:
            cov["interleaved_logs"] += 1
            break


def replay(ctx, path):
    rec = json.load(open(path))
    print(json.dumps(rec, indent=1)[:3000])
    if "ops" in rec and "driver_schedule" in rec:
        ops = [_retuple(o) for o in rec["ops"]]
        init = (rec["initial"][0], rec["initial"][1])
        cls = S.BY_CHAIN[tuple(init[0])]
        dbdir = S.fast_scratch(ctx)
        env = S.Env(dbdir)
        try:
            for store, mk in (("memory", lambda: InMemoryStateStore(cls())), ("sqlite", lambda: env.fresh_sql(cls)[0])):
                log, fin, outcome, _ = K.run_real(mk, init, ops, rec["driver_schedule"])
                print("re-execution now on %s: segment order %r final %r" % (store, log, fin))
                for key, what, _ in judge(store, init, ops, log, fin):
                    ctx.finding(key, "C20 fails on the real code (replay): " + what, dict(kind="replay", source=path))
        finally:
            env.close()
            shutil.rmtree(dbdir, ignore_errors=True)
    ctx.prove()


def _retuple(o):
    o = list(o)
    if o[0] == "edit":
        o[1] = [[tuple(e) for e in part] for part in o[1]]
    return tuple(o)
