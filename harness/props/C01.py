"""C01 — A step never runs more invocations at once than its worker limit."""
import random

from props._engine_common import run_l1
from suites import engine as E, engine_specs as S
from workflows.events import StepStateChanged
from workflows.runtime.types.commands import CommandRunWorker

THEOREMS = "C01_every_tick_preserves / C01_started_invocation_holds_slot / C01_slot_released_only_by_own_result"


def cap_ok(state):
    out = []
    for n, w in state.workers.items():
        ids = [ip.worker_id for ip in w.in_progress]
        if len(ids) > w.config.num_workers:
            out.append("step %s has %d in_progress > num_workers=%d" % (n, len(ids), w.config.num_workers))
        if len(set(ids)) != len(ids):
            out.append("step %s has duplicate worker ids %s" % (n, ids))
        if any(not (0 <= i < w.config.num_workers) for i in ids):
            out.append("step %s has worker id outside [0,%d): %s" % (n, w.config.num_workers, ids))
    return out


def l1_monitor(rec):
    if rec[0] == "rebuild-error":
        return []
    if rec[0] != "tick":
        return cap_ok(rec[2])
    _, before, t, after, cmds, now = rec
    out = cap_ok(after)
    for c in cmds:
        if isinstance(c, CommandRunWorker):
            ids = [ip.worker_id for ip in after.workers[c.step_name].in_progress]
            if c.id not in ids:
                out.append("CommandRunWorker(%s, id=%d) not in in_progress %s" % (c.step_name, c.id, ids))
    started = [(c.step_name, c.id) for c in cmds if isinstance(c, CommandRunWorker)]
    twice = sorted({k for k in started if started.count(k) > 1})
    if twice:
        out.append("one tick started two invocations on the same slot: CommandRunWorker issued twice for %s" % (twice,))
    return out


def l2_monitor(spec, rec, obs):
    """started-and-unfinished bodies per step <= num_workers; RUNNING state changes carry distinct
    in-range slots between RUNNING and NOT_RUNNING."""
    out = []
    nw = {n: s.get("num_workers", 4) for n, s in spec["steps"].items()}
    for n, h in spec.get("handlers", {}).items():
        nw[n] = 4
    live = {}
    peak = {}
    for r in rec.log:
        if r["kind"] == "enter":
            live[r["step"]] = live.get(r["step"], 0) + 1
            peak[r["step"]] = max(peak.get(r["step"], 0), live[r["step"]])
            if live[r["step"]] > nw[r["step"]]:
                out.append("step %s: %d bodies running at once > num_workers=%d" % (r["step"], live[r["step"]], nw[r["step"]]))
        elif r["kind"] == "exit":
            live[r["step"]] -= 1
    active = {}
    for ev in obs.stream:
        if isinstance(ev, StepStateChanged) and ev.worker_id != "<enqueued>":
            k = int(ev.worker_id)
            a = active.setdefault(ev.name, set())
            if ev.step_state.value == "running":
                if not (0 <= k < nw[ev.name]):
                    out.append("step %s RUNNING on slot %d outside [0,%d)" % (ev.name, k, nw[ev.name]))
                if k in a:
                    out.append("step %s RUNNING twice on slot %d" % (ev.name, k))
                a.add(k)
            elif ev.step_state.value == "not_running":
                a.discard(k)
    return out, peak


def run(ctx):
    ctx.rule = ("L1: random reachable reducer histories (2-6 steps, num_workers 1..4, retry policies, waiters, "
                "collect re-runs, targeted sends, resume/rebuild ops, 15% malformed), commands fed back as ticks; "
                "L2: generated fan-out/retry/collect workflows run by the real engine under virtual time with "
                "gate-driven completion orders; distinct key = history index with >5 ops / (template, seed, peak "
                "concurrency)")
    ctx.prove()
    run_l1(ctx, ctx.n(160, 4000), l1_monitor, THEOREMS)
    rng = random.Random(ctx.seed * 31 + 5)
    n2 = ctx.n(150, 4000)
    fails, at_cap, stuck = [], 0, 0
    for i in range(n2):
        seed = rng.randrange(1 << 30)
        tmpl = S.TEMPLATES[i % len(S.TEMPLATES)]
        spec, rec, obs = E.run_case(tmpl, seed)
        why, peak = l2_monitor(spec, rec, obs)
        if obs.stuck:
            stuck += 1
        nw = {n: s.get("num_workers", 4) for n, s in spec["steps"].items()}
        if any(peak.get(n, 0) == nw[n] and nw[n] > 1 for n in nw):
            at_cap += 1
        ctx.count(1, ("l2", tmpl.__name__, tuple(sorted(peak.items())), len(rec.log)))
        if i < 2:
            ctx.sample(dict(kind="l2-run", template=tmpl.__name__, seed=seed, peak_concurrency=peak,
                            num_workers=nw, actions=[str(a) for a in obs.actions[:6]]), limit=8)
        for w in why:
            fails.append(dict(template=tmpl.__name__, seed=seed, why=w, actions=[str(a) for a in obs.actions]))
    ctx.programs += n2
    ctx.suite("engine", runs=n2, runs_reaching_worker_limit=at_cap, stuck=stuck, failures=len(fails))
    ctx.require_coverage("engine", "runs_reaching_worker_limit", at_cap, 5)
    for f in fails[:3]:
        ctx.violation("C01 fails on the real engine: %s" % f["why"],
                      dict(kind="implementation-monitor/L2", input=f,
                           replay_hint="suites.engine.run_case(engine_specs.<template>, seed) reproduces the run"))
    # the run-loop theorems (C01_run_loop_*) rest on Model/Runner.v: tie it to _ControlLoopRunner
    from props._engine_common import run_runnerdiff
    run_runnerdiff(ctx, ctx.n(60, 1500), 'C01_run_loop_in_flight_bounded / C01_run_loop_in_flight_holds_slot')


def replay(ctx, path):
    import json
    print(json.dumps(json.load(open(path)), indent=1)[:4000])
    run(ctx)
