"""C10 — A waiting step resumes once, with a matching event or a timeout."""
import random
from collections import Counter

from props._engine_common import run_l1
from props.C02 import matches, pending, sameev
from suites import engine as E, engine_specs as S
from suites.wfevents import IR
from workflows.runtime.types.commands import CommandPublishEvent, CommandScheduleWaiterTimeout
from workflows.runtime.types.results import AddWaiter
from workflows.runtime.types.ticks import TickAddEvent, TickStepResult, TickWaiterTimeout

THEOREMS = "C10_waiters_after_event / C10_one_replay_per_resolution / C10_timeout_after_resolution_is_noop"


def load(w):
    return len(w.queue) + len(w.in_progress)


def l1_monitor(rec):
    if rec[0] != "tick":
        return []
    _, before, t, after, cmds, now = rec
    out = []
    if isinstance(t, TickAddEvent):
        for n, b in before.workers.items():
            a = after.workers[n]
            tgt = t.step_name is None or t.step_name == n
            newly = 0
            for w, w2 in zip(b.collected_waiters, a.collected_waiters):
                if pending(w):
                    if not sameev(w.resolved_event, w2.resolved_event) or w.timed_out != w2.timed_out:
                        out.append("step %s: waiter %s with a pending replay was resolved again" % (n, w.waiter_id))
                elif w2.resolved_event is not None:
                    newly += 1
                    if not (tgt and matches(t.event, w) and sameev(w2.resolved_event, t.event)):
                        out.append("step %s: waiter %s resolved with an event that does not match its type/"
                                   "requirements" % (n, w.waiter_id))
            if newly and load(a) != load(b) + newly:
                out.append("step %s: %d waiters resolved but %d replays admitted" % (n, newly, load(a) - load(b)))
    elif isinstance(t, TickWaiterTimeout) and t.step_name in before.workers:
        b, a = before.workers[t.step_name], after.workers[t.step_name]
        w = next((x for x in b.collected_waiters if x.waiter_id == t.waiter_id), None)
        if w is not None and w.resolved_event is not None and load(a) != load(b):
            out.append("timeout tick replayed step %s although waiter %s was already resolved" % (t.step_name, t.waiter_id))
    elif isinstance(t, TickStepResult):
        b = before.workers[t.step_name]
        from workflows.runtime.types.results import DeleteWaiter, StepWorkerResult
        completed = any(isinstance(r, StepWorkerResult) for r in t.result)
        stopped = any(isinstance(r, StepWorkerResult) and type(r.result).__name__ in ("StopEvent", "MyStop") for r in t.result)
        for r in t.result:
            if isinstance(r, DeleteWaiter) and not completed and not stopped:
                # the step has not completed (it is suspended in a later wait, or it failed and may be retried): the
                # consumed waiter must stay, otherwise the replay registers and publishes it a second time
                had = any(x.waiter_id == r.waiter_id for x in b.collected_waiters)
                readded = any(isinstance(q, AddWaiter) and q.waiter_id == r.waiter_id for q in t.result)
                has = any(x.waiter_id == r.waiter_id for x in after.workers[t.step_name].collected_waiters)
                if had and not has and not readded:
                    out.append("waiter %s of step %s was deleted although the step has not completed (its replay will "
                               "register it again)" % (r.waiter_id, t.step_name))
        for r in t.result:
            if isinstance(r, AddWaiter):
                existed = any(x.waiter_id == r.waiter_id for x in b.collected_waiters)
                nt = sum(1 for c in cmds if isinstance(c, CommandScheduleWaiterTimeout) and c.waiter_id == r.waiter_id)
                npub = sum(1 for c in cmds if isinstance(c, CommandPublishEvent) and r.waiter_event is not None
                           and sameev(c.event, r.waiter_event))
                want_t = 0 if existed or r.timeout is None else 1
                want_p = 0 if existed or r.waiter_event is None else 1
                if nt != want_t:
                    out.append("waiter %s: %d timeouts scheduled, expected %d" % (r.waiter_id, nt, want_t))
                if npub != want_p:
                    out.append("waiter %s: waiter_event published %d times, expected %d" % (r.waiter_id, npub, want_p))
    return out


def l2_monitor(spec, rec, obs):
    out = []
    res = Counter()
    for r in rec.log:
        if r["kind"] in ("wait-result", "wait-timeout"):
            res[(r["step"], r["i"], str(r.get("want", r.get("wid"))))] += 1
        if r["kind"] == "wait-result":
            ty, _, data = r["got"]
            if ty != r["want"] or any(data.get(k) != v for k, v in r["reqs"].items()):
                out.append("wait_for_event returned %s %s which does not satisfy %s %s" % (ty, data, r["want"], r["reqs"]))
    for k, c in res.items():
        if c > 1 and spec.get("two_waits") is None:
            out.append("step %s input i=%s resumed from its wait %d times" % (k[0], k[1], c))
    if spec.get("two_waits") is not None:
        # two sequential waits: a replay passes the first (already answered) wait again, so count completions instead:
        # each invocation is entered at most 3 times (start, after 1st answer, after 2nd answer) + duplicates never add one
        ent = Counter(r["i"] for r in rec.log if r["kind"] == "enter" and r["step"] == "b_two")
        for i, c in ent.items():
            if c > 3:
                out.append("step b_two input i=%s was entered %d times for two waits (a consumed waiter was registered again)" % (i, c))
        nir = sum(1 for e in obs.stream if isinstance(e, IR))
        if nir > 2 * spec["two_waits"]:
            out.append("waiter_event published %d times for %d waiters" % (nir, 2 * spec["two_waits"]))
        return out, res
    n = sum(1 for r in rec.log if r["kind"] == "send" and r["ev"] == "T1")
    script = spec["steps"]["b_wait"]["script"]
    if script[0][5] is not None:
        nir = sum(1 for e in obs.stream if isinstance(e, IR))
        if nir > n or (obs.done and obs.exception is None and nir != n):
            out.append("waiter_event published %d times for %d waiters" % (nir, n))
    return out, res


def run(ctx):
    ctx.rule = ("L1: random reachable reducer histories with waiters (requirements, timeouts, duplicate responses, "
                "timeouts after resolution, re-registration, serialize/resume ops); L2: generated wait workflows on "
                "the real engine under virtual time (responses in any order, duplicated, before the waiter exists; "
                "timeouts; snapshots of runs with waiting steps, restored after 0-2 extra serialization round trips, then given "
                "non-matching and matching events); distinct key = history index with >5 ops / (seed, resumption counts)")
    ctx.prove()
    run_l1(ctx, ctx.n(160, 4000), l1_monitor, THEOREMS, need=("waiter_timeout_scheduled", "tick_TickWaiterTimeout"))
    rng = random.Random(ctx.seed * 41 + 17)
    n2 = ctx.n(150, 4000)
    fails, timeouts, results, dups = [], 0, 0, 0
    for i in range(n2):
        seed = rng.randrange(1 << 30)
        spec, rec, obs = E.run_case(S.twowaits if i % 4 == 3 else S.waitfan, seed)
        why, res = l2_monitor(spec, rec, obs)
        timeouts += sum(1 for r in rec.log if r["kind"] == "wait-timeout")
        results += sum(1 for r in rec.log if r["kind"] == "wait-result")
        ext = [r["k"] for r in rec.log if r["kind"] == "external"]
        dups += 1 if len(set(ext)) < len(ext) else 0
        ctx.count(1, ("l2", seed % 1000, tuple(sorted(res.items(), key=str)), len(rec.log)))
        if i < 3:
            ctx.sample(dict(kind="l2-run", template="waitfan", seed=seed, externals=ext,
                            resumptions={str(k): v for k, v in res.items()},
                            actions=[str(a) for a in obs.actions[:6]]), limit=8)
        for w in why:
            fails.append(dict(template="twowaits" if i % 4 == 3 else "waitfan", seed=seed, why=w, actions=[str(a) for a in obs.actions]))
    ctx.programs += n2
    ctx.suite("engine", runs=n2, wait_results=results, wait_timeouts=timeouts, runs_with_duplicate_response=dups,
              failures=len(fails))
    ctx.require_coverage("engine", "wait_results", results, 20)
    ctx.require_coverage("engine", "wait_timeouts", timeouts, 5)
    ctx.require_coverage("engine", "runs_with_duplicate_response", dups, 5)
    # waiters across serialization: runs snapshotted (0-2 extra round trips) while steps wait with requirements, resumed,
    # then given a non-matching event of the awaited type before the matching one
    import vloop
    from props._waitsnap import _wait_snapshot_resume
    n3, snaps, wrong = ctx.n(60, 1500), 0, 0
    for i in range(n3):
        seed = rng.randrange(1 << 30)
        r = vloop.run(_wait_snapshot_resume(seed))
        if not r.get("snapshot"):
            continue
        snaps += 1
        wrong += 1 if any("wrong" in x for x in r["remaining"]) else 0
        ctx.count(1, ("waitsnap", seed % 1000, r["delivered_before"], tuple(r["remaining"]), r["round_trips"]))
        for x in r["rec"].log:
            if x["kind"] == "wait-result":
                got = x["got"][2]
                bad = {k: v for k, v in x["reqs"].items() if got.get(k) != v}
                if bad:
                    fails.append(dict(template="waitflow snapshot/resume", seed=seed, actions=r["remaining"],
                                      why="after a snapshot (%d extra serialization round trips) and resume, the waiter of "
                                          "invocation %s with requirements %s was resolved by %s" % (r["round_trips"], x["i"], x["reqs"], got)))
        if not r["obs"].done or r["obs"].exception is not None:
            fails.append(dict(template="waitflow snapshot/resume", seed=seed, actions=r["remaining"],
                              why="a run resumed with waiting steps (%d extra serialization round trips) did not complete "
                                  "although every matching event was delivered: done=%s exception=%r"
                                  % (r["round_trips"], r["obs"].done, r["obs"].exception)))
    ctx.programs += n3
    ctx.suite("engine.waiters_across_snapshot", attempts=n3, snapshots=snaps, non_matching_event_after_resume=wrong)
    ctx.require_coverage("engine.waiters_across_snapshot", "non_matching_event_after_resume", wrong, 10)
    for f in fails[:3]:
        ctx.violation("C10 fails on the real engine: %s" % f["why"],
                      dict(kind="implementation-monitor/L2", input=f,
                           replay_hint="suites.engine.run_case(engine_specs.waitfan, seed) reproduces the run"))
    # the run-loop theorem (C10_run_loop_conserves_waiter_timeouts) rests on Model/Runner.v: tie it to _ControlLoopRunner
    from props._engine_common import run_runnerdiff
    run_runnerdiff(ctx, ctx.n(60, 1500), 'C10_run_loop_conserves_waiter_timeouts')


def replay(ctx, path):
    import json
    print(json.dumps(json.load(open(path)), indent=1)[:4000])
    run(ctx)
