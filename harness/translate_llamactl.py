"""Translator part for C37 (llamactl): three shape facts of the source, fail closed.

  llamactl_switch_clears_profile      EnvService.switch_environment has the top-level statement
                                      self.config_manager().set_settings_current_profile(None)
  llamactl_env_add_clears_profile     EnvService.create_or_update_environment has it
  llamactl_env_delete_clears_profile  ConfigManager.delete_environment, inside the branch taken when
                                      the deleted environment is the current one, removes the
                                      `current_profile` settings row
plus the default environment URL and the literal SQL of get_profile (the lookup must be by
name AND api_url).  Anything that does not have the expected shape raises."""
import ast
import re


class Err(Exception):
    pass


CFG = "packages/llamactl/src/llama_agents/cli/config/_config.py"
ENV = "packages/llamactl/src/llama_agents/cli/config/env_service.py"
SCHEMA = "packages/llamactl/src/llama_agents/cli/config/schema.py"


def _cls(mod, name):
    for n in mod.body:
        if isinstance(n, ast.ClassDef) and n.name == name:
            return n
    raise Err("class %s not found" % name)


def _fn(cls, name):
    for n in cls.body:
        if isinstance(n, (ast.FunctionDef, ast.AsyncFunctionDef)) and n.name == name:
            return n
    raise Err("method %s.%s not found" % (cls.name, name))


def _is_clear_call(stmt):
    """`<anything>.set_settings_current_profile(None)` as an expression statement."""
    if not (isinstance(stmt, ast.Expr) and isinstance(stmt.value, ast.Call)):
        return False
    c = stmt.value
    if not (isinstance(c.func, ast.Attribute) and c.func.attr == "set_settings_current_profile"):
        return False
    if len(c.args) != 1 or c.keywords:
        raise Err("set_settings_current_profile called with an unexpected argument list")
    a = c.args[0]
    if not (isinstance(a, ast.Constant) and a.value is None):
        raise Err("set_settings_current_profile called with a non-None argument in an environment operation")
    return True


def _mentions_clear(node):
    return any(isinstance(n, ast.Attribute) and n.attr == "set_settings_current_profile" for n in ast.walk(node))


def _top_level_clear(fn):
    """True when the clearing call is an unconditional top-level statement of the function; a
    clearing call anywhere else (inside an if/try/loop) is an unknown shape."""
    found = False
    for stmt in fn.body:
        if _is_clear_call(stmt):
            found = True
        elif _mentions_clear(stmt):
            raise Err("%s: conditional/nested set_settings_current_profile — unknown shape" % fn.name)
    return found


def _sql_of(stmt):
    """SQL text of `conn.execute("...", ...)` statement, whitespace-normalised lower case, else None."""
    if not (isinstance(stmt, ast.Expr) and isinstance(stmt.value, ast.Call)):
        return None
    c = stmt.value
    if not (isinstance(c.func, ast.Attribute) and c.func.attr == "execute" and c.args):
        return None
    a = c.args[0]
    if not (isinstance(a, ast.Constant) and isinstance(a.value, str)):
        raise Err("execute() with a non-literal SQL string")
    return re.sub(r"\s+", " ", a.value.strip().lower())


def _norm(sql):
    return re.sub(r"\s+", " ", sql.strip().lower())


def extract(src):
    """src(rel) -> source text.  Returns the Coq text."""
    env = ast.parse(src(ENV))
    es = _cls(env, "EnvService")
    sw = _top_level_clear(_fn(es, "switch_environment"))
    ad = _top_level_clear(_fn(es, "create_or_update_environment"))
    de = _fn(es, "delete_environment")
    if len(de.body) != 1 or ast.unparse(de.body[0]) != "return self.config_manager().delete_environment(api_url)":
        raise Err("EnvService.delete_environment: expected a plain delegation to ConfigManager.delete_environment")

    cfg = ast.parse(src(CFG))
    cm = _cls(cfg, "ConfigManager")
    dele = _fn(cm, "delete_environment")
    branch = [n for n in ast.walk(dele) if isinstance(n, ast.If) and ast.unparse(n.test) == "row and row[0] == api_url"]
    if len(branch) != 1 or branch[0].orelse:
        raise Err("ConfigManager.delete_environment: expected exactly one `if row and row[0] == api_url:` without else")
    resets, clears = False, False
    for stmt in branch[0].body:
        if _is_clear_call(stmt):
            clears = True
            continue
        sql = _sql_of(stmt)
        if sql is None:
            raise Err("ConfigManager.delete_environment: unexpected statement in the current-environment branch: "
                      + ast.unparse(stmt)[:80])
        if sql == _norm("INSERT OR REPLACE INTO settings (key, value) VALUES ('current_environment_api_url', ?)"):
            args = stmt.value.args
            if len(args) != 2 or ast.unparse(args[1]) != "(DEFAULT_ENVIRONMENT.api_url,)":
                raise Err("delete_environment: current environment is not reset to DEFAULT_ENVIRONMENT.api_url")
            resets = True
        elif sql == _norm("DELETE FROM settings WHERE key = 'current_profile'"):
            clears = True
        else:
            raise Err("ConfigManager.delete_environment: unexpected SQL in the current-environment branch: " + sql)
    if not resets:
        raise Err("ConfigManager.delete_environment: the current-environment branch does not reset the environment")
    # a current_profile statement outside that branch would be a different behaviour: unknown shape
    for n in ast.walk(dele):
        if isinstance(n, ast.Constant) and isinstance(n.value, str) and "current_profile" in n.value:
            if not any(n in list(ast.walk(b)) for b in branch[0].body):
                raise Err("ConfigManager.delete_environment: current_profile touched outside the current-environment branch")

    gp = _fn(cm, "get_profile")
    sqls = [_norm(n.value) for n in ast.walk(gp) if isinstance(n, ast.Constant) and isinstance(n.value, str)
            and n.value.strip().upper().startswith("SELECT")]
    want = _norm("SELECT id, name, api_url, project_id, api_key, api_key_id, device_oidc FROM profiles "
                 "WHERE name = ? AND api_url = ?")
    by_both = sqls == [want]

    sch = ast.parse(src(SCHEMA))
    url = None
    for n in sch.body:
        if isinstance(n, ast.Assign) and len(n.targets) == 1 and isinstance(n.targets[0], ast.Name) \
                and n.targets[0].id == "DEFAULT_ENVIRONMENT" and isinstance(n.value, ast.Call):
            for kw in n.value.keywords:
                if kw.arg == "api_url" and isinstance(kw.value, ast.Constant) and isinstance(kw.value.value, str):
                    url = kw.value.value
    if url is None or not all(32 <= ord(c) < 127 for c in url) or '"' in url:
        raise Err("DEFAULT_ENVIRONMENT.api_url not found as a plain string literal")

    b = lambda x: "true" if x else "false"  # noqa: E731
    return "\n".join([
        "(* from %s, %s *)" % (ENV, CFG),
        "Definition llamactl_switch_clears_profile : bool := %s." % b(sw),
        "Definition llamactl_env_add_clears_profile : bool := %s." % b(ad),
        "Definition llamactl_env_delete_clears_profile : bool := %s." % b(clears),
        "Definition llamactl_get_profile_by_name_and_url : bool := %s." % b(by_both),
        'Definition llamactl_default_environment_url : string := "%s".' % url,
    ])
