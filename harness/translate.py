"""Fail-closed translator: regenerates coq/theories/Generated.v from /repo's current sources.

Only constants / tables / ordered dispatch lists are translated (the executable models are
hand-written and tied by correspondence).  Any source shape that is not recognised raises —
the check then reports a broken proof obligation instead of silently using a default.
Generated.v is rewritten only when its content changes (keeps `make` incremental)."""
import ast
import os
import re
import sys

REPO = os.environ.get("VERIF_REPO", "/repo")
HARNESS = os.path.dirname(os.path.abspath(__file__))
OUT = os.path.join(os.path.dirname(HARNESS), "coq", "theories", "Generated.v")


class TranslateError(Exception):
    pass


def src(rel):
    p = os.path.join(REPO, rel)
    if not os.path.exists(p):
        raise TranslateError("missing source file " + rel)
    return open(p).read()


def module(rel):
    return ast.parse(src(rel), filename=rel)


def find_class(mod, name):
    for n in ast.walk(mod):
        if isinstance(n, ast.ClassDef) and n.name == name:
            return n
    raise TranslateError("class %s not found" % name)


def find_func(node, name):
    for n in ast.walk(node):
        if isinstance(n, (ast.FunctionDef, ast.AsyncFunctionDef)) and n.name == name:
            return n
    raise TranslateError("function %s not found" % name)


def module_assign(mod, name):
    for n in mod.body:
        if isinstance(n, ast.Assign) and len(n.targets) == 1 and isinstance(n.targets[0], ast.Name) \
                and n.targets[0].id == name:
            return n.value
        if isinstance(n, ast.AnnAssign) and isinstance(n.target, ast.Name) and n.target.id == name:
            return n.value
    raise TranslateError("module constant %s not found" % name)


def coq_string(s):
    if not all(32 <= ord(c) < 127 for c in s):
        raise TranslateError("non-ascii constant %r" % s)
    return '"' + s.replace('"', '""') + '"'


def zlit(n):
    return "(%d)" % n if n < 0 else "%d" % n


PARTS = []


def part(fn):
    PARTS.append(fn)
    return fn


# ---------------------------------------------------------------------------------------------
@part
def retry_policy_part():
    """retry_policy.py: which wait strategies guard the float power against OverflowError, the
    comparison operator of stop_after_attempt, and the index expression of wait_chain."""
    rel = "packages/llama-index-workflows/src/workflows/retry_policy.py"
    mod = module(rel)
    out = ["(* from %s *)" % rel]
    for cls in ("wait_exponential", "wait_exponential_jitter", "wait_random_exponential"):
        call = find_func(find_class(mod, cls), "__call__")
        guarded = False
        for n in ast.walk(call):
            if isinstance(n, ast.Try):
                for h in n.handlers:
                    if isinstance(h.type, ast.Name) and h.type.id == "OverflowError":
                        guarded = True
        out.append("Definition %s_catches_overflow : bool := %s." % (cls, "true" if guarded else "false"))
    call = find_func(find_class(mod, "stop_after_attempt"), "__call__")
    ret = [n for n in ast.walk(call) if isinstance(n, ast.Return)]
    if len(ret) != 1 or not isinstance(ret[0].value, ast.Compare) or len(ret[0].value.ops) != 1:
        raise TranslateError("stop_after_attempt.__call__: unexpected shape")
    op = type(ret[0].value.ops[0]).__name__
    left = ast.unparse(ret[0].value.left)
    right = ast.unparse(ret[0].value.comparators[0])
    out.append("Definition stop_after_attempt_cmp : string := %s."
               % coq_string("%s %s %s" % (left, op, right)))
    call = find_func(find_class(mod, "wait_chain"), "__call__")
    idx = None
    for n in ast.walk(call):
        if isinstance(n, ast.Assign) and isinstance(n.targets[0], ast.Name) and n.targets[0].id == "idx":
            idx = ast.unparse(n.value)
    if idx is None:
        raise TranslateError("wait_chain.__call__: idx assignment not found")
    out.append("Definition wait_chain_index_expr : string := %s." % coq_string(idx))
    return "\n".join(out)


@part
def sqlite_migrations_part():
    """C28: _store/sqlite/migrations/*.sql (sorted by file name, version from the first line) and
    migrate.py's _SCHEMA_MIGRATIONS_DDL as abstract schema operations (parser: translate_sql.py).
    An unrecognised statement does not abort the whole translation: the data definitions are
    replaced by an error marker, so exactly the developments that use them (C28) stop compiling."""
    import translate_sql as TS
    base = "packages/llama-agents-server/src/llama_agents/server/_store"
    out = ["(* from %s/sqlite/migrations/*.sql and sqlite/migrate.py *)" % base, TS.SQL_TYPES]
    try:
        d = os.path.join(REPO, base, "sqlite/migrations")
        if not os.path.isdir(d):
            raise TS.SqlError("missing directory " + d)
        names = sorted(n for n in os.listdir(d) if n.endswith(".sql"))
        if not names:
            raise TS.SqlError("no migration scripts found")
        rows = []
        for n in names:
            text = open(os.path.join(d, n)).read()
            try:
                rows.append("  (%s, %s,\n    %s)" % (zlit(TS.parse_version(text)), TS.cstr(n),
                                                   TS.coq_script(TS.parse_script(text))))
            except TS.SqlError as e:
                raise TS.SqlError("%s: %s" % (n, e))
        ddl = module_assign(module(base + "/sqlite/migrate.py"), "_SCHEMA_MIGRATIONS_DDL")
        if not (isinstance(ddl, ast.Constant) and isinstance(ddl.value, str)):
            raise TS.SqlError("_SCHEMA_MIGRATIONS_DDL is not a string constant")
        ddl_ops = TS.parse_script(ddl.value.replace("schema_migrations", "schema_migrations_"))
        if len(ddl_ops) != 1 or ddl_ops[0][0] != "create_table" or ddl_ops[0][2] != "schema_migrations_":
            raise TS.SqlError("_SCHEMA_MIGRATIONS_DDL: expected one CREATE TABLE schema_migrations")
        out.append("Definition sqlite_migrations : list (Z * string * list Sql.stmt) := [\n%s\n]."
                   % ";\n".join(rows))
        out.append("Definition sqlite_schema_migrations_cols : list Sql.col := [%s]."
                   % "; ".join(TS.coq_col(c) for c in ddl_ops[0][3]))
    except (TS.SqlError, TranslateError) as e:
        out.append("Definition sqlite_migrations_TRANSLATE_ERROR : string := %s."
                   % coq_string(re.sub(r"[^ -~]", "?", str(e))[:300]))
    return "\n".join(out)


@part
def llamactl_part():
    """C37: see translate_llamactl.py (kept in its own module; a failure only withholds the
    llamactl_* definitions, so only the C37 development stops compiling)."""
    import translate_llamactl as TL
    try:
        return TL.extract(src)
    except (TL.Err, TranslateError, SyntaxError) as e:
        return "Definition llamactl_TRANSLATE_ERROR : string := %s." % coq_string(
            re.sub(r"[^ -~]", "?", str(e))[:300])


@part
def dnsid_part():
    """C32: see translate_dnsid.py (a failure only withholds the c32_* definitions, so only the
    C32 development stops compiling)."""
    import translate_dnsid as TD
    try:
        return TD.extract(src)
    except (TD.Err, TranslateError, SyntaxError) as e:
        return "Definition c32_TRANSLATE_ERROR : string := %s." % coq_string(
            re.sub(r"[^ -~]", "?", str(e))[:300])


@part
def statestore_part():
    """C19/C20/C21: see translate_statestore.py (own module; a failure only withholds the
    statestore_* definitions, so only those developments stop compiling)."""
    import translate_statestore as TS
    try:
        return TS.extract(src)
    except (TS.Err, TranslateError, SyntaxError) as e:
        return "Definition statestore_TRANSLATE_ERROR : string := %s." % coq_string(
            re.sub(r"[^ -~]", "?", str(e))[:300])


@part
def archive_part():
    """C33: see translate_archive.py (own module; a failure only withholds the archive_* / backup_*
    definitions, so only the C33 development stops compiling)."""
    import translate_archive as TA
    try:
        return TA.extract(src)
    except (TA.Err, TranslateError, SyntaxError) as e:
        return "Definition archive_TRANSLATE_ERROR : string := %s." % coq_string(
            re.sub(r"[^ -~]", "?", str(e))[:300])


@part
def version_part():
    """C34: see translate_version.py (a failure only withholds the c34_* definitions, so only the
    C34 development stops compiling)."""
    import translate_version as TV
    try:
        return TV.extract(src)
    except (TV.Err, TranslateError, SyntaxError) as e:
        return "Definition c34_TRANSLATE_ERROR : string := %s." % coq_string(
            re.sub(r"[^ -~]", "?", str(e))[:300])


@part
def idle_release_part():
    """C26/C36/C14: see translate_idle.py (own module; a failure only withholds the dbos_*/idle_release_*
    definitions, so only the developments that use them stop compiling)."""
    import translate_idle as TI
    try:
        return TI.extract(src)
    except (TI.Err, TranslateError, SyntaxError) as e:
        return "Definition idle_release_TRANSLATE_ERROR : string := %s." % coq_string(
            re.sub(r"[^ -~]", "?", str(e))[:300])


@part
def handler_status_part():
    """C24: abstract_workflow_store.py — the Status literal (in declaration order) and
    TERMINAL_STATUSES.  A failure only withholds these two definitions (C24 stops compiling)."""
    rel = "packages/llama-agents-server/src/llama_agents/server/_store/abstract_workflow_store.py"
    try:
        mod = module(rel)
        st = module_assign(mod, "Status")
        if not (isinstance(st, ast.Subscript) and isinstance(st.value, ast.Name) and st.value.id == "Literal"
                and isinstance(st.slice, ast.Tuple)
                and all(isinstance(e, ast.Constant) and isinstance(e.value, str) for e in st.slice.elts)):
            raise TranslateError("Status is not Literal[<strings>]")
        statuses = [e.value for e in st.slice.elts]
        tv = module_assign(mod, "TERMINAL_STATUSES")
        if not (isinstance(tv, ast.Call) and isinstance(tv.func, ast.Name) and tv.func.id == "frozenset"
                and len(tv.args) == 1 and isinstance(tv.args[0], (ast.Tuple, ast.List, ast.Set))
                and all(isinstance(e, ast.Constant) and isinstance(e.value, str) for e in tv.args[0].elts)):
            raise TranslateError("TERMINAL_STATUSES is not frozenset((<strings>))")
        terminal = [e.value for e in tv.args[0].elts]
        if len(set(statuses)) != len(statuses) or any(t not in statuses for t in terminal):
            raise TranslateError("TERMINAL_STATUSES is not a subset of Status")
        fn = find_func(mod, "is_terminal_status")
        if ast.unparse(fn.body[-1]) != "return status in TERMINAL_STATUSES":
            raise TranslateError("is_terminal_status: unexpected body")
        return ("(* from %s *)\nDefinition handler_statuses : list string := [%s].\n"
                "Definition handler_terminal_statuses : list string := [%s]."
                % (rel, "; ".join(coq_string(x) for x in statuses), "; ".join(coq_string(x) for x in terminal)))
    except (TranslateError, SyntaxError) as e:
        return "Definition handler_status_TRANSLATE_ERROR : string := %s." % coq_string(
            re.sub(r"[^ -~]", "?", str(e))[:300])


def generate():
    body = ["(* GENERATED by harness/translate.py from /repo — do not edit. *)",
            "From Coq Require Import List ZArith String.", "Import ListNotations.",
            "Open Scope string_scope.", "Open Scope Z_scope.", ""]
    for fn in PARTS:
        body.append(fn())
        body.append("")
    return "\n".join(body)


def main():
    try:
        txt = generate()
    except TranslateError as e:
        print("TRANSLATE-ERROR: %s" % e)
        return 1
    old = open(OUT).read() if os.path.exists(OUT) else None
    if old != txt:
        with open(OUT, "w") as f:
            f.write(txt)
        print("Generated.v rewritten")
    return 0


if __name__ == "__main__":
    sys.exit(main())
