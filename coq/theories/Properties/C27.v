(* C27 — DBOS recovery replays a run to the same execution.
   Statements only; every proof is `exact <lemma>` from Proofs/JournalProofs.v / Proofs/JournalEngine.v.

   Vocabulary (Model/Journal.v): a process lifetime is `exec run prog d s`: a NEW adapter object and an empty control
   loop on database d (only the database survives a process stop), driven by schedule s = any list of
   EDone u (task instance u finishes) / ETmo (the current wait's timer fires) / EWake p (the waiter resumes; p = what
   set.pop() yields in the fresh branch).  Where s ends is where the process stops — so "for all s" is "for all
   completion orders and all stop points".  prog is the deterministic rest of the run (result history -> task keys to
   start, timer armed?, DBOS function id).  l_hist = results handed to the control loop (Some key | None = timed-out
   wait), crud_load = `SELECT task_key ... ORDER BY seq_num`.

   PARTIAL: (1) DBOS itself is absent — "a recovered step returns its recorded output / _durable_time its recorded
   value" is the hypothesis `dbos_memo` of C27_same_ticks_same_reduction; (2) the clause holds only while no wait
   times out in the recorded/replayed part — C27_timeout_divergence_refuted shows the unchanged code diverges
   otherwise (timeouts are not journaled). *)
From Coq Require Import List ZArith Bool PeanoNat.
Import ListNotations.
From WF Require Model.Engine.
From WF Require Import Model.Journal Proofs.JournalProofs Proofs.JournalEngine.
Open Scope Z_scope.

(* One recovered process, every schedule / stop point.  K = the recorded journal, replayable = every recorded key
   is a live task when its turn comes (true for every journal written by this loop without timed-out waits:
   C27_recovery_after_any_number_of_crashes). *)
Theorem C27_replay_same_order_partial :
  forall (run : Z) (prog : list (option Z) -> pinfo) (d0 : db) (K : list Z),
  replayable prog K ->
  rows_enum run d0 K ->
  (forall h live nx, sim prog h = Some (h, live, nx) -> NoDup (map fst live)) ->
  forall s : list ev,
  let st := exec run prog d0 s in
  notmo (firstn (length K) (l_hist st)) = true ->
  (* the replayed part of what the loop observes is the recorded order *)
  firstn (length K) (l_hist st) = map Some (firstn (length (l_hist st)) K)
  (* the journal afterwards = recorded prefix ++ fresh suffix, rows numbered 0..n-1 *)
  /\ crud_load run (l_db st) = K ++ keys_of (skipn (length K) (l_hist st))
  /\ rows_enum run (l_db st) (K ++ keys_of (skipn (length K) (l_hist st)))
  (* the non-determinism fallback branch was never entered *)
  /\ l_fb st = 0%nat
  (* the stale-row purge ran exactly at the replay->fresh transition, once, with the function id of that call *)
  /\ a_purged (l_ad st) = (length K <=? length (l_hist st))%nat
  /\ d_o (l_db st) = ops_after run prog d0 K (length K <=? length (l_hist st))%nat (l_hist st)
  (* and the new journal can be replayed again *)
  /\ (notmo (l_hist st) = true -> replayable prog (K ++ keys_of (skipn (length K) (l_hist st)))).
Proof. exact replay_same_order. Qed.
Print Assumptions C27_replay_same_order_partial.

(* Unconditional (timers or not): the journal only grows by appending, the journal object equals the table, other
   runs' rows are untouched, and no task instance is handed to the control loop twice. *)
Theorem C27_journal_extends_no_double_handout :
  forall (run : Z) (prog : list (option Z) -> pinfo) (d0 : db) (K : list Z),
  rows_enum run d0 K ->
  forall s : list ev,
  let st := exec run prog d0 s in
  exists F : list Z,
    crud_load run (l_db st) = K ++ F
    /\ rows_enum run (l_db st) (K ++ F)
    /\ j_entries (a_j (l_ad st)) = Some (K ++ F)
    /\ (j_idx (a_j (l_ad st)) <= length (K ++ F))%nat
    /\ (forall r', r' <> run -> run_rows r' (l_db st) = run_rows r' d0)
    /\ NoDup (map snd (l_handed st))
    /\ map fst (l_handed st) = keys_of (l_hist st).
Proof. exact recovered_journal_extends. Qed.
Print Assumptions C27_journal_extends_no_double_handout.

(* First start, any number of crashed lifetimes (each an arbitrary schedule without a timed-out wait), then a
   recovery under an arbitrary schedule. *)
Theorem C27_recovery_after_any_number_of_crashes :
  forall (run : Z) (prog : list (option Z) -> pinfo),
  (forall h live nx, sim prog h = Some (h, live, nx) -> NoDup (map fst live)) ->
  forall (ss : list (list ev)) (d : db) (s : list ev),
  rows_enum run d [] ->
  chain_ok run prog d ss = true ->
  let dc := chain_db run prog d ss in
  let K := crud_load run dc in
  let st := exec run prog dc s in
  notmo (firstn (length K) (l_hist st)) = true ->
  firstn (length K) (l_hist st) = map Some (firstn (length (l_hist st)) K)
  /\ crud_load run (l_db st) = K ++ keys_of (skipn (length K) (l_hist st))
  /\ l_fb st = 0%nat
  /\ a_purged (l_ad st) = (length K <=? length (l_hist st))%nat.
Proof. exact recovery_after_crashes. Qed.
Print Assumptions C27_recovery_after_any_number_of_crashes.

(* Stale entries: what purge_stale deletes on ANY table content (rows of this run numbered >= the number of loaded
   entries; operation_outputs rows of this run beyond the current function id), ... *)
Theorem C27_purge_stale_exact :
  forall (run fid : Z) (d : db) (j : journal) (E : list Z),
  j_entries j = Some E -> E <> [] -> j_crud j = true ->
  let d' := j_purge_stale run fid d j in
  (forall r, In r (d_j d') <-> In r (d_j d) /\ ~ (jr_run r = run /\ Z.of_nat (length E) <= jr_seq r))
  /\ (forall o, In o (d_o d') <-> In o (d_o d) /\ ~ (or_run o = run /\ fid < or_fid o)).
Proof. exact purge_stale_spec. Qed.
Print Assumptions C27_purge_stale_exact.

(* ... that wait_for_next_task does it only in a call that finds no expected key, and only in the first such
   call, ... *)
Theorem C27_purge_only_at_transition :
  forall (run fid : Z) (live : list inst) (d : db) (a : adapter),
  let j := j_load run d (a_j a) in
  (j_next_expected j <> None ->
     fst (fst (prologue run fid live d a)) = d /\ a_purged (snd (fst (prologue run fid live d a))) = a_purged a)
  /\ (j_next_expected j = None ->
     a_purged (snd (fst (prologue run fid live d a))) = true
     /\ fst (fst (prologue run fid live d a)) = if a_purged a then d else j_purge_stale run fid d j).
Proof. exact prologue_purge_exact. Qed.
Print Assumptions C27_purge_only_at_transition.

(* ... and that on a single-writer table the journal truncation deletes nothing. *)
Theorem C27_truncate_is_noop_on_single_writer_table :
  forall (run : Z) (d : db) (E : list Z),
  rows_enum run d E -> d_j (crud_truncate_from run (Z.of_nat (length E)) d) = d_j d.
Proof. exact truncate_enum_id. Qed.
Print Assumptions C27_truncate_is_noop_on_single_writer_table.

(* Same completion order + recorded step outputs => same ticks => same reducer state and commands on the replayed
   part; the recovered run continues from the state of the uninterrupted run.  `dbos_memo` (the hypothesis on
   out2/now2) is DBOS's step memoisation: trusted, the library is absent. *)
Theorem C27_same_ticks_same_reduction :
  forall (run : Z) (prog : list (option Z) -> pinfo) (d0 : db) (K : list Z),
  replayable prog K -> rows_enum run d0 K ->
  (forall h live nx, sim prog h = Some (h, live, nx) -> NoDup (map fst live)) ->
  forall s : list ev,
  let st := exec run prog d0 s in
  notmo (firstn (length K) (l_hist st)) = true -> (length K <= length (l_hist st))%nat ->
  forall (out1 out2 : nat -> Z -> Engine.tick) (now1 now2 : nat -> Z),
  (forall i k, (i < length K)%nat -> out2 i k = out1 i k /\ now2 i = now1 i) ->
  forall (P : Engine.policy) (s0 : Engine.state),
  exists fresh : list Z, keys_of (l_hist st) = K ++ fresh /\
  reduce_all P s0 (ticks_from out2 now2 0 (keys_of (l_hist st))) =
    match reduce_all P s0 (ticks_from out1 now1 0 K) with
    | Engine.Err c => Engine.Err c
    | Engine.Ok (sK, csK) =>
        match reduce_all P sK (ticks_from out2 now2 (length K) fresh) with
        | Engine.Err c => Engine.Err c
        | Engine.Ok (s', cs') => Engine.Ok (s', csK ++ cs')
        end
    end.
Proof. exact recovered_run_same_reduction. Qed.
Print Assumptions C27_same_ticks_same_reduction.

(* "... and reaches the same result as an uninterrupted run": past the transition the recovered process is in the
   loop state that ANY process with the same result history is in (take KA = [] for the uninterrupted one): live task
   instances, uid counter, armed timer, journal object and table, replay index, wait mode and purge flag are functions
   of the history alone; what happens next is a function of that state and the environment's schedule. *)
Theorem C27_recovered_state_is_an_uninterrupted_state :
  forall (run : Z) (prog : list (option Z) -> pinfo),
  (forall h live nx, sim prog h = Some (h, live, nx) -> NoDup (map fst live)) ->
  forall dA KA dB KB,
  replayable prog KA -> rows_enum run dA KA -> replayable prog KB -> rows_enum run dB KB ->
  forall sA sB,
  let a := exec run prog dA sA in
  let b := exec run prog dB sB in
  notmo (firstn (length KA) (l_hist a)) = true -> notmo (firstn (length KB) (l_hist b)) = true ->
  l_hist a = l_hist b ->
  (length KA <= length (l_hist a))%nat -> (length KB <= length (l_hist b))%nat ->
  l_live a = l_live b /\ l_next a = l_next b /\ l_tmo a = l_tmo b
  /\ j_entries (a_j (l_ad a)) = j_entries (a_j (l_ad b))
  /\ j_idx (a_j (l_ad a)) = j_idx (a_j (l_ad b))
  /\ l_mode a = l_mode b
  /\ a_purged (l_ad a) = a_purged (l_ad b)
  /\ crud_load run (l_db a) = crud_load run (l_db b)
  /\ l_fb a = l_fb b.
Proof. exact same_history_same_loop_state. Qed.
Print Assumptions C27_recovered_state_is_an_uninterrupted_state.

(* REFUTED without the no-timeout proviso: a wait that timed out is not journaled.  First process: b:0 (key 1) is
   running, the wait times out, the loop starts a:0 (key 0, e.g. a delayed retry); a:0 completes, then b:0 — journal
   [0;1].  Recovered process: b:0's recorded output is there at once, the expected a:0 has not been started yet, the
   adapter falls back to "any task", hands b:0 first and appends it again. *)
Theorem C27_timeout_divergence_refuted :
  exists (prog : list (option Z) -> pinfo) (s1 s2 : list ev),
    let st1 := exec 0 prog db_empty s1 in
    let K := crud_load 0 (l_db st1) in
    let st2 := exec 0 prog (l_db st1) s2 in
    l_hist st1 = [None ; Some 0 ; Some 1] /\ K = [0 ; 1]
    /\ l_hist st2 = [Some 1] /\ l_fb st2 = 1%nat /\ crud_load 0 (l_db st2) = [0 ; 1 ; 1]
    /\ firstn (length K) (l_hist st2) <> map Some (firstn (length (l_hist st2)) K).
Proof. exact timeout_divergence. Qed.
Print Assumptions C27_timeout_divergence_refuted.

(* non-vacuity: a concrete workflow, a crash after the first completion, a recovery with another completion order *)
Example C27_hypotheses_satisfiable :
  replayable e_prog [1]
  /\ rows_enum 0 (l_db (exec 0 e_prog db_empty [EDone 1 ; EWake 1])) [1]
  /\ (let st := exec 0 e_prog (l_db (exec 0 e_prog db_empty [EDone 1 ; EWake 1]))
                  [EDone 0 ; EDone 1 ; EWake 0 ; EWake 1 ; EDone 2 ; EWake 2] in
      l_hist st = [Some 1 ; Some 2] /\ crud_load 0 (l_db st) = [1 ; 2] /\ l_fb st = 0%nat).
Proof. exact (conj e_replayable (conj e_rows e_recovered)). Qed.
Print Assumptions C27_hypotheses_satisfiable.
