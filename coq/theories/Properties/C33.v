(* C33 — Backup archives restore exactly what was backed up.
   Model: Model/Archive.v (create_backup_archive / read_backup_archive over the ordered member list;
   the suffix dispatch, written suffixes, manifest name and password conditions come from
   Generated.v; encryption.py's wire format).  Proofs: Proofs/ArchiveProofs.v.
   YAML, JSON and the AEAD enter as hypotheses, spelled out in each statement. *)
From Coq Require Import List ZArith Bool Ascii String.
Import ListNotations.
From WF Require Import Generated Model.Archive Proofs.ArchiveProofs.
Open Scope Z_scope.

(* Round trip.  For every list of deployments whose names are pairwise different and contain no
   dot (every DNS-1035 label: C33_valid_names_have_no_dot), every secret map, every generation
   map (None = not given), every password (None, empty or not) and all encryption randomness:
   reading the created archive with the same password yields the manifest that was written and,
   in order, one entry per deployment with the same name, the same resource, the secret the map
   has for that name (or none) and the generation the map has for that name (or none). *)
Theorem C33_roundtrip :
  forall (bytes doc pwd rand : Type) (doc_name : doc -> str)
         (ydump : doc -> bytes) (yload : bytes -> option doc)
         (mdump : manifest -> bytes) (mload : bytes -> option manifest)
         (gdump : Z -> bytes) (gload : bytes -> option (option Z))
         (enc : pwd -> rand -> bytes -> bytes) (dec : pwd -> bytes -> dres bytes)
         (pw_nonempty : pwd -> bool),
  (forall d, yload (ydump d) = Some d) ->
  (forall m, mload (mdump m) = Some m) ->
  (forall g, gload (gdump g) = Some (Some g)) ->
  (forall p r b, dec p (enc p r b) = DOk b) ->
  forall deps secrets gens ns ts pw rnd,
  NoDup (map doc_name deps) ->
  (forall cr, In cr deps -> dotfree (doc_name cr)) ->
  read bytes doc pwd yload mload gload dec pw
       (create bytes doc pwd rand doc_name ydump mdump gdump enc pw_nonempty deps secrets gens ns ts pw rnd)
  = Ok (mkM 1 ts ns (Z.of_nat (List.length deps)) (flag_encrypted pwd pw_nonempty pw),
        map (fun cr => (doc_name cr, cr, aget (doc_name cr) secrets, gen_lookup gens (doc_name cr))) deps).
Proof. exact roundtrip. Qed.
Print Assumptions C33_roundtrip.

(* A different password.  If the archive was created with a (non-empty) password p and at least
   one deployment has a secret, reading it with any other password fails with InvalidTag, and
   reading it without a password fails with the "no password provided" ValueError — nothing is
   returned.  Relative to the idealised AEAD hypothesis (wrong key => InvalidTag). *)
Theorem C33_wrong_password_fails :
  forall (bytes doc pwd rand : Type) (doc_name : doc -> str)
         (ydump : doc -> bytes) (yload : bytes -> option doc)
         (mdump : manifest -> bytes) (mload : bytes -> option manifest)
         (gdump : Z -> bytes) (gload : bytes -> option (option Z))
         (enc : pwd -> rand -> bytes -> bytes) (dec : pwd -> bytes -> dres bytes)
         (pw_nonempty : pwd -> bool),
  (forall d, yload (ydump d) = Some d) ->
  (forall m, mload (mdump m) = Some m) ->
  (forall g, gload (gdump g) = Some (Some g)) ->
  (forall p p' r b, p <> p' -> dec p' (enc p r b) = DTag) ->
  forall deps secrets gens ns ts p rnd pw',
  encrypts pwd pw_nonempty (Some p) = true ->
  (forall p', pw' = Some p' -> p' <> p) ->
  (forall cr, In cr deps -> dotfree (doc_name cr)) ->
  (exists cr, In cr deps /\ aget (doc_name cr) secrets <> None) ->
  read bytes doc pwd yload mload gload dec pw'
       (create bytes doc pwd rand doc_name ydump mdump gdump enc pw_nonempty deps secrets gens ns ts (Some p) rnd)
  = Err (match pw' with Some _ => EInvalidTag | None => ENoPassword end).
Proof. exact wrong_password. Qed.
Print Assumptions C33_wrong_password_fails.

(* What the proofs are about: every file create writes for a dot-free deployment name is sent by
   the reader's if/elif chain (in its source order) to the branch of the same kind, with the
   deployment name recovered; and none of them is taken for the manifest. *)
Theorem C33_written_files_dispatch : forall n, dotfree n ->
  classify (n ++ lit ".yaml")%list = Some (lit ".yaml", KCr) /\
  classify (n ++ lit ".secret.yaml")%list = Some (lit ".secret.yaml", KSecretYaml) /\
  classify (n ++ lit ".secret.enc")%list = Some (lit ".secret.enc", KSecretEnc) /\
  classify (n ++ lit ".meta.json")%list = Some (lit ".meta.json", KMeta) /\
  remove_suffix (n ++ lit ".secret.yaml")%list (lit ".secret.yaml") = n.
Proof.
  intros n H. repeat split.
  - exact (classify_cr n H).
  - exact (classify_secret_yaml n H).
  - exact (classify_secret_enc n H).
  - exact (classify_meta n H).
  - apply remove_suffix_app.
Qed.
Print Assumptions C33_written_files_dispatch.

Theorem C33_generated_tables :
  wsuf "cr" = lit ".yaml" /\ wsuf "secret_yaml" = lit ".secret.yaml" /\ wsuf "secret_enc" = lit ".secret.enc" /\
  wsuf "meta" = lit ".meta.json" /\ manifest_name_read = manifest_name_written /\
  map snd dispatch_table = [KSecretEnc; KMeta; KSecretYaml; KCr].
Proof. vm_compute. repeat split; reflexivity. Qed.
Print Assumptions C33_generated_tables.

Theorem C33_valid_names_have_no_dot : forall n, forallb dns1035_char n = true -> dotfree n.
Proof. exact dns1035_dotfree. Qed.
Print Assumptions C33_valid_names_have_no_dot.

(* encryption.py: decrypt cuts the data where encrypt put salt, nonce and ciphertext (lengths from
   the source constants), so with an AEAD that round-trips the plaintext comes back; with an
   AEAD/KDF that reject a wrong key the result is InvalidTag; short data is rejected up front. *)
Theorem C33_wire_format_roundtrip :
  forall (key byte : Type) (kdf : list byte -> list byte -> key)
         (aes_enc : key -> list byte -> list byte -> list byte)
         (aes_dec : key -> list byte -> list byte -> option (list byte)),
  (forall k n m, aes_dec k n (aes_enc k n m) = Some m) ->
  (forall k n m, List.length (aes_enc k n m) = (List.length m + tag_len)%nat) ->
  forall pw salt nonce pt,
  List.length salt = salt_len -> List.length nonce = nonce_len ->
  wire_decrypt key byte kdf aes_dec pw (wire_encrypt key byte kdf aes_enc pw salt nonce pt) = DOk pt.
Proof. exact wire_roundtrip. Qed.
Print Assumptions C33_wire_format_roundtrip.

Theorem C33_wire_format_wrong_password :
  forall (key byte : Type) (kdf : list byte -> list byte -> key)
         (aes_enc : key -> list byte -> list byte -> list byte)
         (aes_dec : key -> list byte -> list byte -> option (list byte)),
  (forall k n m, List.length (aes_enc k n m) = (List.length m + tag_len)%nat) ->
  (forall k k' n m, k <> k' -> aes_dec k' n (aes_enc k n m) = None) ->
  (forall pw pw' salt, pw <> pw' -> kdf pw salt <> kdf pw' salt) ->
  forall pw pw' salt nonce pt,
  pw <> pw' -> List.length salt = salt_len -> List.length nonce = nonce_len ->
  wire_decrypt key byte kdf aes_dec pw' (wire_encrypt key byte kdf aes_enc pw salt nonce pt) = DTag.
Proof. exact wire_wrong_password. Qed.
Print Assumptions C33_wire_format_wrong_password.

Theorem C33_wire_format_short_data :
  forall (key byte : Type) (kdf : list byte -> list byte -> key)
         (aes_dec : key -> list byte -> list byte -> option (list byte)) pw data,
  (List.length data < salt_len + nonce_len + tag_len)%nat -> wire_decrypt key byte kdf aes_dec pw data = DShort.
Proof. exact wire_short_rejected. Qed.
Print Assumptions C33_wire_format_short_data.

(* Non-vacuity: the symbolic instance used by the correspondence suite satisfies every hypothesis,
   and a backup of two deployments (one with an encrypted secret and a generation) round-trips. *)
Example C33_hypotheses_satisfiable :
  (forall d, s_yload (BYaml d) = Some d) /\ (forall m, s_mload (BManifest m) = Some m) /\
  (forall g, s_gload (BGen (Some g)) = Some (Some g)) /\
  (forall p r b, s_dec p (BEnc p r b) = DOk b) /\
  (forall p p' r b, p <> p' -> s_dec p' (BEnc p r b) = DTag).
Proof.
  repeat split; try reflexivity.
  - intros p r b. cbn. rewrite Z.eqb_refl. reflexivity.
  - intros p p' r b H. cbn. destruct (p' =? p) eqn:E; [|reflexivity]. apply Z.eqb_eq in E. congruence.
Qed.
Print Assumptions C33_hypotheses_satisfiable.

Example C33_nonvacuous :
  let tbl := [(1, lit "web"); (2, lit "manifest")] in
  let ms := s_create tbl [1; 2] [(lit "web", 7); (lit "ghost", 8)] (Some [(lit "web", 0)]) 1 2 (Some 5) in
  map (fun m => fst (fst m)) ms
    = [lit "manifest.json"; lit "web.yaml"; lit "web.secret.enc"; lit "web.meta.json"; lit "manifest.yaml"] /\
  s_read (Some 5) ms = Ok (mkM 1 2 1 2 true, [(lit "web", 1, Some 7, Some 0); (lit "manifest", 2, None, None)]) /\
  s_read (Some 6) ms = Err EInvalidTag /\ s_read None ms = Err ENoPassword.
Proof. vm_compute. repeat split; reflexivity. Qed.
Print Assumptions C33_nonvacuous.

(* The name hypothesis is necessary: a deployment called "a.secret" (not a valid name) is restored
   as the SECRET of a deployment "a" — the reader tests ".secret.yaml" before ".yaml". *)
Example C33_dotted_name_is_misread :
  classify (lit "a.secret.yaml") = Some (lit ".secret.yaml", KSecretYaml) /\
  s_read None (s_create [(1, lit "a"); (2, lit "a.secret")] [1; 2] [] None 0 0 None)
    = Ok (mkM 1 0 0 2 false, [(lit "a", 1, Some 2, None)]).
Proof. vm_compute. split; reflexivity. Qed.
Print Assumptions C33_dotted_name_is_misread.
