(* C30 — A workflow instance never runs more concurrent runs than its limit.
   Statements only; every proof is `exact <lemma>` from Proofs/RunLimitProofs.v.

   Model (Model/RunLimit.v): BasicRuntime.run_workflow / _maybe_acquire_max_concurrent_runs with the
   weak dictionary id(workflow) -> asyncio.Semaphore, and asyncio.Semaphore itself (CPython 3.12)
   with cancellation.  A schedule is any list of scheduler choices:
     AStart r w | ARun r (next atomic segment of r's task) | AEnter r / AExit r (a step of r's
     control loop starts / ends) | AFinish r (the run ends: result, failure, timeout, cancellation;
     its step workers have been awaited; permit released) | ACancel r (Task.cancel) |
     AGc w (the weak dictionary drops w's semaphore) | ANop.
   [limit w] is workflow._num_concurrent_runs of instance w (None = unlimited). *)
From Coq Require Import List ZArith Bool.
Import ListNotations.
From WF Require Import Base.SchedRes Model.RunLimit Proofs.RunLimitProofs.
Open Scope Z_scope.

(* ---- at most N runs of one instance execute steps, at any time, under every schedule -------- *)

Theorem C30_at_most_n_runs_execute : forall limit sched w n, limit w = Some n -> 0 <= n ->
  Z.of_nat (executing w (exec limit init sched)) <= n /\
  Z.of_nat (holders w (exec limit init sched)) <= n.
Proof. exact limit_all_schedules. Qed.
Print Assumptions C30_at_most_n_runs_execute.

Theorem C30_at_every_moment : forall limit sched k w n, limit w = Some n -> 0 <= n ->
  Z.of_nat (executing w (exec limit init (firstn k sched))) <= n.
Proof. exact limit_every_moment. Qed.
Print Assumptions C30_at_every_moment.

(* the accounting behind it: free permits + runs inside the `async with` + permits handed to a
   waiter that has not resumed yet = N, and the counter is never negative *)
Theorem C30_permits_conserved : forall limit sched w n, limit w = Some n -> 0 <= n ->
  let s := exec limit init sched in
  0 <= s_value (semv n s w) /\
  s_value (semv n s w) + Z.of_nat (holders w s) + Z.of_nat (n_woken (s_waiters (semv n s w))) = n.
Proof. exact permits_conserved. Qed.
Print Assumptions C30_permits_conserved.

(* the WeakValueDictionary can only forget a semaphore that equals a fresh Semaphore(N) *)
Theorem C30_semaphore_drop_is_harmless : forall limit sched w n sm, limit w = Some n -> 0 <= n ->
  let s := exec limit init sched in
  alookup w (sems s) = Some sm -> refs w (runs s) = false -> sm = fresh_sem n.
Proof. exact gc_only_when_fresh. Qed.
Print Assumptions C30_semaphore_drop_is_harmless.

(* ---- every started run eventually executes --------------------------------------------------- *)

(* a run that waits is in the queue of its own instance's semaphore *)
Theorem C30_waiting_run_is_queued : forall limit sched w n r, limit w = Some n -> 0 <= n ->
  let s := exec limit init sched in
  waiting_run w r s -> exists sm f, alookup w (sems s) = Some sm /\ alookup r (s_waiters sm) = Some f.
Proof. exact waiting_run_is_queued. Qed.
Print Assumptions C30_waiting_run_is_queued.

(* no lost wake-up: while somebody is queued (N >= 1) a permit is held by a run that can finish or
   is already handed to a waiting run that only needs to be resumed *)
Theorem C30_no_lost_wakeup : forall limit sched w n sm, limit w = Some n -> 1 <= n ->
  let s := exec limit init sched in
  alookup w (sems s) = Some sm -> (0 < n_pending (s_waiters sm))%nat ->
  (0 < holders w s)%nat \/
  (exists r, alookup r (s_waiters sm) = Some FWoken /\ waiting_run w r s).
Proof. exact no_lost_wakeup. Qed.
Print Assumptions C30_no_lost_wakeup.

(* FIFO progress.  [W limit-free] W w r k s: r is a waiting, not cancel-requested run of w whose rank
   in w's queue is k (k = p+1: p pending waiters before it; k = 0: the permit has been handed to it).
   G w r s: r is inside (or has left) the `async with`.  Any schedule that does not cancel r and in
   which at least k permits of w are released hands a permit to r — whatever else happens. *)
Theorem C30_fifo_progress : forall limit sched w n r k s, limit w = Some n ->
  W w r k s \/ G w r s -> ~ In (ACancel r) sched -> (k <= count_releases limit s sched w)%nat ->
  W w r 0 (exec limit s sched) \/ G w r (exec limit s sched).
Proof. exact fifo_progress. Qed.
Print Assumptions C30_fifo_progress.

Theorem C30_handed_run_executes : forall limit w r s, W w r 0 s -> G w r (step limit s (ARun r)).
Proof. exact handed_run_executes. Qed.
Print Assumptions C30_handed_run_executes.

Theorem C30_admission_is_permanent : forall limit w r s a, G w r s -> G w r (step limit s a).
Proof. exact G_stable. Qed.
Print Assumptions C30_admission_is_permanent.

Theorem C30_woken_waiter_resumes : forall limit s r ru sm,
  alookup r (runs s) = Some ru -> r_pc ru = PWaiting ->
  alookup (r_wf ru) (sems s) = Some sm -> alookup r (s_waiters sm) = Some FWoken ->
  alookup r (runs (step limit s (ARun r)))
    = Some (mkRun (r_wf ru) (if r_mc ru then PDone else PHolding 0) (r_mc ru)).
Proof. exact woken_waiter_resumes. Qed.
Print Assumptions C30_woken_waiter_resumes.

Theorem C30_unlocked_semaphore_admits_at_once : forall limit s r ru n,
  alookup r (runs s) = Some ru -> r_pc ru = PCreated -> r_mc ru = false -> limit (r_wf ru) = Some n ->
  sem_locked (semv n s (r_wf ru)) = false ->
  alookup r (runs (step limit s (ARun r))) = Some (mkRun (r_wf ru) (PHolding 0) false).
Proof. exact fresh_run_admitted. Qed.
Print Assumptions C30_unlocked_semaphore_admits_at_once.

(* ---- separate instances have independent limits ---------------------------------------------- *)

(* the bound of w counts w's runs only and is w's own N (C30_at_most_n_runs_execute is per w);
   and nothing another instance does is visible to w: *)
Theorem C30_other_instance_actions_invisible : forall limit s a w, NoDup (akeys (runs s)) ->
  act_instance s a <> Some w -> proj w (step limit s a) = proj w s.
Proof. exact other_instance_invisible. Qed.
Print Assumptions C30_other_instance_actions_invisible.

Theorem C30_others_cannot_interfere : forall limit sched s w, Inv limit s -> all_other limit w s sched ->
  proj w (exec limit s sched) = proj w s.
Proof. exact others_cannot_interfere. Qed.
Print Assumptions C30_others_cannot_interfere.

Theorem C30_reachable_states_are_invariant : forall limit sched, Inv limit (exec limit init sched).
Proof. exact reachable_inv. Qed.
Print Assumptions C30_reachable_states_are_invariant.

(* ---- non-vacuity ------------------------------------------------------------------------------ *)

(* ex_limit: instance 0 has N=1, instance 1 has N=2.  ex_sched: instance 0: run 1 admitted, runs 2 and 3
   queue; instance 1 admits 4 and 5 meanwhile; 1 finishes -> permit handed to 2; 2 is cancelled before it
   resumes -> the permit goes on to 3 *)
Example C30_example_run :
  let s := exec ex_limit init ex_sched in
  executing 0 s = 1%nat /\ executing 1 s = 2%nat /\
  alookup 2 (runs s) = Some (mkRun 0 PDone true) /\
  alookup 3 (runs s) = Some (mkRun 0 (PHolding 1) false) /\
  alookup 0 (sems s) = Some (mkSem 0 []).
Proof. exact example_run. Qed.
Print Assumptions C30_example_run.

(* the hypotheses of the progress theorem are satisfiable: after the first six actions run 3 waits
   with rank 2 (one pending waiter before it) *)
Example C30_example_waiting_rank :
  W 0 3 2 (exec ex_limit init (firstn 6 ex_sched)) /\
  count_releases ex_limit (exec ex_limit init (firstn 6 ex_sched))
    [AEnter 1; AExit 1; AFinish 1; ARun 2; AEnter 2; AExit 2; AFinish 2] 0 = 2%nat.
Proof. exact example_waiting_rank. Qed.
Print Assumptions C30_example_waiting_rank.

(* a state with a pending waiter and a hand-off in flight (hypotheses of C30_no_lost_wakeup) *)
Example C30_example_handoff_in_flight :
  let s := exec ex_limit init (firstn 15 ex_sched) in
  alookup 0 (sems s) = Some (mkSem 0 [(2, FWoken); (3, FPending)]) /\ holders 0 s = 0%nat.
Proof. exact example_handoff_in_flight. Qed.
Print Assumptions C30_example_handoff_in_flight.
