(* C02 — Every emitted event reaches each accepting step exactly once (reducer level).
   Statements only; every proof is `exact <lemma>` from Proofs/EngineRoute.v. *)
From Coq Require Import List ZArith Bool PeanoNat.
Import ListNotations.
From WF Require Import Model.Engine Proofs.EngineCap Proofs.EngineRoute.
Open Scope Z_scope.

(* The relation between a step's worker state before and after an add-event tick carrying attempt
   [a] (event [a_ev a]) optionally addressed to [target], spelled out in full:
   - a step (the addressed one, if any) with a still-waiting waiter the event matches receives it
     as wait result(s) and NOT as a new input: its waiters are updated, exactly one replay per
     freshly resolved waiter is admitted, nothing else changes;
   - otherwise a step whose accepted types contain exactly the event's type (and that is the
     addressed one, if any) receives the attempt exactly once (queue tail or a fresh worker);
   - every other step is left completely unchanged (no delivery to a step that does not accept it,
     none to a step other than the addressed one). *)
Theorem C02_relation_is : forall a target p p',
  add_rel a target p p' <->
  (fst p' = fst p /\
   (if target_ok target (fst p) && existsb (fresh_match (a_ev a)) (waiters (snd p)) then
      waiters (snd p') = map (upd (a_ev a)) (waiters (snd p)) /\
      load (snd p') = (load (snd p) + length (filter (fresh_match (a_ev a)) (waiters (snd p))))%nat /\
      collected (snd p') = collected (snd p) /\ w_cfg (snd p') = w_cfg (snd p)
    else if zmem (ety (a_ev a)) (accepts (w_cfg (snd p))) && target_ok target (fst p) then
      w_cfg (snd p') = w_cfg (snd p) /\ collected (snd p') = collected (snd p) /\
      waiters (snd p') = waiters (snd p) /\
      ((queue (snd p') = queue (snd p) ++ [a] /\ inprogress (snd p') = inprogress (snd p)) \/
       (queue (snd p') = queue (snd p) /\
        exists ip, inprogress (snd p') = inprogress (snd p) ++ [ip] /\ i_ev ip = a_ev a))
    else snd p' = snd p)).
Proof. intros. unfold add_rel, is_hit, delivered_once. tauto. Qed.
Print Assumptions C02_relation_is.

Theorem C02_routing_exact : forall a target s now s' cs,
  Keys_ok s -> process_add a target s now = Ok (s', cs) ->
  Forall2 (add_rel a target) (workers s) (workers s') /\ cfg s' = cfg s.
Proof. exact process_add_exact. Qed.
Print Assumptions C02_routing_exact.

(* UnhandledEvent is published exactly once when no step takes the event (and it is not an
   InputRequiredEvent), and not at all otherwise *)
Theorem C02_unhandled_exactly_when_no_taker : forall a target s now s' cs,
  process_add a target s now = Ok (s', cs) ->
  n_unhandled cs =
    if existsb (taker a target) (workers s) || zmem (ety (a_ev a)) (c_inputreq (cfg s)) then 0%nat else 1%nat.
Proof. exact process_add_unhandled. Qed.
Print Assumptions C02_unhandled_exactly_when_no_taker.

(* an event returned by a step is handed to the runner as exactly one queue command *)
Theorem C02_returned_event_queued_once : forall P step tev dc now a e a',
  zmem (ety e) (c_stop (cfg (k_state a))) = false ->
  one_result P step tev dc now a (RResult (OEvent e)) = Ok a' ->
  exists q, a_ev q = e /\
    k_cmds a' = k_cmds a ++ (if zmem (ety e) (c_inputreq (cfg (k_state a))) then [CPublish (PEvent e)] else [])
                         ++ [CQueue q None None] /\ k_state a' = k_state a /\ k_w a' = k_w a.
Proof. exact result_event_queued_once. Qed.
Print Assumptions C02_returned_event_queued_once.

(* non-vacuity: three steps; step 1 accepts type 1, step 2 accepts type 1 and waits for type 1 with
   requirement (1,5), step 3 accepts type 2.  An event of type 1 with attribute (1,5):
   untargeted -> step 1 gets it as input, step 2 as wait result, step 3 nothing;
   addressed to step 1 -> only step 1; type 6 -> one UnhandledEvent. *)
Example C02_nonvacuous :
  let c acc := {| accepts := acc; nworkers := 1; pol := None |} in
  let wt := {| w_id := 1; w_ev := {| ety := 1; eid := 7; eattrs := [] |}; w_ty := 1; w_reqs := [(1, 5)];
               w_hasreq := true; w_resolved := None; w_timedout := false |} in
  let wk acc ws := {| w_cfg := c acc; queue := []; inprogress := []; collected := []; waiters := ws |} in
  let s0 := {| running := true;
               cfg := {| c_handler_for := []; c_handlers := []; c_start := [0]; c_stop := [9];
                         c_inputreq := [8]; c_ty_stepfailed := 7 |};
               workers := [(1, wk [1] []); (2, wk [1] [wt]); (3, wk [2] [])] |} in
  let e ty := blank {| ety := ty; eid := 9; eattrs := [(1, 5)] |} in
  let loads r := match r with Ok (s, cs) => (map (fun p => load (snd p)) (workers s),
                                           map (fun p => map w_pending (waiters (snd p))) (workers s),
                                           n_unhandled cs) | Err _ => ([], [], 99%nat) end in
  Keys_ok s0 /\
  loads (process_add (e 1) None s0 0) = ([1; 1; 0]%nat, [[]; [true]; []], 0%nat) /\
  loads (process_add (e 1) (Some 1) s0 0) = ([1; 0; 0]%nat, [[]; [false]; []], 0%nat) /\
  loads (process_add (e 6) None s0 0) = ([0; 0; 0]%nat, [[]; [false]; []], 1%nat).
Proof. vm_compute. repeat split; repeat constructor; cbn; intuition discriminate. Qed.
Print Assumptions C02_nonvacuous.
