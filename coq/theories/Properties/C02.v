(* C02 — Every emitted event reaches each accepting step exactly once (reducer level, then run-loop level).
   Statements only; every proof is `exact <lemma>` from Proofs/EngineRoute.v and Proofs/RunnerConserve.v. *)
From Coq Require Import List ZArith Bool PeanoNat.
Import ListNotations.
From WF Require Import Model.Engine Model.Runner Proofs.EngineCap Proofs.EngineRoute Proofs.RunnerConserve.
Open Scope Z_scope.

(* The relation between a step's worker state before and after an add-event tick carrying attempt
   [a] (event [a_ev a]) optionally addressed to [target], spelled out in full:
   - a step (the addressed one, if any) with a still-waiting waiter the event matches receives it
     as wait result(s) and NOT as a new input: its waiters are updated, exactly one replay per
     freshly resolved waiter is admitted, nothing else changes;
   - otherwise a step whose accepted types contain exactly the event's type (and that is the
     addressed one, if any) receives the attempt exactly once (queue tail or a fresh worker);
   - every other step is left completely unchanged (no delivery to a step that does not accept it,
     none to a step other than the addressed one). *)
Theorem C02_relation_is : forall a target p p',
  add_rel a target p p' <->
  (fst p' = fst p /\
   (if target_ok target (fst p) && existsb (fresh_match (a_ev a)) (waiters (snd p)) then
      waiters (snd p') = map (upd (a_ev a)) (waiters (snd p)) /\
      load (snd p') = (load (snd p) + length (filter (fresh_match (a_ev a)) (waiters (snd p))))%nat /\
      collected (snd p') = collected (snd p) /\ w_cfg (snd p') = w_cfg (snd p)
    else if zmem (ety (a_ev a)) (accepts (w_cfg (snd p))) && target_ok target (fst p) then
      w_cfg (snd p') = w_cfg (snd p) /\ collected (snd p') = collected (snd p) /\
      waiters (snd p') = waiters (snd p) /\
      ((queue (snd p') = queue (snd p) ++ [a] /\ inprogress (snd p') = inprogress (snd p)) \/
       (queue (snd p') = queue (snd p) /\
        exists ip, inprogress (snd p') = inprogress (snd p) ++ [ip] /\ i_ev ip = a_ev a))
    else snd p' = snd p)).
Proof. intros. unfold add_rel, is_hit, delivered_once. tauto. Qed.
Print Assumptions C02_relation_is.

Theorem C02_routing_exact : forall a target s now s' cs,
  Keys_ok s -> process_add a target s now = Ok (s', cs) ->
  Forall2 (add_rel a target) (workers s) (workers s') /\ cfg s' = cfg s.
Proof. exact process_add_exact. Qed.
Print Assumptions C02_routing_exact.

(* UnhandledEvent is published exactly once when no step takes the event (and it is not an
   InputRequiredEvent), and not at all otherwise *)
Theorem C02_unhandled_exactly_when_no_taker : forall a target s now s' cs,
  process_add a target s now = Ok (s', cs) ->
  n_unhandled cs =
    if existsb (taker a target) (workers s) || zmem (ety (a_ev a)) (c_inputreq (cfg s)) then 0%nat else 1%nat.
Proof. exact process_add_unhandled. Qed.
Print Assumptions C02_unhandled_exactly_when_no_taker.

(* an event returned by a step is handed to the runner as exactly one queue command *)
Theorem C02_returned_event_queued_once : forall P step tev dc now a e a',
  zmem (ety e) (c_stop (cfg (k_state a))) = false ->
  one_result P step tev dc now a (RResult (OEvent e)) = Ok a' ->
  exists q, a_ev q = e /\
    k_cmds a' = k_cmds a ++ (if zmem (ety e) (c_inputreq (cfg (k_state a))) then [CPublish (PEvent e)] else [])
                         ++ [CQueue q None None] /\ k_state a' = k_state a /\ k_w a' = k_w a.
Proof. exact result_event_queued_once. Qed.
Print Assumptions C02_returned_event_queued_once.

(* non-vacuity: three steps; step 1 accepts type 1, step 2 accepts type 1 and waits for type 1 with
   requirement (1,5), step 3 accepts type 2.  An event of type 1 with attribute (1,5):
   untargeted -> step 1 gets it as input, step 2 as wait result, step 3 nothing;
   addressed to step 1 -> only step 1; type 6 -> one UnhandledEvent. *)
Example C02_nonvacuous :
  let c acc := {| accepts := acc; nworkers := 1; pol := None |} in
  let wt := {| w_id := 1; w_ev := {| ety := 1; eid := 7; eattrs := [] |}; w_ty := 1; w_reqs := [(1, 5)];
               w_hasreq := true; w_resolved := None; w_timedout := false |} in
  let wk acc ws := {| w_cfg := c acc; queue := []; inprogress := []; collected := []; waiters := ws |} in
  let s0 := {| running := true;
               cfg := {| c_handler_for := []; c_handlers := []; c_start := [0]; c_stop := [9];
                         c_inputreq := [8]; c_ty_stepfailed := 7 |};
               workers := [(1, wk [1] []); (2, wk [1] [wt]); (3, wk [2] [])] |} in
  let e ty := blank {| ety := ty; eid := 9; eattrs := [(1, 5)] |} in
  let loads r := match r with Ok (s, cs) => (map (fun p => load (snd p)) (workers s),
                                           map (fun p => map w_pending (waiters (snd p))) (workers s),
                                           n_unhandled cs) | Err _ => ([], [], 99%nat) end in
  Keys_ok s0 /\
  loads (process_add (e 1) None s0 0) = ([1; 1; 0]%nat, [[]; [true]; []], 0%nat) /\
  loads (process_add (e 1) (Some 1) s0 0) = ([1; 0; 0]%nat, [[]; [false]; []], 0%nat) /\
  loads (process_add (e 6) None s0 0) = ([0; 0; 0]%nat, [[]; [false]; []], 1%nat).
Proof. vm_compute. repeat split; repeat constructor; cbn; intuition discriminate. Qed.
Print Assumptions C02_nonvacuous.

(* ---- the run loop (Model/Runner.v): every event becomes exactly one add-event tick, for EVERY schedule ----
   Definitions spelled out so that the statement cannot be weakened elsewhere: the add-event ticks of a list; counting
   by an arbitrary observation f (equal counts for every f = equal multisets, as far as any predicate can tell); the
   events a command list queues; the commands the reducer returned along the processed-tick log. *)
Theorem C02_run_loop_definitions_are : forall f l cs P s tl,
  adds l = filter (fun t => match t with TAdd _ _ => true | _ => false end) l /\
  cntf f l = length (filter f l) /\
  queued_of cs = flat_map (fun c => match c with CQueue a tg _ => [TAdd a tg] | _ => [] end) cs /\
  run_cmds P s tl = match tl with
                    | [] => []
                    | (t, now) :: r => match reduce P t s now with Ok (s', cs') => cs' ++ run_cmds P s' r | Err _ => [] end
                    end.
Proof. intros. repeat split; try reflexivity. destruct tl as [|[t now] r]; reflexivity. Qed.
Print Assumptions C02_run_loop_definitions_are.

(* While the run is live, whatever the schedule of worker completions (with any result lists and any events sent by
   the bodies), external deliveries and clock advances: the events that ENTERED the run - the start event, every
   event a reducer command queued (returned by a step, re-queued as a retry, routed to a handler), every event a step
   body or a caller sent - are, with multiplicity, exactly the add-event ticks the reducer has PROCESSED (the tick
   log, on which C02_routing_exact gives the per-step delivery) plus those still in the tick buffer, the mailbox or
   the timer heap.  Nothing is lost, nothing is processed twice.  (After an exit command the run has ended:
   "unless the run ends first".) *)
Theorem C02_run_loop_conserves_events : forall P s e now acts,
  Runner.outcome (run_at P s e now acts) = ORunning ->
  let r := run_at P s e now acts in
  (forall f, cntf f (adds (ticklog r)) + cntf f (adds (tbuf r)) + cntf f (adds (mailbox r)) +
             cntf f (adds (map snd (wakeups r))) =
             cntf f [TAdd (blank e) None] + cntf f (queued_of (run_cmds P s (tlog r))) + cntf f (adds (envlog r)))%nat /\
  run_ticks P s (tlog r) = Ok (st r) /\ ticklog r = map fst (tlog r).
Proof. exact run_conserves_events. Qed.
Print Assumptions C02_run_loop_conserves_events.

(* and the loop blocks (waits for the environment) only when the tick buffer and the mailbox are empty, no finished
   worker is unharvested, no worker is unstarted and no timer is due: what is not yet processed then is exactly the
   events waiting out a retry delay in the timer heap *)
Theorem C02_run_loop_blocks_only_when_quiescent : forall P s e now acts,
  Runner.outcome (run_at P s e now acts) = ORunning ->
  let r := run_at P s e now acts in
  tbuf r = [] /\ mailbox r = [] /\ donew r = [] /\ pending r = [] /\ fst (due (clock r) (wakeups r)) = [].
Proof. exact run_blocks_only_when_quiescent. Qed.
Print Assumptions C02_run_loop_blocks_only_when_quiescent.

(* non-vacuity: a live run in which a step returned an event, a body sent one and a caller delivered one *)
Example C02_run_loop_nonvacuous :
  let c acc n := {| accepts := acc; nworkers := n; pol := None |} in
  let wk acc n := {| w_cfg := c acc n; queue := []; inprogress := []; collected := []; waiters := [] |} in
  let s0 := {| running := true;
               cfg := {| c_handler_for := []; c_handlers := []; c_start := [0]; c_stop := [9];
                         c_inputreq := [8]; c_ty_stepfailed := 7 |};
               workers := [(1, wk [0] 1%nat); (2, wk [1] 2%nat)] |} in
  let ev ty i := {| ety := ty; eid := i; eattrs := [] |} in
  let acts := [AWorkerDone 1 0%nat [TAdd (blank (ev 1 5)) None] [RResult (OEvent (ev 1 6))];
               ADeliver (TAdd (blank (ev 1 7)) None)] in
  let r := run_at (fun _ _ _ _ => PStop) s0 (ev 0 1) 100 acts in
  Runner.outcome r = ORunning /\ length (adds (ticklog r)) = 4%nat /\ length (adds (envlog r)) = 2%nat /\
  length (queued_of (run_cmds (fun _ _ _ _ => PStop) s0 (tlog r))) = 1%nat /\
  map (fun p => (length (inprogress (snd p)), length (queue (snd p)))) (workers (st r)) = [(0, 0); (2, 1)]%nat.
Proof. vm_compute. repeat split; reflexivity. Qed.
Print Assumptions C02_run_loop_nonvacuous.
