(* C05 — Retry budgets count attempts and elapsed time correctly.
   Statements only; proofs in Proofs/RetryChainProofs.v (retry loop) and Proofs/HandlerProofs.v (what
   the reducer reports). *)
From Coq Require Import List ZArith QArith Qminmax Bool.
Import ListNotations.
From WF Require Import Model.Retry Model.RetryChain Proofs.RetryChainProofs Model.Engine Proofs.HandlerProofs.
Open Scope Z_scope.

(* stop_after_attempt(n) with any retry condition that accepts the errors and any wait strategy: an
   always-failing step is executed exactly max(n,1) times and that number is what is reported *)
Theorem C05_stop_after_attempt_exact : forall upred rng seedof p first n,
  retries_always upred p -> p_stop p = SAfterAttempt n ->
  forall xs att prev start,
  (Z.to_nat (Z.max n (att + 1) - att) <= length xs)%nat ->
  exists l el x, chain upred rng seedof p first att prev start xs = (l, CStopped (Z.max n (att + 1)) el x) /\
                 length l = Z.to_nat (Z.max n (att + 1) - att).
Proof. exact stop_after_attempt_exact. Qed.
Print Assumptions C05_stop_after_attempt_exact.

(* a non-retryable error is executed once *)
Theorem C05_non_retryable_once : forall upred rng seedof p first x rest att prev start c,
  p_retry p = Some c -> rcond_eval upred c x = false ->
  chain upred rng seedof p first att prev start (x :: rest) =
    ([{| e_retry_no := att; e_prev := prev; e_start := start |}], CStopped (att + 1) (start - first)%Q x).
Proof. exact non_retryable_once. Qed.
Print Assumptions C05_non_retryable_once.

(* stop_after_delay(d): retried iff less than d seconds elapsed since the first attempt *)
Theorem C05_stop_after_delay_iff : forall upred rng p d elapsed failures x s,
  retries_always upred p -> p_stop p = SAfterDelay d ->
  (next upred rng p elapsed failures x s = None <-> (d <= elapsed)%Q).
Proof. exact stop_after_delay_iff. Qed.
Print Assumptions C05_stop_after_delay_iff.

(* retry_info(): retry numbers 0,1,2,... and the previous attempt's exception, for every policy *)
Theorem C05_retry_numbers : forall upred rng seedof p first xs att prev start l e,
  chain upred rng seedof p first att prev start xs = (l, e) -> map e_retry_no l = zseq att (length l).
Proof. exact chain_retry_numbers. Qed.
Print Assumptions C05_retry_numbers.

Theorem C05_previous_exception : forall upred rng seedof p first xs att prev start l e,
  chain upred rng seedof p first att prev start xs = (l, e) ->
  map e_prev l = prev :: map Some (firstn (length l - 1) xs).
Proof. exact chain_prev_exceptions. Qed.
Print Assumptions C05_previous_exception.

(* what is reported when the chain is exhausted: attempts = number of executions, elapsed = time of the
   last failure minus the first attempt's start, exception = the last one raised — for every policy *)
Theorem C05_report_is_real : forall upred rng seedof p first xs att prev start l a el x,
  chain upred rng seedof p first att prev start xs = (l, CStopped a el x) ->
  a = att + Z.of_nat (length l) /\
  exists pre last, l = pre ++ [last] /\ el = (e_start last - first)%Q /\ nth_error xs (length l - 1) = Some x.
Proof. exact chain_report. Qed.
Print Assumptions C05_report_is_real.

(* the reducer hands exactly these numbers on: failures = attempts + 1 and elapsed = failed_at -
   first_attempt_at go to the policy, into StepFailedEvent and into WorkflowFailedEvent; a retry carries
   attempts = failures, the first-attempt time and the exception (see also C08) *)
Theorem C05_reducer_reports_failures_and_elapsed : forall P step tev dc now a x fa a',
  one_result P step tev dc now a (RFailed x fa) = Ok a' ->
  (match pol (w_cfg (k_w a)) with Some p => P p (fa - i_first (k_this a)) (i_att (k_this a) + 1) x | None => PStop end) = PStop ->
  (owner_of (cfg (k_state a)) step = None \/
   exists hd, owner_of (cfg (k_state a)) step = Some hd /\ h_max hd < rc_get (h_step hd) (i_rc (k_this a)) + 1) ->
  k_cmds a' = k_cmds a ++ [CPublish (PFailed step x (i_att (k_this a) + 1) (fa - i_first (k_this a))) ; CFail step x] /\
  running (k_state a') = false /\ workers (k_state a') = workers (k_state a).
Proof. exact exhausted_failure_fails_run. Qed.
Print Assumptions C05_reducer_reports_failures_and_elapsed.

Theorem C05_reducer_retry_carries_attempts : forall P step tev dc now a x fa a' d,
  one_result P step tev dc now a (RFailed x fa) = Ok a' ->
  (match pol (w_cfg (k_w a)) with Some p => P p (fa - i_first (k_this a)) (i_att (k_this a) + 1) x | None => PStop end) = PRetry d ->
  exists q, k_cmds a' = k_cmds a ++ [CQueue q (Some step) (Some d)] /\ a_ev q = tev /\
            a_rc q = i_rc (k_this a) /\ a_att q = Some (i_att (k_this a) + 1) /\ a_exn q = Some x /\
            k_state a' = k_state a.
Proof. exact retry_keeps_lineage. Qed.
Print Assumptions C05_reducer_retry_carries_attempts.

(* non-vacuity: stop_after_attempt(3), wait 1/2: three executions at 0, 1/2, 1, reported 3 attempts / 1 s *)
Example C05_nonvacuous :
  let x := {| x_isa := [1]; x_msg := 0; x_causes := [] |} in
  let p := {| p_retry := None; p_wait := WFixed (1#2); p_stop := SAfterAttempt 3 |} in
  chain (fun _ _ => false) (fun _ => 0%Q) (fun _ => None) p 0%Q 0 None 0%Q [x; x; x; x; x] =
  ([{| e_retry_no := 0; e_prev := None; e_start := 0%Q |};
    {| e_retry_no := 1; e_prev := Some x; e_start := (0 + Qmax 0 (1#2))%Q |};
    {| e_retry_no := 2; e_prev := Some x; e_start := (0 + Qmax 0 (1#2) + Qmax 0 (1#2))%Q |}],
   CStopped 3 (0 + Qmax 0 (1#2) + Qmax 0 (1#2) - 0)%Q x).
Proof. reflexivity. Qed.
Print Assumptions C05_nonvacuous.
