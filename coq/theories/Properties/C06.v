(* C06 — Retry delays follow the wait strategy in documented order.
   Statements only; proofs in Proofs/RetryChainProofs.v and Proofs/RunnerTimers.v. *)
From Coq Require Import List ZArith QArith Qminmax Bool.
Import ListNotations.
From WF Require Import Model.Retry Model.RetryChain Proofs.RetryChainProofs Model.Engine Model.Runner Proofs.RunnerTimers.
Open Scope Z_scope.

(* every retry starts exactly max(0, d) after the failure it follows, d being what policy.next returned
   for that failure — for every policy, exception sequence and start time *)
Theorem C06_retry_starts_delay_after_failure : forall upred rng seedof p first xs att prev start l e,
  chain upred rng seedof p first att prev start xs = (l, e) -> spaced upred rng seedof p first xs l.
Proof. exact chain_spaced. Qed.
Print Assumptions C06_retry_starts_delay_after_failure.

(* the runner never wakes a scheduled tick early *)
Theorem C06_runner_never_early : forall now l d rest,
  due now l = (d, rest) ->
  exists pre, l = pre ++ rest /\ map (fun w => snd w) pre = d /\ Forall (fun w => fst (fst w) <= now) pre.
Proof. exact due_spec. Qed.
Print Assumptions C06_runner_never_early.

(* that delay is the wait strategy evaluated at the FAILURE COUNT: 1 for the first retry *)
Theorem C06_delay_is_wait_of_failure_count : forall upred rng p elapsed failures x s d,
  next upred rng p elapsed failures x s = Some d -> d = wait_eval rng s (p_wait p) failures.
Proof. exact retry_delay_is_wait_of_failures. Qed.
Print Assumptions C06_delay_is_wait_of_failure_count.

(* PARTIAL: for a strategy that never decreases with its index the k-th retry waits at least the
   documented delay (the delay documented for retry k is the strategy at index k-1) *)
Theorem C06_nondecreasing_strategy_partial : forall rng seed w,
  (forall n, (wait_eval rng seed w n <= wait_eval rng seed w (n + 1))%Q) ->
  forall k, (doc_delay rng seed w k <= wait_eval rng seed w k)%Q.
Proof. intros rng seed w H k. unfold doc_delay. specialize (H (k - 1)). replace (k - 1 + 1) with k in H by ring. exact H. Qed.
Print Assumptions C06_nondecreasing_strategy_partial.

(* REFUTED: "the first retry uses the first strategy of wait_chain" / "the k-th retry starts no earlier
   than the documented delay".  wait_chain(0.5, 0.1): the first retry (failure count 1) waits 0.1 — the
   SECOND strategy — although 0.5 is documented for it. *)
Theorem C06_documented_order_refuted :
  exists rng seed w k,
    k = 1 /\ (wait_eval rng seed w k < doc_delay rng seed w k)%Q /\
    wait_eval rng seed w k == (1#10) /\ doc_delay rng seed w k == (1#2).
Proof.
  exists (fun _ => 0%Q), None, (WChain (WFixed (1#2)) [WFixed (1#10)]), 1.
  vm_compute. repeat split; intros; discriminate.
Qed.
Print Assumptions C06_documented_order_refuted.

(* the same for the exponential strategies: first retry waits multiplier * base, not multiplier *)
Theorem C06_exponential_initial_delay_refuted :
  exists rng seed w, wait_eval rng seed w 1 == 2 /\ doc_delay rng seed w 1 == 1.
Proof. exists (fun _ => 0%Q), None, (WExp 1 2 60 0). vm_compute. split; reflexivity. Qed.
Print Assumptions C06_exponential_initial_delay_refuted.

(* ------------------------------------------------------------------------------------------------------------ *)
(* The run loop (Model/Runner.v, tied to _ControlLoopRunner by the runner differential): every schedule           *)
(* ------------------------------------------------------------------------------------------------------------ *)
From Coq Require Import Sorting.Sorted.
From WF Require Import Proofs.RunnerFire.

(* a retry the policy delays by d > 0, decided at clock reading c, is entered into the wake-up list for time c + d;
   it is NOT put into the tick buffer (nothing can process it before it fires) *)
Theorem C06_run_loop_delayed_retry_is_scheduled_at_failure_time_plus_delay : forall r a target d,
  Runner.outcome r = ORunning -> 0 < d ->
  wakeups (do_command r (CQueue a target (Some d))) = insert_wakeup (clock r + d, wseq r, TAdd a target) (wakeups r) /\
  tbuf (do_command r (CQueue a target (Some d))) = tbuf r /\
  wseq (do_command r (CQueue a target (Some d))) = wseq r + 1.
Proof. exact delayed_queue_is_scheduled. Qed.
Print Assumptions C06_run_loop_delayed_retry_is_scheduled_at_failure_time_plus_delay.

(* for every workflow state, start event, policy oracle and schedule of environment actions: every wake-up that
   has fired (ghost firelog: the time it was scheduled for, its tick, the clock reading when it was moved to the tick
   buffer) fired at or after its time - no retry ever starts early *)
Theorem C06_run_loop_no_wakeup_fires_early : forall P s e now acts,
  Forall (fun f : Z * tick * Z => fst (fst f) <= snd f) (firelog (run_at P s e now acts)).
Proof. exact run_wakeups_never_fire_early. Qed.
Print Assumptions C06_run_loop_no_wakeup_fires_early.

(* a wake-up leaves the list only by firing (the ghost log records exactly what left), and when the loop looks at the
   list everything that is due fires: what stays behind lies strictly in the future *)
Theorem C06_run_loop_wait_step_fires_exactly_what_is_due : forall r c r2,
  Fire_ok r -> wait_step r c = Some r2 ->
  Fire_ok r2 /\
  (wakeups r2 = wakeups r /\ firelog r2 = firelog r \/
   exists fired, fired <> [] /\ wakeups r = fired ++ wakeups r2 /\
                 tbuf r2 = tbuf r ++ map (fun w => snd w) fired /\
                 firelog r2 = firelog r ++ map (fun w : Z * Z * tick => (fst (fst w), snd w, clock r)) fired /\
                 Forall (fun w => fst (fst w) <= clock r) fired /\ Forall (fun w => clock r < fst (fst w)) (wakeups r2)).
Proof. exact wait_fire. Qed.
Print Assumptions C06_run_loop_wait_step_fires_exactly_what_is_due.

Theorem C06_run_loop_invariant_is : forall r,
  Fire_ok r <-> Forall (fun f : Z * tick * Z => fst (fst f) <= snd f) (firelog r) /\
                StronglySorted (fun a b : Z * Z * tick => fst (fst a) <= fst (fst b)) (wakeups r).
Proof. intros r. split; exact (fun H => H). Qed.
Print Assumptions C06_run_loop_invariant_is.

Theorem C06_run_loop_invariant_holds : forall P s e now acts, Fire_ok (run_at P s e now acts).
Proof. exact run_fire_ok. Qed.
Print Assumptions C06_run_loop_invariant_holds.

(* ... hence, for every schedule: whenever the run is live and the loop has blocked, every wake-up still pending lies strictly
   in the future - a retry is started no LATER than the first time the loop looks at the heap once its delay has elapsed *)
Theorem C06_run_loop_nothing_due_is_left_behind : forall P s e now acts,
  Runner.outcome (run_at P s e now acts) = ORunning ->
  Forall (fun w : Z * Z * tick => clock (run_at P s e now acts) < fst (fst w)) (wakeups (run_at P s e now acts)).
Proof. exact run_no_due_wakeup_left_behind. Qed.
Print Assumptions C06_run_loop_nothing_due_is_left_behind.

(* non-vacuity: a step fails at clock 100, its policy says "retry after 8": nothing fires while the clock stands at
   104; at 108 the retry fires, logged as (108, _, 108) *)
Example C06_run_loop_nonvacuous :
  let c acc n := {| accepts := acc; nworkers := n; pol := Some 1 |} in
  let wk acc n := {| w_cfg := c acc n; queue := []; inprogress := []; collected := []; waiters := [] |} in
  let s0 := {| running := true;
               cfg := {| c_handler_for := []; c_handlers := []; c_start := [0]; c_stop := [9];
                         c_inputreq := [8]; c_ty_stepfailed := 7 |};
               workers := [(1, wk [0] 1%nat)] |} in
  let ev ty i := {| ety := ty; eid := i; eattrs := [] |} in
  let x := {| xty := 1; xmsg := 1 |} in
  let P : policy := fun _ _ f _ => if Z.ltb f 3 then PRetry 8 else PStop in
  let r1 := run_at P s0 (ev 0 1) 100 [AWorkerDone 1 0%nat [] [RFailed x 100]; AAdvance 4] in
  let r2 := run_at P s0 (ev 0 1) 100 [AWorkerDone 1 0%nat [] [RFailed x 100]; AAdvance 4; AAdvance 4] in
  map (fun f => (fst (fst f), snd f)) (firelog r1) = [] /\ map (fun w => fst (fst w)) (wakeups r1) = [108] /\
  map (fun f => (fst (fst f), snd f)) (firelog r2) = [(108, 108)] /\ wakeups r2 = [].
Proof. vm_compute. repeat split; reflexivity. Qed.
Print Assumptions C06_run_loop_nonvacuous.
