(* C06 — Retry delays follow the wait strategy in documented order.
   Statements only; proofs in Proofs/RetryChainProofs.v and Proofs/RunnerTimers.v. *)
From Coq Require Import List ZArith QArith Qminmax Bool.
Import ListNotations.
From WF Require Import Model.Retry Model.RetryChain Proofs.RetryChainProofs Model.Engine Model.Runner Proofs.RunnerTimers.
Open Scope Z_scope.

(* every retry starts exactly max(0, d) after the failure it follows, d being what policy.next returned
   for that failure — for every policy, exception sequence and start time *)
Theorem C06_retry_starts_delay_after_failure : forall upred rng seedof p first xs att prev start l e,
  chain upred rng seedof p first att prev start xs = (l, e) -> spaced upred rng seedof p first xs l.
Proof. exact chain_spaced. Qed.
Print Assumptions C06_retry_starts_delay_after_failure.

(* the runner never wakes a scheduled tick early *)
Theorem C06_runner_never_early : forall now l d rest,
  due now l = (d, rest) ->
  exists pre, l = pre ++ rest /\ map (fun w => snd w) pre = d /\ Forall (fun w => fst (fst w) <= now) pre.
Proof. exact due_spec. Qed.
Print Assumptions C06_runner_never_early.

(* that delay is the wait strategy evaluated at the FAILURE COUNT: 1 for the first retry *)
Theorem C06_delay_is_wait_of_failure_count : forall upred rng p elapsed failures x s d,
  next upred rng p elapsed failures x s = Some d -> d = wait_eval rng s (p_wait p) failures.
Proof. exact retry_delay_is_wait_of_failures. Qed.
Print Assumptions C06_delay_is_wait_of_failure_count.

(* PARTIAL: for a strategy that never decreases with its index the k-th retry waits at least the
   documented delay (the delay documented for retry k is the strategy at index k-1) *)
Theorem C06_nondecreasing_strategy_partial : forall rng seed w,
  (forall n, (wait_eval rng seed w n <= wait_eval rng seed w (n + 1))%Q) ->
  forall k, (doc_delay rng seed w k <= wait_eval rng seed w k)%Q.
Proof. intros rng seed w H k. unfold doc_delay. specialize (H (k - 1)). replace (k - 1 + 1) with k in H by ring. exact H. Qed.
Print Assumptions C06_nondecreasing_strategy_partial.

(* REFUTED: "the first retry uses the first strategy of wait_chain" / "the k-th retry starts no earlier
   than the documented delay".  wait_chain(0.5, 0.1): the first retry (failure count 1) waits 0.1 — the
   SECOND strategy — although 0.5 is documented for it. *)
Theorem C06_documented_order_refuted :
  exists rng seed w k,
    k = 1 /\ (wait_eval rng seed w k < doc_delay rng seed w k)%Q /\
    wait_eval rng seed w k == (1#10) /\ doc_delay rng seed w k == (1#2).
Proof.
  exists (fun _ => 0%Q), None, (WChain (WFixed (1#2)) [WFixed (1#10)]), 1.
  vm_compute. repeat split; intros; discriminate.
Qed.
Print Assumptions C06_documented_order_refuted.

(* the same for the exponential strategies: first retry waits multiplier * base, not multiplier *)
Theorem C06_exponential_initial_delay_refuted :
  exists rng seed w, wait_eval rng seed w 1 == 2 /\ doc_delay rng seed w 1 == 1.
Proof. exists (fun _ => 0%Q), None, (WExp 1 2 60 0). vm_compute. split; reflexivity. Qed.
Print Assumptions C06_exponential_initial_delay_refuted.
