(* C32 — Generated deployment ids are valid DNS-1035 labels.
   Statements only; every proof is `exact <lemma>` from Proofs/DnsIdProofs.v.

   Vocabulary (Model/DnsId.v, driven by the constants Generated.v extracts from the source):
     s : str                the display name after str.lower(), as code points
     oracle i cand          answer of the i-th call of validate_deployment_id (arbitrary function)
     dr n                   the random draws of the n-th call of _append_random_suffix (arbitrary
                            integers, reduced modulo the alphabet size)
     find_deployment_id oracle dr s force = (r, n, k)
                            r = returned id (None = ValueError after the last attempt),
                            n = number of suffixes drawn, k = number of oracle calls
     derive_id              the call site in create_deployment (force = lower name is reserved)
     alnum_count s          number of characters of s in [a-z0-9]
     rfc1035_label id       non-empty, <= 63, first a letter, all in [a-z0-9-], last not a hyphen
     dns_match              the model of _DNS_1035_RE.match (classes and bounds from the source) *)
From Coq Require Import List ZArith Bool.
Import ListNotations.
From WF Require Import Generated Model.DnsId Proofs.DnsIdProofs.
Open Scope Z_scope.

(* the "lowercase alphanumerics" are exactly the class the sanitiser keeps *)
Theorem C32_kept_class_is_lowercase_alphanumerics : forall c,
  keep c = true <-> (97 <= c <= 122 \/ 48 <= c <= 57).
Proof. exact keep_is_alnum. Qed.
Print Assumptions C32_kept_class_is_lowercase_alphanumerics.

(* Clause 1: every id returned — for every name, every force flag, every sequence of random draws
   and every collision oracle — is a DNS-1035 label of at most 63 characters, and is accepted by
   the schema's own regular expression. *)
Theorem C32_id_is_dns1035_label : forall oracle dr s force id n k,
  find_deployment_id oracle dr s force = (Some id, n, k) ->
  dns_full id = true /\ dns_match id = true /\ rfc1035_label id.
Proof. exact find_id_valid. Qed.
Print Assumptions C32_id_is_dns1035_label.

Theorem C32_create_deployment_id_is_dns1035_label : forall oracle dr s id n k,
  derive_id oracle dr s = (Some id, n, k) ->
  dns_full id = true /\ dns_match id = true /\ rfc1035_label id.
Proof. exact derive_id_valid. Qed.
Print Assumptions C32_create_deployment_id_is_dns1035_label.

(* what the regular-expression model accepts is an RFC-1035 label in the textual sense *)
Theorem C32_regex_accepts_only_labels : forall id, dns_full id = true -> rfc1035_label id.
Proof. exact dns_full_spec. Qed.
Print Assumptions C32_regex_accepts_only_labels.

(* even the candidates the oracle refuses are valid labels *)
Theorem C32_every_candidate_is_valid : forall (dr : draws) s force,
  (too_short s || force = true -> forall m, valid_id (suffixed (base s) dr m)) /\
  (too_short s || force = false -> valid_id (base s) /\ forall m, valid_id (suffixed (base s) dr m)).
Proof. exact find_id_candidates_valid. Qed.
Print Assumptions C32_every_candidate_is_valid.

(* Clause 2/3: no random suffix is drawn exactly when the name has at least three lowercase
   alphanumerics, no suffix is forced, and the base id is free; the result then is the base id. *)
Theorem C32_unsuffixed_iff_three_alphanumerics_and_free : forall oracle dr s force r n k,
  find_deployment_id oracle dr s force = (r, n, k) ->
  (n = 0%nat <-> (3 <= alnum_count s /\ force = false /\ oracle 0%nat (base s) = true)) /\
  (n = 0%nat -> r = Some (base s) /\ k = 1%nat).
Proof. exact find_id_unsuffixed_iff. Qed.
Print Assumptions C32_unsuffixed_iff_three_alphanumerics_and_free.

(* at the create_deployment call site "forced" means: the lower-cased name is a reserved id *)
Theorem C32_create_deployment_unsuffixed_iff : forall oracle dr s r n k,
  derive_id oracle dr s = (r, n, k) ->
  (n = 0%nat <-> (3 <= alnum_count s /\ ~ In s c32_reserved /\ oracle 0%nat (base s) = true)).
Proof. exact derive_id_unsuffixed_iff. Qed.
Print Assumptions C32_create_deployment_unsuffixed_iff.

(* fewer than three alphanumerics: a suffix is always drawn (whatever the oracle answers) *)
Theorem C32_short_name_always_suffixed : forall oracle dr s force r n k,
  alnum_count s < 3 -> find_deployment_id oracle dr s force = (r, n, k) -> (0 < n)%nat.
Proof. exact short_name_always_suffixed. Qed.
Print Assumptions C32_short_name_always_suffixed.

(* a returned id for which a suffix was drawn is the suffixed form of the base id built from the
   last draw, and the oracle accepted it *)
Theorem C32_suffixed_id_carries_the_last_draw : forall oracle dr s force id n k,
  find_deployment_id oracle dr s force = (Some id, n, k) -> (0 < n)%nat ->
  id = suffixed (base s) dr (n - 1) /\ oracle (k - 1)%nat id = true.
Proof. exact find_id_suffixed_shape. Qed.
Print Assumptions C32_suffixed_id_carries_the_last_draw.

(* the suffixed form: five characters of the hex alphabet; after "<first 57 of base>-", or, for an
   empty base, on their own with a leading digit replaced by a drawn letter *)
Theorem C32_suffix_form : forall b (dr : draws) m,
  let hex := hex_of (fst (dr m)) in
  length hex = 5%nat /\ Forall (fun c => In c c32_hex_alphabet) hex /\
  match b with
  | [] => exists h t, hex = h :: t /\
          suffixed b dr m = (if is_digit h then pick c32_letter_alphabet (snd (dr m)) else h) :: t
  | _ => suffixed b dr m = firstn 57 b ++ [45] ++ hex
  end.
Proof. exact suffixed_form. Qed.
Print Assumptions C32_suffix_form.

(* "derived from the name's lowercase alphanumerics": the sanitised form t keeps exactly the
   name's alphanumerics, in order, separated by single hyphens (none leading, trailing or
   doubled); the base id is t, with "d-" in front exactly when t starts with a digit, cut to 63
   characters (and equal to it when it fits) *)
Theorem C32_base_is_derived_from_alphanumerics : forall s,
  let t := sanitize s in
  filter keep t = filter keep s /\ Forall idc t /\ nodouble t /\ head_ok keep t /\
  (t <> [] -> keep (last t 0) = true) /\
  let p := add_prefix t in
  (p = t \/ (p = 100 :: 45 :: t /\ head_ok is_digit t /\ t <> [])) /\
  (forall c r, t = c :: r -> is_alpha c = true -> p = t) /\
  is_prefix (base s) p /\
  ((length p <= 63)%nat -> base s = p).
Proof. exact base_derived. Qed.
Print Assumptions C32_base_is_derived_from_alphanumerics.

(* The independent specification of "derived from the name's lowercase alphanumerics": `words s`
   are the maximal runs of [a-z0-9] in the name (non-empty, all alphanumeric, their concatenation
   is the name's alphanumerics in order), and the sanitised form is these runs joined by single
   hyphens — so the base id is that, with "d-" in front of a digit, cut to 63 (previous theorem). *)
Theorem C32_sanitised_form_is_the_alphanumeric_runs_joined_by_hyphens : forall s,
  sanitize s = joinh (words s).
Proof. exact sanitize_is_joined_words. Qed.
Print Assumptions C32_sanitised_form_is_the_alphanumeric_runs_joined_by_hyphens.

Theorem C32_words_are_the_alphanumeric_runs : forall s,
  Forall word_ok (words s) /\ concat (words s) = filter keep s.
Proof. exact words_spec. Qed.
Print Assumptions C32_words_are_the_alphanumeric_runs.

(* no id is returned only after the oracle has refused all 99 candidates *)
Theorem C32_no_id_only_after_all_attempts : forall oracle dr s force r n k,
  find_deployment_id oracle dr s force = (r, n, k) ->
  (r = None -> k = 99%nat) /\
  (forall id, r = Some id -> (1 <= k <= 99)%nat /\ oracle (k - 1)%nat id = true).
Proof. exact find_id_fails_iff. Qed.
Print Assumptions C32_no_id_only_after_all_attempts.

(* ---- non-vacuity: the model evaluated on concrete names (lower-cased code points) ---- *)
Definition yes : nat -> str -> bool := fun _ _ => true.
Definition second : nat -> str -> bool := fun i _ => (0 <? i)%nat.
Definition dr0 : draws := fun _ => (fun j => Z.of_nat j + 3, 1).

(* "my service!" -> "my-service", no suffix *)
Example C32_example_plain :
  find_deployment_id yes dr0 [109; 121; 32; 115; 101; 114; 118; 105; 99; 101; 33] false = (Some [109; 121; 45; 115; 101; 114; 118; 105; 99; 101], 0%nat, 1%nat).
Proof. vm_compute. reflexivity. Qed.
Print Assumptions C32_example_plain.

(* the same name when the base id is taken: "my-service-34567" *)
Example C32_example_collision :
  find_deployment_id second dr0 [109; 121; 32; 115; 101; 114; 118; 105; 99; 101; 33] false = (Some [109; 121; 45; 115; 101; 114; 118; 105; 99; 101; 45; 51; 52; 53; 54; 55], 1%nat, 2%nat).
Proof. vm_compute. reflexivity. Qed.
Print Assumptions C32_example_collision.

(* "a b" has two alphanumerics: suffixed ("a-b-34567"), although "a-b" has three characters —
   the input on which the unrepaired code returned "a-b" (finding C32/short-name-without-suffix) *)
Example C32_example_two_alphanumerics :
  find_deployment_id yes dr0 [97; 32; 98] false = (Some [97; 45; 98; 45; 51; 52; 53; 54; 55], 1%nat, 1%nat)
  /\ alnum_count [97; 32; 98] = 2 /\ base [97; 32; 98] = [97; 45; 98] /\ length (base [97; 32; 98]) = 3%nat.
Proof. vm_compute. repeat split; reflexivity. Qed.
Print Assumptions C32_example_two_alphanumerics.

(* "7": one alphanumeric, base "d-7" *)
Example C32_example_digit :
  find_deployment_id yes dr0 [55] false = (Some [100; 45; 55; 45; 51; 52; 53; 54; 55], 1%nat, 1%nat) /\ base [55] = [100; 45; 55].
Proof. vm_compute. split; reflexivity. Qed.
Print Assumptions C32_example_digit.

(* "!!!": empty base; the drawn hex "34567" starts with a digit, replaced by the drawn letter *)
Example C32_example_empty :
  find_deployment_id yes dr0 [33; 33; 33] false = (Some [98; 52; 53; 54; 55], 1%nat, 1%nat).
Proof. vm_compute. reflexivity. Qed.
Print Assumptions C32_example_empty.

(* "version" is reserved: forced to a suffix at the call site *)
Example C32_example_reserved :
  derive_id yes dr0 [118; 101; 114; 115; 105; 111; 110] = (Some [118; 101; 114; 115; 105; 111; 110; 45; 51; 52; 53; 54; 55], 1%nat, 1%nat).
Proof. vm_compute. reflexivity. Qed.
Print Assumptions C32_example_reserved.

(* a 70-character name: the base id is cut to 63 characters and the suffixed form too *)
Example C32_example_long :
  length (base [120; 120; 120; 120; 120; 120; 120; 120; 120; 120; 120; 120; 120; 120; 120; 120; 120; 120; 120; 120; 120; 120; 120; 120; 120; 120; 120; 120; 120; 120; 32; 121; 121; 121; 121; 121; 121; 121; 121; 121; 121; 121; 121; 121; 121; 121; 121; 121; 121; 121; 121; 121; 121; 121; 121; 121; 45; 122; 122; 122; 122; 122; 122; 122; 122; 122; 122; 122; 122; 122]) = 63%nat /\ length (suffixed (base [120; 120; 120; 120; 120; 120; 120; 120; 120; 120; 120; 120; 120; 120; 120; 120; 120; 120; 120; 120; 120; 120; 120; 120; 120; 120; 120; 120; 120; 120; 32; 121; 121; 121; 121; 121; 121; 121; 121; 121; 121; 121; 121; 121; 121; 121; 121; 121; 121; 121; 121; 121; 121; 121; 121; 121; 45; 122; 122; 122; 122; 122; 122; 122; 122; 122; 122; 122; 122; 122]) dr0 0) = 63%nat
  /\ dns_full (base [120; 120; 120; 120; 120; 120; 120; 120; 120; 120; 120; 120; 120; 120; 120; 120; 120; 120; 120; 120; 120; 120; 120; 120; 120; 120; 120; 120; 120; 120; 32; 121; 121; 121; 121; 121; 121; 121; 121; 121; 121; 121; 121; 121; 121; 121; 121; 121; 121; 121; 121; 121; 121; 121; 121; 121; 45; 122; 122; 122; 122; 122; 122; 122; 122; 122; 122; 122; 122; 122]) = true /\ dns_full (suffixed (base [120; 120; 120; 120; 120; 120; 120; 120; 120; 120; 120; 120; 120; 120; 120; 120; 120; 120; 120; 120; 120; 120; 120; 120; 120; 120; 120; 120; 120; 120; 32; 121; 121; 121; 121; 121; 121; 121; 121; 121; 121; 121; 121; 121; 121; 121; 121; 121; 121; 121; 121; 121; 121; 121; 121; 121; 45; 122; 122; 122; 122; 122; 122; 122; 122; 122; 122; 122; 122; 122]) dr0 0) = true.
Proof. vm_compute. repeat split; reflexivity. Qed.
Print Assumptions C32_example_long.

(* the runs of "--My  Service!!2" (lower-cased) are "my", "service", "2" *)
Example C32_example_words :
  words [45; 45; 109; 121; 32; 32; 115; 101; 114; 118; 105; 99; 101; 33; 33; 50] = [[109; 121]; [115; 101; 114; 118; 105; 99; 101]; [50]] /\ sanitize [45; 45; 109; 121; 32; 32; 115; 101; 114; 118; 105; 99; 101; 33; 33; 50] = [109; 121; 45; 115; 101; 114; 118; 105; 99; 101; 45; 50].
Proof. vm_compute. split; reflexivity. Qed.
Print Assumptions C32_example_words.
