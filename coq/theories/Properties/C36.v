(* C36 — Idle runs are released after the idle timeout and reloaded on demand.
   In-process stack: M-IdleRelease (Model/IdleRelease.v); DBOS stack: the lifecycle lock
   M-Lifecycle (Model/Lifecycle.v).  Statements only; proofs in Proofs/*. *)
From Coq Require Import List ZArith Bool String.
Import ListNotations.
From WF Require Import Generated Model.IdleRelease Proofs.IdleReleaseProofs Model.Lifecycle Proofs.LifecycleProofs.
Open Scope Z_scope.

(* the idle announcement marks the handler idle (idle_since := the time of the announcement) and
   starts a deferred release due idle_timeout later *)
Theorem C36_idle_event_marks_handler : forall tau tr s s',
  run tau init tr = Some s -> step tau s EIdleWrite = Some s' ->
  exists t, idle_since s' = Some t /\ t <= now s' /\ In (RSleep (now s' + tau)) (tasks s').
Proof. exact ir_idle_event_marks. Qed.
Print Assumptions C36_idle_event_marks_handler.

(* every action sequence: a run that is in memory and marked idle since t has a pending releaser
   whose check cannot happen before t + idle_timeout (so the check `elapsed >= idle_timeout` passes) *)
Theorem C36_marked_idle_run_has_releaser : forall tau tr s,
  run tau init tr = Some s -> raced (g s) = false ->
  active s = true -> forall t, idle_since s = Some t -> count is_reloaded (tasks s) = 0%nat ->
  exists due p, In p (tasks s) /\ releaser due p /\ t + tau <= due.
Proof. exact ir_releaser_pending. Qed.
Print Assumptions C36_marked_idle_run_has_releaser.

Theorem C36_woken_releaser_is_due : forall tau tr s p,
  run tau init tr = Some s -> In p (tasks s) -> due_ok (now s) p.
Proof. exact ir_releaser_woken_is_due. Qed.
Print Assumptions C36_woken_releaser_is_due.

(* ... and when that releaser runs its check while the mark is still there, the run is released:
   dropped from _active_run_ids, control loop gone, handler still marked idle *)
Theorem C36_released_after_timeout : forall tau s i due t,
  nth_error (tasks s) i = Some (RHold due) -> idle_since s = Some t -> t + tau <= due -> due <= now s ->
  active s = true ->
  exists s', step tau s (Task i) = Some s' /\ active s' = false /\ loops s' = [] /\
             idle_since s' = Some t /\ released (g s') = true.
Proof. exact release_fires. Qed.
Print Assumptions C36_released_after_timeout.

(* every action sequence: while a run is released its handler is marked idle and nothing of it is in memory *)
Theorem C36_released_handler_marked_idle : forall tau tr s,
  run tau init tr = Some s -> released (g s) = true ->
  idle_since s <> None /\ active s = false /\ loops s = [].
Proof. exact ir_released_is_marked_idle. Qed.
Print Assumptions C36_released_handler_marked_idle.

(* the next event sent to a released run reloads it under the reload lock: one new control loop whose
   engine state is the persisted one (busy, tick log), idle mark cleared, the event in its receive queue *)
Theorem C36_next_event_reloads : forall tau s e,
  started s = true -> active s = false -> loops s = [] -> lock_free s = true ->
  let i := List.length (tasks s) in
  exists s', run tau s [Send e; Task i; Task i; Task i; Task i] = Some s' /\
    active s' = true /\ idle_since s' = None /\ busy s' = busy s /\ log s' = log s /\
    loops s' = [{| mail := [e] ; retries := 0 ; sched := 0 ; idle_cap := None ; marked := false |}] /\
    nth_error (tasks s') i = Some Done /\ reloads (g s') = S (reloads (g s)).
Proof. exact ir_reload_on_send. Qed.
Print Assumptions C36_next_event_reloads.

(* the release test of the source is still the one the model uses (translated on every run) *)
Example C36_release_test_in_source : idle_release_early_return_when_elapsed = "Lt self._idle_timeout"%string.
Proof. reflexivity. Qed.
Print Assumptions C36_release_test_in_source.

(* non-vacuity: released after the timeout, reloaded by the next event, which is then processed *)
Example C36_nonvacuous :
  exists tau tr s, run tau init tr = Some s /\ run_truthful tau init tr = true /\ raced (g s) = false /\
                   active s = true /\ log s = [3] /\ reloads (g s) = 1%nat /\ idle_since s = None.
Proof. exact wit_release_and_reload. Qed.
Print Assumptions C36_nonvacuous.

(* ---- DBOS stack: the lifecycle lock ---- *)
(* with a row, release and resume are compare-and-set steps of the documented state machine *)
Theorem C36_dbos_lock_state_machine : forall now r k,
  st_of (fst (row_step now r k)) = st_of r \/ edge now r k (st_of (fst (row_step now r k))).
Proof. exact lc_state_machine. Qed.
Print Assumptions C36_dbos_lock_state_machine.

(* REFUTED for the DBOS stack: the only operation that creates the row is `create`, which the runtime
   never calls; for every sequence of the other operations, by any number of replicas, on a run
   without a row no begin_release ever succeeds -- no DBOS run is ever released *)
Theorem C36_dbos_release_refuted : forall run ops t, no_create run ops -> lookup run t = None ->
  lookup run (fst (lrun t ops)) = None /\
  count_wins is_release_win run ops (snd (lrun t ops)) = 0%nat /\
  count_wins is_resume_win run ops (snd (lrun t ops)) = 0%nat.
Proof. exact lc_no_create_no_release. Qed.
Print Assumptions C36_dbos_release_refuted.

(* partial: with the row present begin_release succeeds exactly on an active row *)
Theorem C36_dbos_begin_release_partial : forall now r,
  (exists u, r = Some (LActive, u) /\ row_step now r BeginRelease = (Some (LReleasing, now), RBool true)) \/
  ((forall u, r <> Some (LActive, u)) /\ row_step now r BeginRelease = (r, RBool false)).
Proof. exact begin_release_spec. Qed.
Print Assumptions C36_dbos_begin_release_partial.
