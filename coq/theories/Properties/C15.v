(* C15 - The server's handler record always reflects the run outcome.
   Statements only; every proof is `exact <lemma>` from Proofs/ServerPersistProofs.v.
   Model: Model/ServerPersist.v (write_to_event_stream, _retry_store_write, idle status writes, run watcher,
   _on_server_start) on top of the reducer model Model/Engine.v. *)
From Coq Require Import List ZArith Bool PeanoNat.
Import ListNotations.
From WF Require Import Model.Engine Model.ServerPersist Proofs.ServerPersistProofs.
Open Scope Z_scope.

(* what "the stored record agrees with the way the run ended" means, restated so it cannot be weakened elsewhere *)
Theorem C15_definitions : forall h o,
  agrees h o =
  match o with
  | OCompleted e => h_status h = SCompleted /\ h_result h = Some e
  | OFailedStep x => h_status h = SFailed /\ h_error h = Some (EExn x)
  | OTimedOut t _ => h_status h = SFailed /\ h_error h = Some (ETimeoutEvent t)
  | OCancelled => h_status h = SCancelled
  | OIdleReleased => h_status h = SRunning
  | OEngineExc c => h_status h = SFailed /\ h_error h = Some (EEngine c)
  | OStoreExc => is_terminal (h_status h) = true
  end.
Proof. intros h o. destruct o; reflexivity. Qed.
Print Assumptions C15_definitions.

(* ---- the link to the engine: every command list the reducer produces, for any tick, state and retry policy,
   carries a terminal stream event exactly when - and immediately before - it ends the run, with the same payload *)
Theorem C15_reducer_pairs_terminal_event_with_exit : forall stops P t s now s' cs,
  reduce P t s now = Ok (s', cs) -> tick_clean stops t = true -> c_stop (cfg s) = stops ->
  cmds_wf stops None cs.
Proof. exact reduce_cmds_wf. Qed.
Print Assumptions C15_reducer_pairs_terminal_event_with_exit.

(* ---- retry/back-off on handler-status writes ---- *)
(* a write is applied exactly once when the retry loop returns, not at all when it re-raises *)
Theorem C15_retry_applies_once : forall n w c st st',
  retry_status n w c st = (st', true) -> s_rec st' = w (s_rec st).
Proof. exact retry_ok_applies. Qed.
Print Assumptions C15_retry_applies_once.

Theorem C15_retry_failure_writes_nothing : forall n w c st st',
  retry_status n w c st = (st', false) -> s_rec st' = s_rec st.
Proof. exact retry_fail_keeps. Qed.
Print Assumptions C15_retry_failure_writes_nothing.

(* at most |backoff| + 1 attempts *)
Theorem C15_retry_attempts_bounded : forall n w c st st' ok,
  retry_status n w c st = (st', ok) -> (length (s_trace st') <= length (s_trace st) + S n)%nat.
Proof. exact retry_attempts_bound. Qed.
Print Assumptions C15_retry_attempts_bounded.

(* up to |backoff| consecutive failures are tolerated (the remaining fault stream is tolerable again) ... *)
Theorem C15_retry_tolerates_backoff_many_failures : forall bo w c n k st,
  (n + k = bo)%nat -> tolerable bo k (f_status (s_fl st)) = true ->
  exists st', retry_status n w c st = (st', true) /\ tolerable bo 0 (f_status (s_fl st')) = true.
Proof. exact retry_tolerable. Qed.
Print Assumptions C15_retry_tolerates_backoff_many_failures.

(* ... and |backoff| + 1 are not: the bound is exact *)
Theorem C15_retry_gives_up_after_backoff_plus_one : forall w c n st l,
  f_status (s_fl st) = repeat true (S n) ++ l -> exists st', retry_status n w c st = (st', false).
Proof. exact retry_exhausted. Qed.
Print Assumptions C15_retry_gives_up_after_backoff_plus_one.

(* ---- status_matches ---- *)
(* For every history of ticks (well-formed command lists, e.g. any produced by the reducer) and EVERY pattern of
   store faults: when the run ends through an exit command - completed, step failure, timeout, cancel - the stored
   handler has the matching status with the result / the error. *)
Theorem C15_status_matches_for_every_exit_command : forall bo stops rs fl st' o,
  Forall (tick_wf stops) rs -> server_run bo stops rs (fresh fl) = (st', Some o) ->
  o <> OStoreExc -> (forall c, o <> OEngineExc c) ->
  exists h, s_rec st' = Some h /\ agrees h o.
Proof. exact status_matches_exit. Qed.
Print Assumptions C15_status_matches_for_every_exit_command.

(* For every way a run can end - including a reducer exception (no terminal event is ever published) and a store
   exception escaping into the control loop - provided no more than |backoff| handler-status writes in a row fail. *)
Theorem C15_status_matches_for_every_outcome : forall bo stops rs fl st' o,
  Forall (tick_wf stops) rs -> tolerable bo 0 (f_status fl) = true ->
  server_run bo stops rs (fresh fl) = (st', Some o) ->
  exists h, s_rec st' = Some h /\ agrees h o.
Proof. exact status_matches_all. Qed.
Print Assumptions C15_status_matches_for_every_outcome.

(* A handler never stays running after its run has ended. *)
Theorem C15_never_stays_running : forall bo stops rs fl st' o,
  Forall (tick_wf stops) rs -> tolerable bo 0 (f_status fl) = true ->
  server_run bo stops rs (fresh fl) = (st', Some o) -> o <> OIdleReleased ->
  exists h, s_rec st' = Some h /\ is_terminal (h_status h) = true.
Proof. exact never_stays_running. Qed.
Print Assumptions C15_never_stays_running.

(* ---- transient_faults_tolerated ---- *)
Theorem C15_transient_faults_tolerated : forall bo stops rs fs,
  tolerable bo 0 fs = true ->
  let faulty := server_run bo stops rs (fresh {| f_status := fs ; f_event := [] ; f_idle := [] |}) in
  let clean := server_run bo stops rs (fresh no_faults) in
  s_rec (fst faulty) = s_rec (fst clean) /\ snd faulty = snd clean.
Proof. exact transient_faults_tolerated. Qed.
Print Assumptions C15_transient_faults_tolerated.

(* ---- terminal_sticky ---- *)
(* Over all histories of starts, ticks, external sends, idle releases / crashes, server restarts (any replay
   result) and all store faults: a stored terminal record is never modified again. *)
Theorem C15_terminal_sticky : forall bo stops ops y h,
  Forall (op_wf stops) ops -> live_inv y ->
  s_rec (y_store y) = Some h -> is_terminal (h_status h) = true ->
  s_rec (y_store (run_sops bo stops ops y)) = Some h.
Proof. exact terminal_sticky. Qed.
Print Assumptions C15_terminal_sticky.

Theorem C15_terminal_sticky_from_start : forall bo stops fl ops1 ops2 h,
  Forall (op_wf stops) (ops1 ++ ops2) ->
  s_rec (y_store (run_sops bo stops ops1 (sys0 fl))) = Some h -> is_terminal (h_status h) = true ->
  s_rec (y_store (run_sops bo stops (ops1 ++ ops2) (sys0 fl))) = Some h.
Proof. exact terminal_sticky_from_start. Qed.
Print Assumptions C15_terminal_sticky_from_start.

(* ---- refutations ---- *)
(* The service as it was before commit d492824 (nobody awaits the run): a reducer exception ends the run and the
   handler stays running.  Kept as the witness of the repaired defect. *)
Theorem C15_unrepaired_status_matches_refuted :
  exists rs st' o, Forall (tick_wf [9]) rs /\
    server_run_unrepaired 2 [9] rs (fresh no_faults) = (st', Some o) /\ o <> OIdleReleased /\
    rec_status st' = Some SRunning.
Proof. exact unrepaired_refuted. Qed.
Print Assumptions C15_unrepaired_status_matches_refuted.

(* The tolerance hypothesis cannot be dropped: a store that fails |backoff|+1 times for the terminal write and
   again for the watcher leaves the record running (nothing can be recorded in a store that refuses writes). *)
Theorem C15_persistent_outage_leaves_running :
  exists rs fl st' o, Forall (tick_wf [9]) rs /\
    server_run 2 [9] rs (fresh fl) = (st', Some o) /\ o <> OIdleReleased /\ rec_status st' = Some SRunning.
Proof. exact outage_leaves_running. Qed.
Print Assumptions C15_persistent_outage_leaves_running.

(* Nor can well-formedness: a step that puts a StopEvent on the stream by hand and lets the run go idle makes the
   status go completed -> running (outside the property's domain; recorded so the hypothesis is visibly needed). *)
Theorem C15_hand_published_stop_event_reverts_status :
  exists ops h1 h2,
    s_rec (y_store (run_sops 2 [9] (firstn 2 ops) (sys0 no_faults))) = Some h1 /\ h_status h1 = SCompleted /\
    s_rec (y_store (run_sops 2 [9] ops (sys0 no_faults))) = Some h2 /\ h_status h2 = SRunning.
Proof. exact hand_published_stop_reverts. Qed.
Print Assumptions C15_hand_published_stop_event_reverts_status.

(* ---- non-vacuity ---- *)
(* a real reducer run: one step returning a StopEvent; the command list is well formed and the fault pattern
   (two failures in a row, back-off of two) is tolerable; the handler ends completed with the result *)
Definition ex_cfg : config := {| c_handler_for := [] ; c_handlers := [] ; c_start := [0] ; c_stop := [9] ;
                                 c_inputreq := [8] ; c_ty_stepfailed := 7 |}.
Definition ex_state : state :=
  {| running := false ; cfg := ex_cfg ;
     workers := [(1, {| w_cfg := {| accepts := [0] ; nworkers := 1 ; pol := None |} ; queue := [] ;
                        inprogress := [] ; collected := [] ; waiters := [] |})] |}.
Definition ex_start : event := {| ety := 0 ; eid := 1 ; eattrs := [] |}.
Definition ex_stop : event := {| ety := 9 ; eid := 2 ; eattrs := [] |}.
Definition ex_ticks : list tick :=
  [TAdd {| a_ev := ex_start ; a_att := None ; a_first := None ; a_exn := None ; a_failed := None ; a_rc := [] |} None ;
   TStep 1 0 ex_start [RResult (OEvent ex_stop)]].
Fixpoint cmds_of (P : policy) (s : state) (ts : list tick) : list stick :=
  match ts with
  | [] => []
  | t :: r => match reduce P t s 0 with
              | Err c => [(is_idlecheck t, Err c)]
              | Ok (s', cs) => (is_idlecheck t, Ok cs) :: cmds_of P s' r
              end
  end.
Example C15_example_completed_under_transient_faults :
  let rs := cmds_of (fun _ _ _ _ => PStop) ex_state ex_ticks in
  let fl := {| f_status := [false ; true ; true ; false] ; f_event := [] ; f_idle := [] |} in
  Forall (tick_wf [9]) rs /\ tolerable 2 0 (f_status fl) = true /\
  exists st', server_run 2 [9] rs (fresh fl) = (st', Some (OCompleted ex_stop)) /\
              option_map h_status (s_rec st') = Some SCompleted /\
              option_map h_result (s_rec st') = Some (Some ex_stop) /\
              s_trace st' = [CallInit true ; CallAppend 1 true ; CallAppend 1 true ;
                             CallStatus SCompleted false ; CallStatus SCompleted false ;
                             CallStatus SCompleted true ; CallAppend 2 true].
Proof.
  cbv zeta. split; [| split; [reflexivity |]].
  - vm_compute. repeat constructor.
  - eexists. split; [vm_compute; reflexivity |]. vm_compute. repeat split; reflexivity.
Qed.
Print Assumptions C15_example_completed_under_transient_faults.

(* a reducer exception (retry policy raising): no terminal event, the watcher marks the handler failed *)
Example C15_example_engine_failure_marked_failed :
  exists st', server_run 2 [9] [(false, Ok [CPublish (PStep 1 Running (Some 0%nat) 0 NoOut)]) ; (false, Err 3)] (fresh no_faults)
              = (st', Some (OEngineExc 3)) /\
              option_map h_status (s_rec st') = Some SFailed /\
              option_map h_error (s_rec st') = Some (Some (EEngine 3)).
Proof. eexists. split; [vm_compute; reflexivity |]. vm_compute. repeat split; reflexivity. Qed.
Print Assumptions C15_example_engine_failure_marked_failed.
