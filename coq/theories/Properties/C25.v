(* C25 — The keyed lock gives per-key mutual exclusion and cleans up.
   Statements only; every proof is `exact <lemma>` from Proofs/KeyedLockProofs.v.

   [reach keys sched] is the state of the model of KeyedLock.__call__ (Model/KeyedLock.v) after n tasks
   (task i doing `async with kl(keys_i): <body>`) were driven by the ARBITRARY list of scheduler choices
   [sched] (CRun i: next atomic segment of task i; COpen i: the body of i gets what it awaits;
   CCancel i: task_i.cancel() — possible before the first step, while queued, after being woken but
   before running, inside the body).  asyncio.Lock / Task.cancel are the executable definitions of
   Base/SchedKL.v (trusted primitive, compared with the real asyncio objects on every run). *)
From Coq Require Import List Bool Arith ZArith Lia.
Import ListNotations.
From WF Require Import Base.SchedKL Model.KeyedLock Proofs.KeyedLockProofs.

(* 1. at most one holder per key, at any time, under every schedule and cancellation pattern *)
Theorem C25_mutual_exclusion : forall keys sched i j,
  let s := reach keys sched in
  in_cs s i = true -> in_cs s j = true -> t_key (get s i) = t_key (get s j) -> i = j.
Proof. exact mutual_exclusion. Qed.
Print Assumptions C25_mutual_exclusion.

(* 2. _refs[k] = number of tasks between `refs += 1` and `refs -= 1`; k in _locks iff that is > 0 *)
Theorem C25_refs_count_and_locks_iff : forall keys sched k,
  let s := reach keys sched in
  let c := length (registered_ids s k) in
  alookup k (s_refs s) = (if c =? 0 then None else Some (Z.of_nat c)) /\
  (alookup k (s_locks s) = None <-> c = 0).
Proof. exact refs_count. Qed.
Print Assumptions C25_refs_count_and_locks_iff.

(* 3. once all holders and waiters are gone (finished or cancelled anywhere) no lock state remains *)
Theorem C25_no_state_when_all_gone : forall keys sched,
  let s := reach keys sched in
  all_done s = true -> s_locks s = [] /\ s_refs s = [].
Proof. exact cleanup. Qed.
Print Assumptions C25_no_state_when_all_gone.

Theorem C25_no_state_for_unused_key : forall keys sched k,
  let s := reach keys sched in
  registered_ids s k = [] -> alookup k (s_locks s) = None /\ alookup k (s_refs s) = None.
Proof. exact cleanup_key. Qed.
Print Assumptions C25_no_state_for_unused_key.

(* 4. no KeyError / RuntimeError can escape from KeyedLock, the main lock is free at every scheduling
   point and no task is ever suspended on it (so the register / deregister blocks are atomic and
   cannot be interrupted by a cancellation) *)
Theorem C25_no_internal_error_main_lock_uncontended : forall keys sched,
  let s := reach keys sched in
  s_err s = false /\ s_main s = lock_new /\
  forall i, t_pc (get s i) <> PWaitMain1 /\ forall e, t_pc (get s i) <> PWaitMain2 e.
Proof. exact no_internal_error. Qed.
Print Assumptions C25_no_internal_error_main_lock_uncontended.

(* 5. holders of different keys do not block each other: a step of a task of key k' neither reads nor
   writes the lock, the refcount or any task of another key k; and a task whose key nobody else
   uses enters in its very first step whatever happens on other keys *)
Theorem C25_independence_frame : forall keys sched c k,
  let s := reach keys sched in
  k <> t_key (get s (task_of c)) ->
  let s' := step s c in
  alookup k (s_locks s') = alookup k (s_locks s) /\ alookup k (s_refs s') = alookup k (s_refs s) /\
  forall j, t_key (get s j) = k -> get s' j = get s j.
Proof. exact independence_frame. Qed.
Print Assumptions C25_independence_frame.

Theorem C25_independence_enter : forall keys sched i,
  let s := reach keys sched in
  i < length (s_tasks s) -> t_pc (get s i) = PInit -> t_mc (get s i) = false ->
  registered_ids s (t_key (get s i)) = [] ->
  in_cs (step s (CRun i)) i = true.
Proof. exact independence_enter. Qed.
Print Assumptions C25_independence_enter.

(* 6. every waiter eventually enters.
   (a) no deadlock: while some task is unfinished, some non-cancel choice does something;
   (b) at most 6n choices of any schedule do something other than cancelling (termination measure);
   (c) a queued task that nobody cancels stays queued until it is inside; hence in every run that
       continues until all tasks are finished it has been inside its critical section. *)
Theorem C25_no_deadlock : forall keys sched,
  let s := reach keys sched in
  all_done s = false -> exists c, enabled s c = true.
Proof. exact deadlock_free. Qed.
Print Assumptions C25_no_deadlock.

Theorem C25_bounded_progress : forall keys sched,
  effective (init keys) sched <= 6 * length keys.
Proof. exact bounded_progress. Qed.
Print Assumptions C25_bounded_progress.

Theorem C25_waiter_eventually_enters : forall keys sched sched' i,
  let s := reach keys sched in
  waiting s i -> (forall c, In c sched' -> c <> CCancel i) ->
  all_done (exec s sched') = true ->
  exists p q, sched' = p ++ q /\ in_cs (exec s p) i = true.
Proof. exact waiter_eventually_enters. Qed.
Print Assumptions C25_waiter_eventually_enters.

(* 7. FIFO: a task enters either from the HEAD of its key's queue, or at once past waiters that are
   all cancelled; the queue only grows at its tail and shrinks by removal of the acting task *)
Theorem C25_fifo_enter : forall keys sched c j,
  let s := reach keys sched in
  j < length (s_tasks s) -> in_cs s j = false -> in_cs (step s c) j = true ->
  c = CRun j /\
  ((t_pc (get s j) = PWaitKey /\
    exists l r, alookup (t_key (get s j)) (s_locks s) = Some l /\ l_waiters l = j :: r) \/
   (t_pc (get s j) = PInit /\
    forall x, In x (ws_of (alookup (t_key (get s j)) (s_locks s))) -> t_fut (get s x) = FCancelled)).
Proof. exact fifo_enter. Qed.
Print Assumptions C25_fifo_enter.

Theorem C25_queue_is_fifo : forall keys sched c k,
  let s := reach keys sched in
  let ws := ws_of (alookup k (s_locks s)) in
  let ws' := ws_of (alookup k (s_locks (step s c))) in
  ws' = ws \/ ws' = ws ++ [task_of c] \/ ws' = rm1 (task_of c) ws.
Proof. exact queue_is_fifo. Qed.
Print Assumptions C25_queue_is_fifo.

(* non-vacuity: three tasks on key 0 and one on key 1; task 1 is cancelled while queued, task 2 is
   woken, cancelled before it runs, and passes the wake-up on; hypotheses of the theorems above are
   met by concrete reachable states *)
Example C25_nonvacuous :
  let keys := [0; 0; 0; 1; 0] in
  let sched1 := [CRun 0; CRun 1; CRun 2; CRun 3; CRun 4] in
  let s1 := reach keys sched1 in
  in_cs s1 0 = true /\ in_cs s1 3 = true /\ waiting s1 2 /\ waiting s1 4 /\
  alookup 0 (s_refs s1) = Some 4%Z /\ length (registered_ids s1 0) = 4 /\
  let sched2 := [CCancel 1; COpen 0; CRun 0; CCancel 2; CRun 1; CRun 2; CRun 4; COpen 4; CRun 4; COpen 3; CRun 3] in
  let s2 := exec s1 sched2 in
  all_done s2 = true /\ s_locks s2 = [] /\ s_refs s2 = [] /\
  in_cs (exec s1 [CCancel 1; COpen 0; CRun 0; CCancel 2; CRun 1; CRun 2; CRun 4]) 4 = true /\
  effective (init keys) (sched1 ++ sched2) = 14.
Proof. vm_compute. repeat split; auto; try lia. Qed.
Print Assumptions C25_nonvacuous.
