(* C23 — Workflow validation accepts exactly the well-formed graphs, and the human-in-the-loop flag.
   Statements only; every proof is `exact <lemma>` from Proofs/ValidateProofs.v.
   Model: Model/Validate.v (what representation/validate.py does); specification:
   Model/ValidateSpec.v (written from the property text). *)
From Coq Require Import List ZArith Bool Permutation.
Import ListNotations.
From WF Require Import Model.Validate Model.ValidateSpec Model.ValidateEnc Proofs.ValidateProofs.
Open Scope Z_scope.

(* validate accepts a step set iff it is well formed: exactly one start and one stop type, no stop
   consumer, consumed <-> produced modulo boundary events, consistent @catch_error handlers, every
   step reachable and able to reach an output event except where a check is skipped — for every
   class universe U, every step dict g (distinct names) and every skip_graph_checks setting *)
Theorem C23_validate_iff : forall U g sk,
  NoDup (map s_name g) ->
  ((exists a, validate U g sk = Accept a) <-> well_formed U g sk).
Proof. exact validate_iff. Qed.
Print Assumptions C23_validate_iff.

(* the returned flag is true iff an InputRequiredEvent (sub)class is produced or a
   HumanResponseEvent (sub)class is consumed; the inferred start/stop classes are the unique ones *)
Theorem C23_hitl_iff : forall U g sk a,
  validate U g sk = Accept a ->
  one_start U g (a_start a) /\ one_stop U g (a_stop a) /\
  (a_hitl a = true <-> hitl_spec U g (a_start a)).
Proof. exact validate_fields. Qed.
Print Assumptions C23_hitl_iff.

(* the reachability procedure (_dfs with explicit stack and visited set): the fuel given to the
   while loop always suffices, and the result is exactly the set of nodes reachable from the seeds *)
Theorem C23_dfs_total : forall E S, exists r, run_dfs E S = Some r.
Proof. exact run_dfs_total. Qed.
Print Assumptions C23_dfs_total.

Theorem C23_dfs_correct : forall E S r,
  run_dfs E S = Some r -> forall n, In n r <-> reach E S n.
Proof. exact run_dfs_spec. Qed.
Print Assumptions C23_dfs_correct.

Theorem C23_validate_terminates : forall U g sk, validate U g sk <> Reject ROutOfFuel.
Proof. exact validate_never_out_of_fuel. Qed.
Print Assumptions C23_validate_terminates.

(* the verdict, the inferred classes and the flag do not depend on the iteration order of the
   steps dict / of the sets the code builds *)
Theorem C23_order_independent : forall U g g' sk,
  NoDup (map s_name g) -> Permutation g g' ->
  ((exists a, validate U g sk = Accept a) <-> (exists a, validate U g' sk = Accept a)).
Proof. exact validate_order_independent. Qed.
Print Assumptions C23_order_independent.

Theorem C23_order_fields : forall U g g' sk a a',
  Permutation g g' -> validate U g sk = Accept a -> validate U g' sk = Accept a' ->
  a_start a = a_start a' /\ a_stop a = a_stop a' /\ a_hitl a = a_hitl a'.
Proof. exact validate_order_fields. Qed.
Print Assumptions C23_order_fields.

(* handler_for_step of an accepted workflow: n is routed to h iff h claims n in for_steps, or n is
   an unclaimed non-handler step and h is the wildcard handler *)
Theorem C23_route_covers : forall g n h,
  (length (wildcards g) <= 1)%nat -> (In (n, h) (route g) <-> covers g n h).
Proof. exact route_covers. Qed.
Print Assumptions C23_route_covers.

(* ---- the hypotheses are satisfiable / the statements are not vacuous ---- *)
(* types: 0 StartEvent, 1 StopEvent, 5 plain, 14 an InputRequiredEvent subclass, 16 a HumanResponseEvent
   subclass, 4 StepFailedEvent; steps 0..3, step 3 a wildcard @catch_error handler *)
Definition exU := mkU [(0, 1); (1, 2); (5, 0); (14, 4); (16, 8); (4, 16)].
Definition exG : graph :=
  [St 0 [0] [5; 14] false None (Some 1) false false;
   St 1 [5] [1] false None (Some 1) false false;
   St 2 [16] [1] false None (Some 1) false false;
   St 3 [4] [1] true None (Some 2) false false].
Definition sk0 := Sk false false false.

Example C23_ex_accept :
  exists a, validate exU exG sk0 = Accept a /\ a_hitl a = true /\ a_start a = 0 /\ a_stop a = 1
            /\ a_route a = [(0, 3); (1, 3); (2, 3)].
Proof. eexists. repeat split; vm_compute; reflexivity. Qed.
Print Assumptions C23_ex_accept.

Example exG_names : NoDup (map s_name exG).
Proof. simpl. repeat constructor; simpl; intuition discriminate. Qed.
Print Assumptions exG_names.

Example C23_ex_well_formed : well_formed exU exG sk0.
Proof. apply (proj1 (validate_iff exU exG sk0 exG_names)). eexists. vm_compute. reflexivity. Qed.
Print Assumptions C23_ex_well_formed.

(* an unreachable step is rejected unless the check is skipped for it or for the workflow *)
Definition exBad : graph := exG ++ [St 4 [6] [1] false None (Some 1) false false].
Example C23_ex_reject :
  validate exU exBad sk0 = Reject (RUnproduced [6]) /\
  (exists a, validate exU (exG ++ [St 4 [16] [5] false None (Some 1) false false]) sk0 = Accept a) /\
  validate exU (exG ++ [St 4 [4] [1] false None (Some 1) false false]) sk0 = Reject (RGraph [4] [] []) /\
  (exists a, validate exU (exG ++ [St 4 [4] [1] false None (Some 1) true false]) sk0 = Accept a) /\
  (exists a, validate exU (exG ++ [St 4 [4] [1] false None (Some 1) false false]) (Sk true false false) = Accept a).
Proof. repeat split; try eexists; vm_compute; reflexivity. Qed.
Print Assumptions C23_ex_reject.

(* The defect repaired by the fix: commit.  Before it, the flag was computed with exact-class
   membership tests against the two root classes (2 = InputRequiredEvent, 3 = HumanResponseEvent):
   the workflow above uses human-in-the-loop through subclasses, yet that flag is false. *)
Example C23_hitl_exact_refuted_before_fix :
  hitl_spec exU exG 0 /\ uses_hitl_exact 2 3 exG 0 = false.
Proof. exact (conj (proj1 (uses_hitl_spec exU exG 0) eq_refl) eq_refl). Qed.
Print Assumptions C23_hitl_exact_refuted_before_fix.
