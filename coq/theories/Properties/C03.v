(* C03 — Queued work never stalls and idleness is reported only when truly idle.
   Statements only; proofs are in Proofs/EngineStall.v (reducer), Proofs/RunnerIdle.v and
   Proofs/RunnerStall.v (runner model). *)
From Coq Require Import List ZArith Bool PeanoNat.
Import ListNotations.
From WF Require Import Model.Engine Model.Runner Proofs.EngineCap Proofs.EngineStall Proofs.RunnerIdle Proofs.RunnerStall.
Open Scope Z_scope.

(* ----- no stall ----- *)
Theorem C03_nostall_is : forall s,
  Nostall s <->
  Forall (fun p => queue (snd p) = [] \/ (nworkers (w_cfg (snd p)) <= length (inprogress (snd p)))%nat) (workers s).
Proof. intros s. unfold Nostall, Nostall_ws, nostall_w. tauto. Qed.
Print Assumptions C03_nostall_is.

(* every tick that does not end the run (no halt/complete/fail command) preserves it, for every
   tick kind, result list and retry-policy oracle *)
Theorem C03_live_tick_preserves_nostall : forall P t s now s' cs,
  Nostall s -> reduce P t s now = Ok (s', cs) -> existsb is_exit cs = false -> Nostall s'.
Proof. exact reduce_nostall. Qed.
Print Assumptions C03_live_tick_preserves_nostall.

Theorem C03_every_live_state : forall P ts s s', Nostall s -> run_live P s ts = Ok s' -> Nostall s'.
Proof. exact run_live_nostall. Qed.
Print Assumptions C03_every_live_state.

Theorem C03_fresh_state_nostall : forall s, Nostall (blank_state s).
Proof. exact blank_state_nostall. Qed.
Print Assumptions C03_fresh_state_nostall.

(* a resumed run (any deserialized state, e.g. with everything re-queued) starts without a stall *)
Theorem C03_resume_establishes_nostall : forall s now s' cs,
  Keys_ok s -> rewind s now = Ok (s', cs) -> Nostall s'.
Proof. exact rewind_nostall. Qed.
Print Assumptions C03_resume_establishes_nostall.

(* the drain loop always runs to the worker limit or to an empty queue, from any worker state *)
Theorem C03_drain_fills_capacity : forall step fuel w now w' cs,
  (length (queue w) <= fuel)%nat -> drain step w now fuel = Ok (w', cs) ->
  queue w' = [] \/ (nworkers (w_cfg w') <= length (inprogress w'))%nat.
Proof. exact drain_nostall. Qed.
Print Assumptions C03_drain_fills_capacity.

(* ----- idleness, reducer level ----- *)
Theorem C03_idle_test_is : forall s,
  check_idle s = true <->
  running s = true /\ Forall (fun p => queue (snd p) = [] /\ inprogress (snd p) = []) (workers s).
Proof. exact check_idle_spec. Qed.
Print Assumptions C03_idle_test_is.

(* WorkflowIdleEvent is published only by the idle-check tick and only when nothing is queued or
   running in any step and the run is live *)
Theorem C03_idle_event_only_when_quiet : forall P s now s' cs,
  reduce P TIdleCheck s now = Ok (s', cs) ->
  s' = s /\ (existsb is_idle_pub cs = true -> check_idle s = true).
Proof. exact idle_event_only_when_quiet. Qed.
Print Assumptions C03_idle_event_only_when_quiet.

Theorem C03_no_other_tick_publishes_idle : forall P t s now s' cs,
  t <> TIdleCheck -> reduce P t s now = Ok (s', cs) -> publishes_idle cs = false.
Proof. exact only_idle_check_publishes_idle. Qed.
Print Assumptions C03_no_other_tick_publishes_idle.

(* UnhandledEvent.idle is exactly the idle test of the state the tick leaves *)
Theorem C03_unhandled_idle_flag : forall a target s now s' cs ty tg b,
  process_add a target s now = Ok (s', cs) -> In (CPublish (PUnhandled ty tg b)) cs -> b = check_idle s'.
Proof. exact unhandled_idle_flag. Qed.
Print Assumptions C03_unhandled_idle_flag.

(* ----- no stall, runner level (Model/Runner.v): for every policy, every start state without a stall (a fresh or a
   resumed one, see above), every start event and every schedule of worker completions (any result lists, any sends),
   deliveries and clock advances: while the run is live, the engine state the run loop holds has no stall - a step with
   queued events has all its worker slots taken ----- *)
Theorem C03_run_loop_never_stalls : forall P s e now acts,
  Nostall s -> Runner.outcome (run_at P s e now acts) = ORunning -> Nostall (st (run_at P s e now acts)).
Proof. exact run_loop_nostall. Qed.
Print Assumptions C03_run_loop_never_stalls.

(* ----- idleness, runner level (Model/Runner.v): for every policy, start state, start event and
   every schedule of worker completions / deliveries / time steps, no WorkflowIdleEvent is ever
   published while a retry is waiting out its delay (idlelog records that bit at every publication) ----- *)
Theorem C03_idle_never_with_pending_retry : forall P s e acts,
  Forall (fun entry => fst entry = false) (idlelog (run P s e acts)).
Proof. exact idle_never_with_pending_retry. Qed.
Print Assumptions C03_idle_never_with_pending_retry.

(* REFUTED clause: "no event already delivered to the run is still waiting to be processed".
   Witness: step 1 handles the start event, sends an event of type 1 (accepted by step 2) and returns
   None.  The idle check is processed in the same drain as the step result, before the delivered
   event is pulled: WorkflowIdleEvent is published with one delivered tick still in the mailbox,
   and step 2 runs afterwards without any external input. *)
Definition c03_cfg := {| c_handler_for := []; c_handlers := []; c_start := [0]; c_stop := [9];
                         c_inputreq := [8]; c_ty_stepfailed := 7 |}.
Definition c03_w (acc : list Z) := {| w_cfg := {| accepts := acc; nworkers := 1; pol := None |};
                                      queue := []; inprogress := []; collected := []; waiters := [] |}.
Definition c03_s := {| running := false; cfg := c03_cfg; workers := [(1, c03_w [0]); (2, c03_w [1])] |}.
Definition c03_ev ty i := {| ety := ty; eid := i; eattrs := [] |}.
Definition c03_acts := [AWorkerDone 1 0%nat [TAdd (blank (c03_ev 1 2)) None] [RResult ONone]].

Theorem C03_idle_before_delivered_event_refuted :
  exists P s e acts,
    forallb (fun a => match a with ADeliver _ => false | _ => true end) acts = true /\
    let r := run P s e acts in
    idlelog r = [(false, 1%nat)] /\
    published r = [PStep 1 Running (Some 0%nat) 0 NoOut; PStep 1 NotRunning (Some 0%nat) 0 OutNone; PIdle;
                   PStep 2 Running (Some 0%nat) 1 NoOut].
Proof. exists (fun _ _ _ _ => PStop), c03_s, (c03_ev 0 1), c03_acts. vm_compute. auto. Qed.
Print Assumptions C03_idle_before_delivered_event_refuted.

(* non-vacuity of the no-stall theorem: 1 worker, three events -> one runs, two wait, at capacity *)
Example C03_nonvacuous :
  let ev i := TAdd (blank (c03_ev 0 i)) None in
  match run_live (fun _ _ _ _ => PStop) (blank_state c03_s) [(ev 1, 0); (ev 2, 0); (ev 3, 0)] with
  | Ok s => Nostall (blank_state c03_s) /\
            map (fun p => (length (queue (snd p)), length (inprogress (snd p)))) (workers s) = [(2%nat, 1%nat); (0%nat, 0%nat)]
  | Err _ => False
  end.
Proof. vm_compute. split; [|reflexivity]. repeat constructor. Qed.
Print Assumptions C03_nonvacuous.

(* non-vacuity of the runner theorem: a failing step with a delayed retry publishes no idle event
   while the retry is pending, and the retry runs after time advances *)
Example C03_runner_nonvacuous :
  let P : policy := fun _ _ f _ => if Z.ltb f 3 then PRetry 5 else PStop in
  let s1 := {| running := false; cfg := c03_cfg;
               workers := [(1, {| w_cfg := {| accepts := [0]; nworkers := 1; pol := Some 1 |};
                                  queue := []; inprogress := []; collected := []; waiters := [] |})] |} in
  let r := run P s1 (c03_ev 0 1) [AWorkerDone 1 0%nat [] [RFailed {| xty := 1; xmsg := 1 |} 100]; AAdvance 5] in
  idlelog r = [] /\
  published r = [PStep 1 Running (Some 0%nat) 0 NoOut; PStep 1 NotRunning (Some 0%nat) 0 NoOut;
                 PStep 1 Running (Some 0%nat) 0 NoOut].
Proof. vm_compute. auto. Qed.
Print Assumptions C03_runner_nonvacuous.

(* ---- a retry whose delay has elapsed is accepted work: it never stays in the timer heap while the loop sleeps ----
   For every workflow state, start event, policy oracle and schedule of environment actions: whenever the run is live
   and the loop has blocked (nothing harvested, mailbox empty, tick buffer drained), every wake-up still pending -
   delayed retry or waiter time-out - lies STRICTLY in the future of the clock (Proofs/RunnerFire.v: the wake-up list
   stays ordered by time and the loop fires everything that is due).  Model/Runner.v's insert_wakeup / due are tied to
   schedule_tick / pop_due_ticks by the timer-heap correspondence (suites/timerheap.py). *)
From WF Require Proofs.RunnerFire.

Theorem C03_run_loop_no_due_wakeup_is_left_waiting : forall P s e now acts,
  Runner.outcome (run_at P s e now acts) = ORunning ->
  Forall (fun w : Z * Z * tick => clock (run_at P s e now acts) < fst (fst w)) (wakeups (run_at P s e now acts)).
Proof. exact RunnerFire.run_no_due_wakeup_left_behind. Qed.
Print Assumptions C03_run_loop_no_due_wakeup_is_left_waiting.

(* non-vacuity: an input fails at clock 100, its retry is due at 105; at 104 it is still pending (in the future), at 105
   it has fired and nothing is left *)
Example C03_run_loop_timers_nonvacuous :
  let P : policy := fun _ _ f _ => if Z.ltb f 3 then PRetry 5 else PStop in
  let s1 := {| running := false; cfg := c03_cfg;
               workers := [(1, {| w_cfg := {| accepts := [0]; nworkers := 1; pol := Some 1 |};
                                  queue := []; inprogress := []; collected := []; waiters := [] |})] |} in
  let r4 := run P s1 (c03_ev 0 1) [AWorkerDone 1 0%nat [] [RFailed {| xty := 1; xmsg := 1 |} 100]; AAdvance 4] in
  let r5 := run P s1 (c03_ev 0 1) [AWorkerDone 1 0%nat [] [RFailed {| xty := 1; xmsg := 1 |} 100]; AAdvance 4; AAdvance 1] in
  Runner.outcome r4 = ORunning /\ map (fun w => fst (fst w)) (wakeups r4) = [105] /\ clock r4 = 104 /\
  Runner.outcome r5 = ORunning /\ wakeups r5 = [] /\ clock r5 = 105.
Proof. vm_compute. repeat split; reflexivity. Qed.
Print Assumptions C03_run_loop_timers_nonvacuous.
