(* C31 — Timeout and cancellation stop the run cleanly and keep it resumable.
   Statements only; proofs in Proofs/EngineExit.v. *)
From Coq Require Import List ZArith Bool.
Import ListNotations.
From WF Require Import Model.Engine Model.Runner Proofs.EngineExit.
Open Scope Z_scope.

(* the timeout tick: WorkflowTimedOutEvent naming the active steps, then the halt that raises
   WorkflowTimeoutError with the same list; queues, running work, buffers and waiters are untouched *)
Theorem C31_timeout_tick : forall P tm s now,
  reduce P (TTimeout tm) s now =
  Ok (with_workers s false (workers s),
      [CPublish (PTimedOut tm (active_steps s)) ; CHalt (HTimeout tm (active_steps s))]).
Proof. exact timeout_tick. Qed.
Print Assumptions C31_timeout_tick.

(* "active" = exactly the steps with at least one invocation in progress *)
Theorem C31_active_steps_are_the_running_ones : forall s n,
  In n (active_steps s) <-> exists w, In (n, w) (workers s) /\ inprogress w <> [].
Proof. exact active_steps_spec. Qed.
Print Assumptions C31_active_steps_are_the_running_ones.

(* the cancel tick: WorkflowCancelledEvent, then the halt that raises WorkflowCancelledByUser; the run
   state is left exactly as it was (so it can be serialized and resumed: see C12) *)
Theorem C31_cancel_tick_keeps_state : forall P s now,
  exists cs, reduce P TCancel s now = Ok (s, cs) /\
             (cs = [CPublish PCancelled ; CHalt HCancelled] \/ cs = [CPublish PCancelled ; CHalt HCancelled ; CSchedIdle]).
Proof. exact cancel_tick. Qed.
Print Assumptions C31_cancel_tick_keeps_state.

(* a run that has finished (any outcome) is never timed out or cancelled afterwards, and a cancelled or
   timed-out run runs no further step: the runner executes nothing once an outcome exists *)
Theorem C31_finished_run_is_frozen : forall P acts r,
  Runner.outcome r <> ORunning -> fold_left (act P) acts r = r.
Proof. exact exit_freezes_runner_all. Qed.
Print Assumptions C31_finished_run_is_frozen.

Theorem C31_no_command_after_the_halt : forall cs r, Runner.outcome r <> ORunning ->
  published (fold_left do_command cs r) = published r /\
  Runner.outcome (fold_left do_command cs r) = Runner.outcome r.
Proof. exact nothing_published_after_exit. Qed.
Print Assumptions C31_no_command_after_the_halt.

(* non-vacuity: two steps, one with an invocation in progress -> only that one is named *)
Example C31_nonvacuous :
  let cfg0 := {| c_handler_for := []; c_handlers := []; c_start := [0]; c_stop := [9]; c_inputreq := [8]; c_ty_stepfailed := 7 |} in
  let ip := {| i_ev := {| ety := 0; eid := 1; eattrs := [] |}; i_wid := 0%nat; i_snap := {| s_coll := []; s_wait := [] |};
               i_att := 0; i_first := 5; i_exn := None; i_failed := None; i_rc := [] |} in
  let w1 := {| w_cfg := {| accepts := [0]; nworkers := 1; pol := None |}; queue := []; inprogress := [ip]; collected := []; waiters := [] |} in
  let w2 := {| w_cfg := {| accepts := [1]; nworkers := 1; pol := None |}; queue := []; inprogress := []; collected := []; waiters := [] |} in
  active_steps {| running := true; cfg := cfg0; workers := [(1, w1); (2, w2)] |} = [1].
Proof. reflexivity. Qed.
Print Assumptions C31_nonvacuous.

(* ------------------------------------------------------------------------------------------------------------ *)
(* The run loop, every schedule (Proofs/RunnerEnds.v; definitions restated in C04_run_loop_definitions_are)       *)
(* ------------------------------------------------------------------------------------------------------------ *)
From WF Require Import Model.ServerPersist Proofs.RunnerEnds.

(* a run that timed out: its stream is (no terminal event)* followed by exactly one WorkflowTimedOutEvent;
   a run that was cancelled: ... exactly one WorkflowCancelledEvent; nothing is published after either *)
Theorem C31_run_loop_timeout_event_is_the_last_stream_event : forall P s e now acts,
  Forall (action_clean (c_stop (cfg s))) acts ->
  Runner.outcome (run_at P s e now acts) = Runner.OTimedOut ->
  exists pre t a, published (run_at P s e now acts) = pre ++ [PTimedOut t a] /\ no_term (c_stop (cfg s)) pre.
Proof. exact run_timeout_is_last. Qed.
Print Assumptions C31_run_loop_timeout_event_is_the_last_stream_event.

Theorem C31_run_loop_cancelled_event_is_the_last_stream_event : forall P s e now acts,
  Forall (action_clean (c_stop (cfg s))) acts ->
  Runner.outcome (run_at P s e now acts) = Runner.OCancelled ->
  exists pre, published (run_at P s e now acts) = pre ++ [PCancelled] /\ no_term (c_stop (cfg s)) pre.
Proof. exact run_cancel_is_last. Qed.
Print Assumptions C31_run_loop_cancelled_event_is_the_last_stream_event.

(* non-vacuity: the same workflow cancelled while its first step is running, and timed out *)
Example C31_run_loop_nonvacuous :
  let c acc n := {| accepts := acc; nworkers := n; pol := None |} in
  let wk acc n := {| w_cfg := c acc n; queue := []; inprogress := []; collected := []; waiters := [] |} in
  let s0 := {| running := true;
               cfg := {| c_handler_for := []; c_handlers := []; c_start := [0]; c_stop := [9];
                         c_inputreq := [8]; c_ty_stepfailed := 7 |};
               workers := [(1, wk [0] 1%nat); (2, wk [1] 2%nat)] |} in
  let ev ty i := {| ety := ty; eid := i; eattrs := [] |} in
  let r1 := run_at (fun _ _ _ _ => PStop) s0 (ev 0 1) 100 [ADeliver TCancel] in
  let r2 := run_at (fun _ _ _ _ => PStop) s0 (ev 0 1) 100 [ADeliver (TTimeout 5)] in
  Runner.outcome r1 = Runner.OCancelled /\ last (published r1) PIdle = PCancelled /\
  Runner.outcome r2 = Runner.OTimedOut /\ last (published r2) PIdle = PTimedOut 5 [1].
Proof. vm_compute. repeat split; reflexivity. Qed.
Print Assumptions C31_run_loop_nonvacuous.
