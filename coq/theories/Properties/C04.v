(* C04 — Every run ends once, and its stream ends with the matching terminal event.
   Statements only; proofs in Proofs/EngineExit.v and Proofs/ServerPersistProofs.v (command-list shape). *)
From Coq Require Import List ZArith Bool.
Import ListNotations.
From WF Require Import Model.Engine Model.Runner Model.ServerPersist Proofs.ServerPersistProofs Proofs.EngineExit.
Open Scope Z_scope.

(* the shape of a well-formed command list, restated: a terminal stream event (StopEvent result,
   WorkflowFailedEvent, WorkflowTimedOutEvent, WorkflowCancelledEvent) is followed IMMEDIATELY by the exit
   command of the matching kind with the same payload, and no other command ends the run *)
Theorem C04_pairing_is : forall stops pending l,
  cmds_wf stops pending l <->
  match l with
  | [] => pending = None
  | c :: rest =>
    match pending with
    | Some k => exit_of k c /\ cmds_wf stops None rest
    | None => match c with
              | CPublish p => cmds_wf stops (terminal_of stops p) rest
              | _ => ends_run c = false /\ cmds_wf stops None rest
              end
    end
  end.
Proof. intros stops pending l. destruct l; reflexivity. Qed.
Print Assumptions C04_pairing_is.

(* every tick of every kind, every state, every retry policy oracle (including policies that raise):
   the commands have that shape.  (tick_clean: the user does not hand-publish a StopEvent subclass) *)
Theorem C04_terminal_event_immediately_before_exit : forall stops P t s now s' cs,
  reduce P t s now = Ok (s', cs) -> tick_clean stops t = true -> c_stop (cfg s) = stops ->
  cmds_wf stops None cs.
Proof. exact reduce_cmds_wf. Qed.
Print Assumptions C04_terminal_event_immediately_before_exit.

(* a retry policy / predicate that raises is an ordinary exhausted failure: the reducer behaves exactly as
   if the policy had said "stop" (WorkflowFailedEvent + CommandFailWorkflow, or the error handler) *)
Theorem C04_raising_policy_is_a_normal_failure : forall P t s now,
  reduce P t s now = reduce (no_raise P) t s now.
Proof. exact reduce_no_raise. Qed.
Print Assumptions C04_raising_policy_is_a_normal_failure.

Theorem C04_policy_never_crashes_the_reducer : forall P step tev dc now a r,
  one_result P step tev dc now a r <> Err 3.
Proof. exact one_result_not_err3. Qed.
Print Assumptions C04_policy_never_crashes_the_reducer.

(* runner model: once an outcome exists the run is frozen - no action changes anything, the commands
   after the exit command are not executed, nothing more is published: exactly one outcome *)
Theorem C04_exit_freezes_the_run : forall P acts r,
  Runner.outcome r <> ORunning -> fold_left (act P) acts r = r.
Proof. exact exit_freezes_runner_all. Qed.
Print Assumptions C04_exit_freezes_the_run.

Theorem C04_nothing_published_after_exit : forall cs r, Runner.outcome r <> ORunning ->
  published (fold_left do_command cs r) = published r /\
  Runner.outcome (fold_left do_command cs r) = Runner.outcome r.
Proof. exact nothing_published_after_exit. Qed.
Print Assumptions C04_nothing_published_after_exit.

(* non-vacuity: a step whose policy raises fails the run with WorkflowFailedEvent, then CommandFailWorkflow *)
Example C04_nonvacuous :
  let cfg0 := {| c_handler_for := []; c_handlers := []; c_start := [0]; c_stop := [9]; c_inputreq := [8]; c_ty_stepfailed := 7 |} in
  let w := {| w_cfg := {| accepts := [0]; nworkers := 1; pol := Some 1 |}; queue := [];
              inprogress := [{| i_ev := {| ety := 0; eid := 1; eattrs := [] |}; i_wid := 0%nat;
                                i_snap := {| s_coll := []; s_wait := [] |}; i_att := 0; i_first := 5;
                                i_exn := None; i_failed := None; i_rc := [] |}];
              collected := []; waiters := [] |} in
  let s := {| running := true; cfg := cfg0; workers := [(1, w)] |} in
  let x := {| xty := 1; xmsg := 1 |} in
  match reduce (fun _ _ _ _ => PRaise) (TStep 1 0%nat {| ety := 0; eid := 1; eattrs := [] |} [RFailed x 7]) s 7 with
  | Ok (_, cs) => cs = [CPublish (PStep 1 NotRunning (Some 0%nat) 0 NoOut); CPublish (PFailed 1 x 1 2); CFail 1 x]
  | Err _ => False
  end.
Proof. vm_compute. reflexivity. Qed.
Print Assumptions C04_nonvacuous.

(* ------------------------------------------------------------------------------------------------------------ *)
(* The run loop (Model/Runner.v, tied to _ControlLoopRunner by the runner differential): every schedule           *)
(* ------------------------------------------------------------------------------------------------------------ *)
From WF Require Import Proofs.RunnerEnds.

(* the definitions used below, restated so that the statements can be read here *)
Theorem C04_run_loop_definitions_are : forall stops,
  (forall l, no_term stops l <-> Forall (fun p => terminal_of stops p = None) l) /\
  (forall k o, term_match k o <->
     match k, o with
     | KCompleted e, OResult e' => e' = e
     | KFailed x, OFailed x' => x' = x
     | KTimedOut _, Runner.OTimedOut => True
     | KCancelled, Runner.OCancelled => True
     | _, _ => False
     end) /\
  (forall r, Ends_ok stops r <->
     match Runner.outcome r with
     | ORunning | Runner.OIdleReleased => no_term stops (published r)
     | OResult _ | OFailed _ | Runner.OCancelled | Runner.OTimedOut =>
         exists pre p k, published r = pre ++ [p] /\ no_term stops pre /\ terminal_of stops p = Some k /\
                         term_match k (Runner.outcome r)
     | OCrashed _ | OOutOfFuel => True
     end) /\
  (* what the environment may do: a worker finishes (having sent ticks, with a result list), an external tick is
     delivered, time passes - user code does not hand-publish an event of a StopEvent type *)
  (forall a, action_clean stops a <->
     match a with
     | AWorkerDone _ _ sends rs => Forall (fun t => tick_clean stops t = true) sends /\ forallb (result_clean stops) rs = true
     | ADeliver t => tick_clean stops t = true
     | AAdvance _ => True
     end).
Proof. intros stops. repeat split; intros; try (exact H); destruct a; exact H. Qed.
Print Assumptions C04_run_loop_definitions_are.

(* for every workflow state, start event, retry-policy oracle and schedule of environment actions: the stream of a
   live run holds no terminal event; the stream of a run that ended with a result / failure / cancellation / timeout
   is (no terminal event)* followed by exactly the terminal event of that kind, and nothing after it *)
Theorem C04_run_loop_stream_ends_with_the_matching_terminal_event : forall P s e now acts,
  Forall (action_clean (c_stop (cfg s))) acts -> Ends_ok (c_stop (cfg s)) (run_at P s e now acts).
Proof. exact run_stream_ends_with_the_matching_terminal_event. Qed.
Print Assumptions C04_run_loop_stream_ends_with_the_matching_terminal_event.

(* spelled out per outcome *)
Theorem C04_run_loop_result_is_the_last_stream_event : forall P s e now acts,
  Forall (action_clean (c_stop (cfg s))) acts -> forall ev,
  Runner.outcome (run_at P s e now acts) = OResult ev ->
  exists pre, published (run_at P s e now acts) = pre ++ [PEvent ev] /\ no_term (c_stop (cfg s)) pre /\
              zmem (ety ev) (c_stop (cfg s)) = true.
Proof. exact run_result_is_last. Qed.
Print Assumptions C04_run_loop_result_is_the_last_stream_event.

Theorem C04_run_loop_failure_is_the_last_stream_event : forall P s e now acts,
  Forall (action_clean (c_stop (cfg s))) acts -> forall x,
  Runner.outcome (run_at P s e now acts) = OFailed x ->
  exists pre st a el, published (run_at P s e now acts) = pre ++ [PFailed st x a el] /\ no_term (c_stop (cfg s)) pre.
Proof. exact run_failure_is_last. Qed.
Print Assumptions C04_run_loop_failure_is_the_last_stream_event.

Theorem C04_run_loop_cancellation_is_the_last_stream_event : forall P s e now acts,
  Forall (action_clean (c_stop (cfg s))) acts ->
  Runner.outcome (run_at P s e now acts) = Runner.OCancelled ->
  exists pre, published (run_at P s e now acts) = pre ++ [PCancelled] /\ no_term (c_stop (cfg s)) pre.
Proof. exact run_cancel_is_last. Qed.
Print Assumptions C04_run_loop_cancellation_is_the_last_stream_event.

Theorem C04_run_loop_live_stream_has_no_terminal_event : forall P s e now acts,
  Forall (action_clean (c_stop (cfg s))) acts ->
  Runner.outcome (run_at P s e now acts) = ORunning -> no_term (c_stop (cfg s)) (published (run_at P s e now acts)).
Proof. exact run_live_has_no_terminal. Qed.
Print Assumptions C04_run_loop_live_stream_has_no_terminal_event.

(* non-vacuity: two schedules of one workflow - one ends with a result, one with a step failure *)
Example C04_run_loop_nonvacuous :
  let c acc n := {| accepts := acc; nworkers := n; pol := None |} in
  let wk acc n := {| w_cfg := c acc n; queue := []; inprogress := []; collected := []; waiters := [] |} in
  let s0 := {| running := true;
               cfg := {| c_handler_for := []; c_handlers := []; c_start := [0]; c_stop := [9];
                         c_inputreq := [8]; c_ty_stepfailed := 7 |};
               workers := [(1, wk [0] 1%nat); (2, wk [1] 2%nat)] |} in
  let ev ty i := {| ety := ty; eid := i; eattrs := [] |} in
  let x := {| xty := 1; xmsg := 1 |} in
  let r1 := run_at (fun _ _ _ _ => PStop) s0 (ev 0 1) 100
              [AWorkerDone 1 0%nat [] [RResult (OEvent (ev 1 6))]; AWorkerDone 2 0%nat [] [RResult (OEvent (ev 9 7))]] in
  let r2 := run_at (fun _ _ _ _ => PStop) s0 (ev 0 1) 100 [AWorkerDone 1 0%nat [] [RFailed x 101]] in
  Runner.outcome r1 = OResult (ev 9 7) /\ last (published r1) PIdle = PEvent (ev 9 7) /\
  Runner.outcome r2 = OFailed x /\ (exists a el, last (published r2) PIdle = PFailed 1 x a el).
Proof. vm_compute. repeat split; try reflexivity. eexists; eexists; reflexivity. Qed.
Print Assumptions C04_run_loop_nonvacuous.
