(* C04 — Every run ends once, and its stream ends with the matching terminal event.
   Statements only; proofs in Proofs/EngineExit.v and Proofs/ServerPersistProofs.v (command-list shape). *)
From Coq Require Import List ZArith Bool.
Import ListNotations.
From WF Require Import Model.Engine Model.Runner Model.ServerPersist Proofs.ServerPersistProofs Proofs.EngineExit.
Open Scope Z_scope.

(* the shape of a well-formed command list, restated: a terminal stream event (StopEvent result,
   WorkflowFailedEvent, WorkflowTimedOutEvent, WorkflowCancelledEvent) is followed IMMEDIATELY by the exit
   command of the matching kind with the same payload, and no other command ends the run *)
Theorem C04_pairing_is : forall stops pending l,
  cmds_wf stops pending l <->
  match l with
  | [] => pending = None
  | c :: rest =>
    match pending with
    | Some k => exit_of k c /\ cmds_wf stops None rest
    | None => match c with
              | CPublish p => cmds_wf stops (terminal_of stops p) rest
              | _ => ends_run c = false /\ cmds_wf stops None rest
              end
    end
  end.
Proof. intros stops pending l. destruct l; reflexivity. Qed.
Print Assumptions C04_pairing_is.

(* every tick of every kind, every state, every retry policy oracle (including policies that raise):
   the commands have that shape.  (tick_clean: the user does not hand-publish a StopEvent subclass) *)
Theorem C04_terminal_event_immediately_before_exit : forall stops P t s now s' cs,
  reduce P t s now = Ok (s', cs) -> tick_clean stops t = true -> c_stop (cfg s) = stops ->
  cmds_wf stops None cs.
Proof. exact reduce_cmds_wf. Qed.
Print Assumptions C04_terminal_event_immediately_before_exit.

(* a retry policy / predicate that raises is an ordinary exhausted failure: the reducer behaves exactly as
   if the policy had said "stop" (WorkflowFailedEvent + CommandFailWorkflow, or the error handler) *)
Theorem C04_raising_policy_is_a_normal_failure : forall P t s now,
  reduce P t s now = reduce (no_raise P) t s now.
Proof. exact reduce_no_raise. Qed.
Print Assumptions C04_raising_policy_is_a_normal_failure.

Theorem C04_policy_never_crashes_the_reducer : forall P step tev dc now a r,
  one_result P step tev dc now a r <> Err 3.
Proof. exact one_result_not_err3. Qed.
Print Assumptions C04_policy_never_crashes_the_reducer.

(* runner model: once an outcome exists the run is frozen - no action changes anything, the commands
   after the exit command are not executed, nothing more is published: exactly one outcome *)
Theorem C04_exit_freezes_the_run : forall P acts r,
  Runner.outcome r <> ORunning -> fold_left (act P) acts r = r.
Proof. exact exit_freezes_runner_all. Qed.
Print Assumptions C04_exit_freezes_the_run.

Theorem C04_nothing_published_after_exit : forall cs r, Runner.outcome r <> ORunning ->
  published (fold_left do_command cs r) = published r /\
  Runner.outcome (fold_left do_command cs r) = Runner.outcome r.
Proof. exact nothing_published_after_exit. Qed.
Print Assumptions C04_nothing_published_after_exit.

(* non-vacuity: a step whose policy raises fails the run with WorkflowFailedEvent, then CommandFailWorkflow *)
Example C04_nonvacuous :
  let cfg0 := {| c_handler_for := []; c_handlers := []; c_start := [0]; c_stop := [9]; c_inputreq := [8]; c_ty_stepfailed := 7 |} in
  let w := {| w_cfg := {| accepts := [0]; nworkers := 1; pol := Some 1 |}; queue := [];
              inprogress := [{| i_ev := {| ety := 0; eid := 1; eattrs := [] |}; i_wid := 0%nat;
                                i_snap := {| s_coll := []; s_wait := [] |}; i_att := 0; i_first := 5;
                                i_exn := None; i_failed := None; i_rc := [] |}];
              collected := []; waiters := [] |} in
  let s := {| running := true; cfg := cfg0; workers := [(1, w)] |} in
  let x := {| xty := 1; xmsg := 1 |} in
  match reduce (fun _ _ _ _ => PRaise) (TStep 1 0%nat {| ety := 0; eid := 1; eattrs := [] |} [RFailed x 7]) s 7 with
  | Ok (_, cs) => cs = [CPublish (PStep 1 NotRunning (Some 0%nat) 0 NoOut); CPublish (PFailed 1 x 1 2); CFail 1 x]
  | Err _ => False
  end.
Proof. vm_compute. reflexivity. Qed.
Print Assumptions C04_nonvacuous.
