(* C09 — collect_events returns each full set once without losing events.
   Statements only; proofs in Proofs/CollectProofs.v. *)
From Coq Require Import List ZArith Bool PeanoNat Permutation.
Import ListNotations.
From WF Require Import Model.Engine Model.Collect Proofs.EngineCap Proofs.CollectProofs.
Open Scope Z_scope.

(* what is "still missing": Counter(expected) - Counter(types in the buffer) *)
Theorem C09_remaining_counts : forall u buf expected,
  zcount u (remaining expected buf) = (zcount u expected - tcount u buf)%nat.
Proof. exact zcount_remaining. Qed.
Print Assumptions C09_remaining_counts.

(* a list is returned exactly when the buffer plus the incoming event completes the expected multiset *)
Theorem C09_returns_iff_complete : forall b coll ev expected,
  expected <> [] ->
  ((exists l rs, collect b coll ev expected = CReturn l rs) <->
   remaining expected (buf_of b coll) = [ety ev]).
Proof. exact collect_returns_iff. Qed.
Print Assumptions C09_returns_iff_complete.

(* the returned list: one event of every expected type in the order of `expected`; every element comes
   from the buffer or is the incoming event, each used at most once (the list is a sub-multiset of
   buffer ++ [incoming]); the only effect recorded is the deletion of the buffer *)
Theorem C09_returned_list : forall b coll ev expected l rs,
  collect b coll ev expected = CReturn l rs -> expected <> [] ->
  map ety l = expected /\
  (exists rest, Permutation (buf_of b coll ++ [ev]) (l ++ rest)) /\
  rs = [RDelColl b].
Proof. exact collect_returned_list. Qed.
Print Assumptions C09_returned_list.

Theorem C09_never_index_error : forall b coll ev expected, collect b coll ev expected <> CIndexError.
Proof. exact collect_no_index_error. Qed.
Print Assumptions C09_never_index_error.

(* otherwise the incoming event is buffered iff its type is still missing *)
Theorem C09_none_buffers_iff_needed : forall b coll ev expected rs,
  collect b coll ev expected = CNone rs ->
  rs = if zmem (ety ev) (remaining expected (buf_of b coll)) then [RAddColl b ev] else [].
Proof. exact collect_none. Qed.
Print Assumptions C09_none_buffers_iff_needed.

(* reducer: an add against an up-to-date snapshot appends exactly the event (no loss, no double count,
   other buffers untouched, no command, slot handling unchanged) *)
Theorem C09_add_fresh_snapshot : forall P step tev dc now a b e a',
  one_result P step tev dc now a (RAddColl b e) = Ok a' ->
  (length (buf_of b (collected (k_w a))) <= length (snap_buf b (k_this a)))%nat ->
  buf_of b (collected (k_w a')) = buf_of b (collected (k_w a)) ++ [e] /\
  (forall b', b' <> b -> buf_of b' (collected (k_w a')) = buf_of b' (collected (k_w a))) /\
  k_cmds a' = k_cmds a /\ k_keep a' = k_keep a /\ inprogress (k_w a') = inprogress (k_w a).
Proof. exact add_collected_fresh. Qed.
Print Assumptions C09_add_fresh_snapshot.

(* reducer: an add against a stale snapshot (events arrived while this invocation was running) changes no
   buffer; the same invocation is re-run on its slot against the refreshed snapshot, so the event is
   neither lost nor counted twice *)
Theorem C09_add_stale_snapshot_reruns : forall P step tev dc now a b e a',
  one_result P step tev dc now a (RAddColl b e) = Ok a' ->
  (length (snap_buf b (k_this a)) < length (buf_of b (collected (k_w a))))%nat ->
  (forall b', buf_of b' (collected (k_w a')) = buf_of b' (collected (k_w a))) /\
  k_cmds a' = k_cmds a ++ [CRunWorker step e (i_wid (k_this a))] /\ k_keep a' = true /\
  s_coll (i_snap (k_this a')) = collected (k_w a') /\ i_wid (k_this a') = i_wid (k_this a).
Proof. exact add_collected_stale. Qed.
Print Assumptions C09_add_stale_snapshot_reruns.

Theorem C09_delete_on_completion : forall P step tev now a b a',
  one_result P step tev true now a (RDelColl b) = Ok a' ->
  collected (k_w a') = zremove b (collected (k_w a)) /\ k_cmds a' = k_cmds a.
Proof. exact del_collected_completes. Qed.
Print Assumptions C09_delete_on_completion.

(* REFUTED clause: "each received event appears in at most one returned list".  Reachable witness
   (2 workers on the collecting step, expected = two events of type 1): `a` is buffered; b1 and b2 start
   with the same snapshot [a]; both invocations get a full list from collect_events and both complete:
   [a; b1] and [a; b2].  The completion (DeleteCollectedEvent) is not checked for staleness. *)
Definition c09_cfg := {| c_handler_for := []; c_handlers := []; c_start := [0]; c_stop := [9];
                         c_inputreq := [8]; c_ty_stepfailed := 7 |}.
Definition c09_s0 := {| running := true; cfg := c09_cfg;
  workers := [(1, {| w_cfg := {| accepts := [1]; nworkers := 2; pol := None |};
                     queue := []; inprogress := []; collected := []; waiters := [] |})] |}.
Definition c09_ev i := {| ety := 1; eid := i; eattrs := [] |}.
Definition c09_P : policy := fun _ _ _ _ => PStop.
Definition c09_results (o : option collect_out) (out : outcome) : list result :=
  match o with Some (CReturn _ rs) => rs ++ [RResult out] | Some (CNone rs) => rs ++ [RResult ONone] | _ => [] end.
Definition c09_returned (o : option collect_out) : list event :=
  match o with Some (CReturn l _) => l | _ => [] end.

Theorem C09_linear_use_refuted :
  exists s3 l1 l2 s5,
    (* a arrives, is buffered; b1 and b2 start on slots 0 and 1 *)
    run_ticks c09_P c09_s0
      [(TAdd (blank (c09_ev 10)) None, 0);
       (TStep 1 0%nat (c09_ev 10) (c09_results (Some (collect 1 [] (c09_ev 10) [1; 1])) ONone), 1);
       (TAdd (blank (c09_ev 21)) None, 2); (TAdd (blank (c09_ev 22)) None, 2)] = Ok s3 /\
    l1 = c09_returned (invocation_collect s3 1 0%nat 1 [1; 1]) /\
    l2 = c09_returned (invocation_collect s3 1 1%nat 1 [1; 1]) /\
    run_ticks c09_P s3
      [(TStep 1 0%nat (c09_ev 21) (c09_results (invocation_collect s3 1 0%nat 1 [1; 1]) (OEvent (c09_ev 31))), 3);
       (TStep 1 1%nat (c09_ev 22) (c09_results (invocation_collect s3 1 1%nat 1 [1; 1]) (OEvent (c09_ev 32))), 4)] = Ok s5 /\
    l1 = [c09_ev 10; c09_ev 21] /\ l2 = [c09_ev 10; c09_ev 22] /\ In (c09_ev 10) l1 /\ In (c09_ev 10) l2.
Proof.
  eexists. eexists. eexists. eexists. vm_compute. repeat split; auto.
Qed.
Print Assumptions C09_linear_use_refuted.

(* non-vacuity: expected [1;2;1], buffer [t1 a; t2 b], incoming t1 c -> [a; b; c] *)
Example C09_nonvacuous :
  let e t i := {| ety := t; eid := i; eattrs := [] |} in
  collect 1 [(1, [e 1 1; e 2 2])] (e 1 3) [1; 2; 1] = CReturn [e 1 1; e 2 2; e 1 3] [RDelColl 1] /\
  collect 1 [(1, [e 1 1])] (e 1 3) [1; 2; 1] = CNone [RAddColl 1 (e 1 3)] /\
  collect 1 [(1, [e 1 1; e 1 2])] (e 1 3) [1; 2; 1] = CNone [].
Proof. vm_compute. auto. Qed.
Print Assumptions C09_nonvacuous.
