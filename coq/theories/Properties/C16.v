(* C16 — The stored event log is gap-free and resumable from any cursor.
   Statements only; every proof is `exact <lemma>` from Proofs/EventLogProofs.v.

   Model/EventLog.v: append_event / query_events / subscribe_events of MemoryWorkflowStore and
   SqliteWorkflowStore, the polling default of AbstractWorkflowStore, _is_terminal_event, and
   _resolve_event_stream of _api.py.  A schedule is a list of actions: a writer's insertion (AWrite) and
   its later notify_all (ANotify), a poll interval elapsing for one subscriber (ATimeout i), one
   subscriber running from one suspension point to the next (AStep i), a new subscription
   (ASubscribe).  [legal] only restricts ASubscribe to fresh subscriptions (sub_init ...). *)
From Coq Require Import List ZArith Bool.
Import ListNotations.
From WF Require Import Model.EventLog Proofs.EventLogProofs.
Open Scope Z_scope.

(* 1. Numbering: for every append sequence and both stores the recorded events carry 0,1,2,... in
      publication order — also when appending to an already gap-free log. *)
Theorem C16_numbering : forall bk es,
  map s_seq (build bk es) = map Z.of_nat (seq 0 (length es)) /\ map s_ev (build bk es) = es.
Proof. exact numbering. Qed.
Print Assumptions C16_numbering.

Theorem C16_numbering_continues : forall bk L es, gapfree L ->
  map s_seq (build_from bk L es) = map Z.of_nat (seq 0 (length L + length es)) /\
  map s_ev (build_from bk L es) = map s_ev L ++ es.
Proof. exact numbering_continues. Qed.
Print Assumptions C16_numbering_continues.

Theorem C16_backends_number_alike : forall es, build BMem es = build BSql es.
Proof. exact backends_number_alike. Qed.
Print Assumptions C16_backends_number_alike.

(* 2. query_events: both stores return the events above the cursor in order (first `limit` of them). *)
Theorem C16_query_spec : forall bk L after limit, gapfree L ->
  query bk after limit L =
  match limit with
  | Some n => firstn (Z.to_nat n) (filter (after_ok after) L)
  | None => filter (after_ok after) L
  end.
Proof. exact query_spec. Qed.
Print Assumptions C16_query_spec.

(* 3. Subscribing after k on a stored log: exactly the events above k, in order, once each, ending right
      after the first terminal event — for every append sequence, cursor, store and kind of subscriber
      (index cursor / sequence cursor, condition / polling), with or without the internal-event filter of
      _resolve_event_stream. *)
Theorem C16_subscribe_stored : forall bk es c w k inc,
  let L := build bk es in
  let s := run bk sys0 (appends es ++ [ASubscribe (sub_init c w k inc)] ++
                        ATimeout 0 :: repeat (AStep 0) (S (length es))) in
  log s = L /\
  exists x, nth_error (subs s) 0 = Some x /\ out x = vis_spec k inc L /\
            st x = (if ended k L then Done else Waiting).
Proof. exact subscribe_stored. Qed.
Print Assumptions C16_subscribe_stored.

(* 4. All interleavings of writers and subscribers. After any schedule, every subscriber has been handed
      a prefix of its specified stream (so: only events above its cursor, in order, once each, nothing
      after the first terminal one); a closed subscriber has been handed all of it; a subscriber of a
      condition-notified store that is waiting while no writer is between insertion and notification has
      missed nothing (no lost wake-up); the loop of subscribe_events never needs more than three
      iterations per resumption (Stuck = out of fuel is unreachable). *)
Theorem C16_interleaving : forall bk acts x, Forall legal acts ->
  let s := run bk sys0 acts in
  In x (subs s) ->
  let V := vis_spec (k_after x) (incl x) (log s) in
  prefix (out x) V /\
  (st x = Done -> out x = V /\ ended (k_after x) (log s) = true) /\
  (st x = Waiting -> wk x <> WPoll -> pend s = O -> out x = V /\ ended (k_after x) (log s) = false) /\
  st x <> Stuck.
Proof. exact interleaving. Qed.
Print Assumptions C16_interleaving.

(* ... and once the writers are done, a subscriber that keeps being scheduled ends with its whole
   specified stream: closed iff a terminal event above its cursor has been appended. *)
Theorem C16_catch_up : forall bk acts i x, Forall legal acts ->
  let s := run bk sys0 acts in
  pend s = O -> nth_error (subs s) i = Some x ->
  let s' := run bk s (ATimeout i :: repeat (AStep i) (S (length (log s)))) in
  log s' = log s /\
  exists x', nth_error (subs s') i = Some x' /\ k_after x' = k_after x /\ incl x' = incl x /\
             out x' = vis_spec (k_after x) (incl x) (log s) /\
             st x' = (if ended (k_after x) (log s) then Done else Waiting).
Proof. exact catch_up. Qed.
Print Assumptions C16_catch_up.

(* 5. Memory (list-index cursor, skipping sequence <= after_sequence while iterating) and SQLite (sequence
      cursor re-queried) are indistinguishable: same log, and every subscriber has the same output and
      state after every schedule of writes, notifications, resumptions and subscriptions. *)
Theorem C16_backends_equivalent : forall sched,
  let sm := run BMem sys0 (map (conc BMem) sched) in
  let ss := run BSql sys0 (map (conc BSql) sched) in
  log sm = log ss /\ map view (subs sm) = map view (subs ss).
Proof. exact backends_equivalent. Qed.
Print Assumptions C16_backends_equivalent.

(* 6. Resuming: what was seen up to sequence k, followed by a subscription after k, is the uninterrupted
      stream (bare store stream and the filtered stream of the HTTP API alike). *)
Theorem C16_resume_compose : forall L k0 k inc, gapfree L -> k0 <= k ->
  let S0 := sub_spec k0 L in
  existsb is_terminal (filter (upto k) S0) = false ->
  filter (upto k) S0 ++ sub_spec k L = S0 /\
  filter (upto k) (vis_spec k0 inc L) ++ vis_spec k inc L = vis_spec k0 inc L.
Proof. exact resume_compose. Qed.
Print Assumptions C16_resume_compose.

(* 7. _resolve_event_stream. *)
Theorem C16_resolve_now : forall bk L tst, gapfree L ->
  let k := Z.of_nat (length L) - 1 in
  resolve bk L (HRun tst) None =
    (if tst || match last_opt L with Some e => is_terminal e | None => false end
     then RCompleted else RStream k) /\
  forall X, gapfree (L ++ X) -> sub_spec k (L ++ X) = until_term X.
Proof. exact resolve_now. Qed.
Print Assumptions C16_resolve_now.

Theorem C16_resolve_cursor : forall bk L tst k, gapfree L ->
  resolve bk L (HRun tst) (Some k) =
    (if (length L <=? Z.to_nat (k + 1))%nat &&
        (tst || match last_opt L with Some e => is_terminal e | None => false end)
     then RCompleted else RStream k).
Proof. exact resolve_cursor. Qed.
Print Assumptions C16_resolve_cursor.

Theorem C16_resolve_completed_hides_nothing : forall bk L h after inc, gapfree L ->
  resolve bk L h after = RCompleted ->
  forall k, after = Some k -> vis_spec k inc L = [].
Proof. exact resolve_completed_sound. Qed.
Print Assumptions C16_resolve_completed_hides_nothing.

(* 8. _stream_events: which cursor a request asks for (after_sequence parameter, Last-Event-ID header). *)
Theorem C16_stream_cursor : forall sse a l,
  stream_cursor sse a l =
  match a with
  | PGarbage => None
  | _ => Some (match sse, l with
               | true, LInt n => Some n
               | _, _ => match a with PInt n => Some n | _ => None end
               end)
  end.
Proof. exact stream_cursor_spec. Qed.
Print Assumptions C16_stream_cursor.

Theorem C16_reconnect_by_header : forall bk L tst a k, gapfree L -> a <> PGarbage ->
  exists c, stream_cursor true a (LInt k) = Some (Some c) /\
            resolve bk L (HRun tst) (Some c) = resolve bk L (HRun tst) (Some k).
Proof. exact reconnect_by_header. Qed.
Print Assumptions C16_reconnect_by_header.

(* ---- non-vacuity ---- *)
Definition ev_a (p : Z) : evt := mkE 2 None p.                     (* a plain event *)
Definition ev_int (p : Z) : evt := mkE 3 (Some [INTERNAL]) p.      (* subclass of InternalDispatchEvent *)
Definition ev_stop (p : Z) : evt := mkE 4 (Some [5; STOP]) p.      (* subclass of a subclass of StopEvent *)

(* a log with an internal event, a terminal event in the middle and an event after it *)
Example C16_example_log :
  let L := build BSql [ev_a 10; ev_int 11; ev_a 12; ev_stop 13; ev_a 14] in
  gapfree L /\
  map s_seq (sub_spec 0 L) = [1; 2; 3] /\ map s_seq (vis_spec 0 false L) = [2; 3] /\
  ended 0 L = true /\ ended 3 L = false /\ map s_seq (sub_spec 3 L) = [4] /\
  existsb is_terminal (filter (upto 2) (sub_spec (-1) L)) = false.
Proof. vm_compute. repeat split; reflexivity. Qed.
Print Assumptions C16_example_log.

(* a schedule in which a memory subscriber with its cursor AHEAD of the log (after_sequence = 1 on an
   empty log) waits, is woken twice, skips events 0 and 1 and is closed by the terminal event 3;
   a second, polling subscriber from -1 receives everything *)
Example C16_example_schedule :
  let acts := [ASubscribe (store_sub BMem 1 true); ASubscribe (base_sub (-1)); AStep 0; AStep 1;
               AWrite (ev_a 10); AWrite (ev_a 11); ANotify; AStep 0; ANotify;
               AWrite (ev_a 12); AWrite (ev_stop 13); ATimeout 1; AStep 1; AStep 1; ANotify; ANotify;
               AStep 0; AStep 0; AStep 1; AStep 1] in
  Forall legal acts /\
  map (fun x => (map s_seq (out x), st x)) (subs (run BMem sys0 acts)) =
    [([2; 3], Done); ([0; 1; 2; 3], Done)].
Proof.
  split; [|vm_compute; reflexivity].
  repeat constructor; cbn; unfold store_sub, base_sub; eauto.
Qed.
Print Assumptions C16_example_schedule.

Example C16_example_resolve :
  let L := build BMem [ev_a 10; ev_a 11; ev_stop 12] in
  resolve BMem L (HRun false) None = RCompleted /\
  resolve BMem L (HRun false) (Some 1) = RStream 1 /\
  resolve BMem L (HRun false) (Some 2) = RCompleted /\
  resolve BMem (build BMem [ev_a 10]) (HRun false) None = RStream 0 /\
  resolve BMem L HAbsent (Some 0) = RNotFound.
Proof. vm_compute. repeat split; reflexivity. Qed.
Print Assumptions C16_example_resolve.
