(* C28 — SQLite schema migrations converge from any earlier schema.
   Statements only; every proof is `exact <lemma>` from Proofs/MigrateProofs.v.

   Model (Model/Migrate.v): run_migrations = bootstrap ; for each (package, files): for each file in
   order: skip when its version is 0 or already applied, else run the script atomically (None = it
   raises, nothing of it persists, the run stops) and record (package, version).
   A database is (schema, PRAGMA user_version, schema_migrations rows or None when the table is absent).

   The first group of theorems is generic: ANY schema type, ANY script semantics `exec`, ANY list of
   version-tagged migrations of ANY length (duplicated / zero / unordered versions allowed unless a
   hypothesis says otherwise), ANY starting database.  The last group is the instance: the packaged
   scripts as parsed into Generated.v, with SQLite's DDL semantics, swept over every start. *)
From Coq Require Import List ZArith Bool String.
From WF Require Import Generated Model.Migrate Proofs.MigrateProofs.
Import ListNotations.
Open Scope list_scope.
Open Scope Z_scope.

Section Generic.
  Context {schema script : Type}.
  Variable exec : script -> schema -> option schema.

  (* "any prefix of the migrations": a database left by a successful run of a prefix `a` of the list
     (starting from ANY database d), given the whole list a ++ b, ends exactly like d given the whole
     list — same success/failure, same schema, same rows in the same order, same user_version. *)
  Theorem C28_prefix_converges : forall (p : string) (a b : list (@mig script)) (d da : @db schema),
    run_migrations exec [(p, a)] d = Done da ->
    run_migrations exec [(p, a ++ b)] da = run_migrations exec [(p, a ++ b)] d.
  Proof. exact (prefix_converges exec). Qed.

  (* "running them again changes nothing": for any list of sources and any start, a successful run is
     a fixed point of run_migrations. *)
  Theorem C28_idempotent : forall (srcs : list (string * list (@mig script))) (d d' : @db schema),
    run_migrations exec srcs d = Done d' -> run_migrations exec srcs d' = Done d'.
  Proof. exact (run_idempotent exec). Qed.

  (* "records every version once": after a successful run every non-zero version of the list occurs
     exactly once among the package's rows, provided the rows present after the bootstrap held no
     duplicate for the package (SQLite enforces this: PRIMARY KEY (package, version)); nothing else is
     added. *)
  Theorem C28_every_version_recorded_once : forall (p : string) (ms : list (@mig script)) (d d' : @db schema),
    run_migrations exec [(p, ms)] d = Done d' ->
    NoDup (applied_of p (match d_sm (bootstrap d) with Some r => r | None => [] end)) ->
    exists rows', d_sm d' = Some rows' /\
      forall m, In m ms -> m_ver m <> 0 -> count_occ Z.eq_dec (applied_of p rows') (m_ver m) = 1%nat.
  Proof. exact (recorded_exactly_once exec). Qed.

  Theorem C28_recorded_rows_characterised : forall (p : string) (ms : list (@mig script)) (d d' : @db schema),
    run_migrations exec [(p, ms)] d = Done d' ->
    NoDup (applied_of p (match d_sm (bootstrap d) with Some r => r | None => [] end)) ->
    exists rows', d_sm d' = Some rows' /\ NoDup (applied_of p rows') /\
      (forall m, In m ms -> m_ver m <> 0 -> In (m_ver m) (applied_of p rows')) /\
      (forall v, In v (applied_of p rows') ->
         In v (applied_of p (match d_sm (bootstrap d) with Some r => r | None => [] end))
         \/ (v <> 0 /\ In v (map m_ver ms))).
  Proof. exact (recorded_once exec). Qed.

  (* the no-duplicates hypothesis holds by construction for every database without the table
     (fresh and legacy starts): the bootstrap seeds 1..user_version for "server" only *)
  Theorem C28_bootstrap_rows_distinct : forall (p : string) (d : @db schema),
    d_sm d = None ->
    NoDup (applied_of p (match d_sm (bootstrap d) with Some r => r | None => [] end)).
  Proof. exact boot_rows_nodup. Qed.

  (* "a legacy user_version database": versions exactly 1..n, legacy database = the first k scripts
     executed by the old runner on s0, user_version = k, no schema_migrations table.  Whenever the
     run from the empty-table database (s0, user_version 0) succeeds, the run from the legacy database
     succeeds with the same schema and the same rows. *)
  Theorem C28_legacy_converges : forall (ms : list (@mig script)) (n k : nat) (s0 sL : schema),
    map m_ver ms = zseq1 n -> (k <= n)%nat ->
    exec_all exec (map m_script (firstn k ms)) s0 = Some sL ->
    forall dF, run_migrations exec [(SERVER, ms)] (Db s0 0 None) = Done dF ->
    run_migrations exec [(SERVER, ms)] (Db sL (Z.of_nat k) None)
    = Done (Db (d_schema dF) (Z.of_nat k) (d_sm dF)).
  Proof. exact (legacy_converges schema script exec). Qed.

  (* the same without assuming consecutive versions: list = a ++ b, the legacy database has had the
     scripts of `a` (distinct versions within 1..v) executed, the versions of `b` are above v *)
  Theorem C28_legacy_converges_general : forall (a b : list (@mig script)) (v : Z) (s0 sL : schema),
    0 <= v ->
    (forall m, In m a -> 1 <= m_ver m <= v) -> NoDup (map m_ver a) ->
    (forall m, In m b -> v < m_ver m) ->
    exec_all exec (map m_script a) s0 = Some sL ->
    forall dF, run_migrations exec [(SERVER, a ++ b)] (Db s0 0 None) = Done dF ->
    exists rowsF rowsL,
      d_sm dF = Some rowsF /\
      run_migrations exec [(SERVER, a ++ b)] (Db sL v None) = Done (Db (d_schema dF) v (Some rowsL)) /\
      (forall m, In m (a ++ b) -> In (m_ver m) (applied_of SERVER rowsL)) /\
      NoDup (applied_of SERVER rowsL) /\
      (map m_ver a = map Z.of_nat (seq 1 (Z.to_nat v)) -> rowsL = rowsF).
  Proof. exact (legacy_converges_split exec). Qed.

  (* run_migrations raising leaves exactly the database of a successful run of the files before the
     failing one: scripts are atomic and a version is recorded only with its script's effects *)
  Theorem C28_failed_run_leaves_prefix_state : forall (p : string) (ms : list (@mig script)) (d df : @db schema),
    run_migrations exec [(p, ms)] d = Failed df ->
    exists a m c, ms = a ++ m :: c /\ run_migrations exec [(p, a)] d = Done df /\
                  exec (m_script m) (d_schema df) = None.
  Proof. exact (failed_run_is_prefix_state exec). Qed.

  (* so such a database converges as well once the failing file is replaced *)
  Theorem C28_failed_then_repaired_converges : forall (p : string) (ms : list (@mig script)) (d df : @db schema),
    run_migrations exec [(p, ms)] d = Failed df ->
    exists a m c, ms = a ++ m :: c /\ forall m',
      run_migrations exec [(p, a ++ m' :: c)] df = run_migrations exec [(p, a ++ m' :: c)] d.
  Proof. exact (failed_then_repaired_converges exec). Qed.

  Theorem C28_user_version_untouched : forall (srcs : list (string * list (@mig script))) (d d' : @db schema),
    run_migrations exec srcs d = Done d' -> d_uv d' = d_uv d.
  Proof. exact (run_keeps_user_version exec). Qed.
End Generic.

Print Assumptions C28_prefix_converges.
Print Assumptions C28_idempotent.
Print Assumptions C28_every_version_recorded_once.
Print Assumptions C28_recorded_rows_characterised.
Print Assumptions C28_bootstrap_rows_distinct.
Print Assumptions C28_legacy_converges.
Print Assumptions C28_legacy_converges_general.
Print Assumptions C28_failed_run_leaves_prefix_state.
Print Assumptions C28_failed_then_repaired_converges.
Print Assumptions C28_user_version_untouched.

(* ---------------- the instance: packaged scripts (Generated.sqlite_migrations) ---------------- *)

(* Finite domain, swept by vm_compute: all_starts n = fresh, StartPrefix 0..n, StartLegacy 1..n with
   n = length server_migs (4 scripts -> 10 starts).  For each: the start database exists (the prefix
   run / the legacy scripts succeed), the run succeeds, final catalogue and rows equal those of the
   fresh run, and the second run returns the same catalogue, rows and user_version. *)
Theorem C28_instance_all_starts_swept :
  forallb (start_converges server_migs server_ref) (all_starts (List.length server_migs)) = true.
Proof. exact instance_sweep. Qed.
Print Assumptions C28_instance_all_starts_swept.

Theorem C28_instance_converges : forall st, In st (all_starts (List.length server_migs)) ->
  exists d0 d1,
    start_db server_migs st = Some d0 /\
    srun [(SERVER, server_migs)] d0 = Done d1 /\
    d_schema d1 = d_schema server_ref /\
    d_sm d1 = Some (map (fun v => (SERVER, v)) (zseq1 (List.length server_migs))) /\
    srun [(SERVER, server_migs)] d1 = Done d1.
Proof. exact instance_converges. Qed.
Print Assumptions C28_instance_converges.

(* the packaged versions are 1..n in file-name order (what the bootstrap presupposes) *)
Theorem C28_instance_versions_consecutive :
  map m_ver server_migs = zseq1 (List.length server_migs).
Proof. exact instance_versions. Qed.
Print Assumptions C28_instance_versions_consecutive.

(* non-vacuity: the hypotheses of the generic theorems are met by the instance — the fresh run
   succeeds, and the start set is the expected one *)
Example C28_instance_fresh_run_succeeds :
  srun [(SERVER, server_migs)] fresh_db = Done server_ref /\ (0 < List.length server_migs)%nat.
Proof. exact instance_nonvacuous. Qed.
Print Assumptions C28_instance_fresh_run_succeeds.

Example C28_start_set_shape :
  all_starts 2 = [StartFresh; StartPrefix 0; StartPrefix 1; StartPrefix 2; StartLegacy 1; StartLegacy 2].
Proof. reflexivity. Qed.
Print Assumptions C28_start_set_shape.
