(* C08 — Exhausted failures route to the owning error handler within budget.
   Statements only; proofs in Proofs/HandlerProofs.v. *)
From Coq Require Import List ZArith Bool.
Import ListNotations.
From WF Require Import Model.Engine Model.Handlers Proofs.EngineCap Proofs.HandlerProofs.
Open Scope Z_scope.

(* The routing table of every valid handler layout: step n is owned by h iff h is a (the) scoped handler
   that lists n, or no scoped handler lists n, n is an ordinary step and h is the wildcard handler. *)
Theorem C08_owner_is_scoped_else_wildcard : forall steps n h,
  handlers_valid steps = true ->
  (owner steps n = Some h <->
   (exists hh, In hh (handlers_of steps) /\ hname hh = h /\ lists n hh = true) \/
   ((forall hh, In hh (handlers_of steps) -> lists n hh = false) /\
    is_step steps n = true /\ is_handler steps n = false /\ wildcard (handlers_of steps) = Some h)).
Proof. exact owner_spec. Qed.
Print Assumptions C08_owner_is_scoped_else_wildcard.

Theorem C08_never_for_a_handler_step : forall steps n,
  handlers_valid steps = true -> is_handler steps n = true -> owner steps n = None.
Proof. exact owner_never_for_handler_step. Qed.
Print Assumptions C08_never_for_a_handler_step.

Theorem C08_owner_is_a_handler : forall steps n h,
  handlers_valid steps = true -> owner steps n = Some h -> is_handler steps h = true /\ is_step steps n = true.
Proof. exact owner_is_handler. Qed.
Print Assumptions C08_owner_is_a_handler.

(* Reducer, retries exhausted (the policy says stop, or there is no policy), an owner exists and its
   budget on this lineage is not used up: exactly one StepFailedEvent is queued, addressed to the owner,
   carrying the failing step, attempt count, elapsed time and the lineage counts with the owner's count
   incremented; the run state is untouched. *)
Theorem C08_exhausted_failure_routed_to_owner : forall P step tev dc now a x fa a' hd,
  one_result P step tev dc now a (RFailed x fa) = Ok a' ->
  (match pol (w_cfg (k_w a)) with Some p => P p (fa - i_first (k_this a)) (i_att (k_this a) + 1) x | None => PStop end) = PStop ->
  owner_of (cfg (k_state a)) step = Some hd ->
  rc_get (h_step hd) (i_rc (k_this a)) + 1 <= h_max hd ->
  exists q,
    k_cmds a' = k_cmds a ++ [CQueue q (Some (h_step hd)) None] /\
    a_ev q = stepfailed_event (cfg (k_state a)) step tev (i_att (k_this a) + 1) (fa - i_first (k_this a)) /\
    a_rc q = zupdate (h_step hd) (rc_get (h_step hd) (i_rc (k_this a)) + 1) (i_rc (k_this a)) /\
    a_att q = None /\ k_state a' = k_state a /\ k_w a' = k_w a.
Proof. exact exhausted_failure_routed. Qed.
Print Assumptions C08_exhausted_failure_routed_to_owner.

(* no owner, or the owner's budget on this lineage is spent: WorkflowFailedEvent with the ORIGINAL
   exception, then the run fails with it *)
Theorem C08_no_owner_or_budget_spent_fails_run : forall P step tev dc now a x fa a',
  one_result P step tev dc now a (RFailed x fa) = Ok a' ->
  (match pol (w_cfg (k_w a)) with Some p => P p (fa - i_first (k_this a)) (i_att (k_this a) + 1) x | None => PStop end) = PStop ->
  (owner_of (cfg (k_state a)) step = None \/
   exists hd, owner_of (cfg (k_state a)) step = Some hd /\ h_max hd < rc_get (h_step hd) (i_rc (k_this a)) + 1) ->
  k_cmds a' = k_cmds a ++ [CPublish (PFailed step x (i_att (k_this a) + 1) (fa - i_first (k_this a))) ; CFail step x] /\
  running (k_state a') = false /\ workers (k_state a') = workers (k_state a).
Proof. exact exhausted_failure_fails_run. Qed.
Print Assumptions C08_no_owner_or_budget_spent_fails_run.

(* how counts travel along a lineage *)
Theorem C08_retry_keeps_lineage : forall P step tev dc now a x fa a' d,
  one_result P step tev dc now a (RFailed x fa) = Ok a' ->
  (match pol (w_cfg (k_w a)) with Some p => P p (fa - i_first (k_this a)) (i_att (k_this a) + 1) x | None => PStop end) = PRetry d ->
  exists q, k_cmds a' = k_cmds a ++ [CQueue q (Some step) (Some d)] /\ a_ev q = tev /\
            a_rc q = i_rc (k_this a) /\ a_att q = Some (i_att (k_this a) + 1) /\ a_exn q = Some x /\
            k_state a' = k_state a.
Proof. exact retry_keeps_lineage. Qed.
Print Assumptions C08_retry_keeps_lineage.

Theorem C08_returned_event_inherits_counts : forall P step tev dc now a e a',
  one_result P step tev dc now a (RResult (OEvent e)) = Ok a' ->
  zmem (ety e) (c_stop (cfg (k_state a))) = false ->
  exists q, In (CQueue q None None) (k_cmds a') /\ a_ev q = e /\ a_rc q = i_rc (k_this a).
Proof. exact returned_event_inherits_counts. Qed.
Print Assumptions C08_returned_event_inherits_counts.

Theorem C08_started_invocation_carries_counts : forall step a w now w' cs,
  add_or_enqueue step a w now = Ok (w', cs) ->
  (exists i, inprogress w' = inprogress w ++ [i] /\ i_rc i = a_rc a /\ i_ev i = a_ev a /\ queue w' = queue w) \/
  (queue w' = queue w ++ [a] /\ inprogress w' = inprogress w).
Proof. exact started_invocation_carries_counts. Qed.
Print Assumptions C08_started_invocation_carries_counts.

(* the budget: along any lineage (any sequence of inherit / route-to-handler hops the three theorems
   above generate), handler h's count equals the number of times it was entered and never exceeds
   max_recoveries h; a hop that would exceed it is refused (the run fails instead) *)
Theorem C08_lineage_budget : forall maxof hops rc rc',
  lineage maxof rc hops = Some rc' ->
  forall h, rc_get h rc' = rc_get h rc + entries h hops /\ (0 < entries h hops -> rc_get h rc' <= maxof h).
Proof. exact lineage_budget. Qed.
Print Assumptions C08_lineage_budget.

Theorem C08_handler_entered_at_most_max_recoveries : forall maxof hops rc' h,
  lineage maxof [] hops = Some rc' -> 0 < entries h hops -> entries h hops <= maxof h.
Proof. exact handler_entered_at_most_max. Qed.
Print Assumptions C08_handler_entered_at_most_max_recoveries.

(* non-vacuity: steps 1,2 ordinary, 3 = handler for [1] (max 2), 4 = wildcard (max 1) *)
Example C08_nonvacuous :
  let steps : list decl := [(1, None); (2, None); (3, Some (Some [1], 2)); (4, Some (None, 1))] in
  handlers_valid steps = true /\ handler_table steps = [(1, 3); (2, 4)] /\
  lineage (fun h => if Z.eqb h 3 then 2 else 1) [] [HRoute 3; HInherit; HRoute 3] = Some [(3, 2)] /\
  lineage (fun h => if Z.eqb h 3 then 2 else 1) [] [HRoute 3; HInherit; HRoute 3; HRoute 3] = None.
Proof. vm_compute. auto. Qed.
Print Assumptions C08_nonvacuous.
