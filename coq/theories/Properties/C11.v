(* C11 — Replaying the recorded tick log reproduces the live run state.
   Statements only; proofs in Proofs/RunnerReplay.v. *)
From Coq Require Import List ZArith Bool.
Import ListNotations.
From WF Require Import Model.Engine Model.Runner Proofs.EngineCap Proofs.RunnerReplay.
Open Scope Z_scope.

(* what rebuild_state_from_ticks is: rewind the initial state, then fold the reducer over the ticks *)
Theorem C11_rebuild_is : forall P s ts now,
  rebuild P s ts now = match rewind s now with Err c => Err c | Ok (s', _) => fold_ticks P s' ts now end.
Proof. reflexivity. Qed.
Print Assumptions C11_rebuild_is.

(* Runner model, for every retry policy, start state, start event and every schedule of worker
   completions, deliveries and time steps - at every point of the run: the engine state the runner
   holds is exactly the reducer folded over the ticks recorded so far (each at the clock reading it was
   processed at), and the recorded log is exactly the processed ticks in order. *)
Theorem C11_live_state_is_replay_of_log : forall P s e acts,
  run_ticks P s (tlog (run P s e acts)) = Ok (st (run P s e acts)) /\
  ticklog (run P s e acts) = map fst (tlog (run P s e acts)).
Proof. exact live_state_is_replay_of_log. Qed.
Print Assumptions C11_live_state_is_replay_of_log.

(* replaying all ticks at one clock reading is the special case of equal readings: exact agreement *)
Theorem C11_replay_at_one_reading : forall P now ts s,
  run_ticks P s (map (fun t => (t, now)) ts) = fold_ticks P s ts now.
Proof. exact run_ticks_fixed_now. Qed.
Print Assumptions C11_replay_at_one_reading.

(* PARTIAL / REFUTED corner: the clock readings are not in the log, and rebuild uses one reading (the
   time of the rebuild).  With a retry policy whose decision depends on elapsed time the replay can
   decide differently: live, the failure at t=110 of an attempt started at t=100 has elapsed 10 >= 5 and
   ends the run (running = false); rebuilt later at t=777 the same tick has elapsed 110-777 < 5, so the
   replayed state says the step is being retried and the run is live. *)
Definition c11_cfg := {| c_handler_for := []; c_handlers := []; c_start := [0]; c_stop := [9];
                         c_inputreq := [8]; c_ty_stepfailed := 7 |}.
Definition c11_s := {| running := false; cfg := c11_cfg;
  workers := [(1, {| w_cfg := {| accepts := [0]; nworkers := 1; pol := Some 1 |};
                     queue := []; inprogress := []; collected := []; waiters := [] |})] |}.
Definition c11_P : policy := fun _ elapsed _ _ => if Z.ltb elapsed 5 then PRetry 0 else PStop.
Definition c11_e := {| ety := 0; eid := 1; eattrs := [] |}.
Definition c11_log := [TAdd (blank c11_e) None; TStep 1 0%nat c11_e [RFailed {| xty := 1; xmsg := 1 |} 110]].

Theorem C11_time_sensitive_replay_refuted :
  exists live rebuilt,
    run_ticks c11_P c11_s [(nth 0 c11_log TCancel, 100); (nth 1 c11_log TCancel, 110)] = Ok live /\
    rebuild c11_P c11_s c11_log 777 = Ok rebuilt /\
    running live = false /\ running rebuilt = true.
Proof. eexists. eexists. vm_compute. repeat split. Qed.
Print Assumptions C11_time_sensitive_replay_refuted.

(* non-vacuity of the runner theorem: a two-tick run with a clock step in between *)
Example C11_nonvacuous :
  let r := run (fun _ _ _ _ => PStop) c11_s c11_e [AAdvance 7; AWorkerDone 1 0%nat [] [RResult ONone]] in
  map snd (tlog r) = [100; 107; 107] /\ length (ticklog r) = 3%nat.
Proof. vm_compute. split; reflexivity. Qed.
Print Assumptions C11_nonvacuous.
