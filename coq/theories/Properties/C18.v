(* C18 — Events and ticks survive serialization unchanged.
   Statements only; every proof of a Theorem is `exact <lemma>` from Proofs/SerdeProofs.v.
   Model: Model/Serde.v (the codecs as the code has them, after the two fix: commits; the pre-fix
   variants are kept as `dump ct false` / `dec_exn_unfixed` for the refutation examples).
   `conf ct xt v k` (Proofs/SerdeProofs.v) = "v is a value of kind k": an event of an importable class
   (qualified name resolves, non-empty) whose typed fields are the declared ones (no field is named
   "_data"; no field of a StopEvent class is named "result"), with ANY dynamic fields and ANY result
   (JSON values), nested events / arrays / objects recursively, exceptions of message-faithful
   classes; non-StopEvent classes have no result. *)
From Coq Require Import List ZArith Bool.
Import ListNotations.
From WF Require Import Model.Serde Model.SerdeEnc Proofs.SerdeProofs.
Open Scope Z_scope.

(* codec 1 — JsonSerializer (qualified-name tagging): for every class table, exception table and
   every conforming event, reading back what was written yields the same class, typed fields,
   dynamic fields and result *)
Theorem C18_json_roundtrip : forall ct xt e,
  conf ct xt e KEvent -> json_decode ct xt (json_encode ct true e) = Some e.
Proof. exact json_roundtrip. Qed.
Print Assumptions C18_json_roundtrip.

(* codec 2 — client envelope: for every registry in which the event's __name__ is unambiguous
   (including the empty registry: fallback to the qualified name) *)
Theorem C18_envelope_roundtrip : forall ct xt registry c ty dy r ci,
  conf ct xt (TE c ty dy r) KEvent -> ct c = Some ci ->
  (forall c' ci', In c' registry -> ct c' = Some ci' -> c_name ci' = c_name ci -> c' = c) ->
  env_decode ct xt registry (env_encode ct true (TE c ty dy r)) = Some (TE c ty dy r).
Proof. exact env_roundtrip. Qed.
Print Assumptions C18_envelope_roundtrip.

(* codec 3 — persisted tick format: for every shape (in particular `shapes`, the shapes of ticks.py
   and results.py) and every conforming tick, all carried events and exceptions included *)
Theorem C18_tick_roundtrip : forall ct xt shape t,
  conf ct xt t shape -> tick_decode ct xt shape (tick_encode ct true t) = Some t.
Proof. exact tick_roundtrip. Qed.
Print Assumptions C18_tick_roundtrip.

(* the general statement behind the three: any value of any kind *)
Theorem C18_decode_dump : forall ct xt v k,
  conf ct xt v k -> decode ct xt (dump ct true v) k = Some v.
Proof. exact decode_dump. Qed.
Print Assumptions C18_decode_dump.

(* exceptions — PARTIAL: type and message are kept for message-faithful classes (cls(m) has str m, or
   cls(m) fails with a non-lookup error and the instance built without the constructor has str m) *)
Theorem C18_exception_partial : forall xt c m,
  faithful xt c m -> dec_exn xt (enc_exn c m) = Some (TX c m).
Proof. exact dec_enc_exn. Qed.
Print Assumptions C18_exception_partial.

(* … and for EVERY class the repaired decoder returns an exception (never raises), of the same class
   or of the base class, with the same message unless a successfully running constructor changed it *)
Theorem C18_exception_total : forall xt c m,
  exists c' m', dec_exn xt (enc_exn c m) = Some (TX c' m') /\
                (m' = m \/ x_ctor (xt c) m = CtorOk m') /\ (c' = c \/ c' = exc_base).
Proof. exact dec_enc_exn_total. Qed.
Print Assumptions C18_exception_total.

(* the executable domain check the suite evaluates on every generated case is sound for `conf` *)
Theorem C18_domain_check_sound : forall ct xt v k, confb ct xt v k = true -> conf ct xt v k.
Proof. exact confb_sound. Qed.
Print Assumptions C18_domain_check_sound.

(* ---- non-vacuity: concrete conforming values ---- *)
(* classes: 12 a StopEvent subclass "GenStop" (field 1001), 16 StepFailedEvent-like (fields: 1002 json,
   1003 nested event, 1004 exception), 10 plain Event; exception class 2 is message-faithful *)
Definition exCt := mkct [(10, CI false 500 []); (12, CI true 501 [(1001, KJson)]);
                         (16, CI false 502 [(1002, KJson); (1003, KEvent); (1004, KExn)])].
Definition exXt := mkxt [(2, XI true [] [])].
Definition exStop := TE 12 [(1001, TJ (JNum 3))] [(1005, JArr [JNum 1; JNull]); (k_result, JStr 7)] (JObj [(1006, JBool true)]).
Definition exNested := TE 16 [(1002, TJ (JStr 1007)); (1003, exStop); (1004, TX 2 1008)] [(1009, JNum 1)] JNull.

Example C18_ex_conf_event : conf exCt exXt exNested KEvent /\ conf exCt exXt exStop KEvent.
Proof. split; apply confb_sound; vm_compute; reflexivity. Qed.
Print Assumptions C18_ex_conf_event.

Example C18_ex_roundtrip_computed :
  json_decode exCt exXt (json_encode exCt true exNested) = Some exNested /\
  env_decode exCt exXt [10; 12] (env_encode exCt true exStop) = Some exStop.
Proof. split; vm_compute; reflexivity. Qed.
Print Assumptions C18_ex_roundtrip_computed.

(* a TickStepResult carrying an event, a failed result with an exception and a result event *)
Definition exTick :=
  TObj [(k_type, TJ (JStr 121)); (101, TJ (JStr 1010)); (102, TJ (JNum 0)); (103, exNested);
        (k_result, TArr [TObj [(k_type, TJ (JStr 130)); (112, TX 2 1008); (113, TJ (JFlt 1))];
                         TObj [(k_type, TJ (JStr k_result)); (k_result, exStop)];
                         TObj [(k_type, TJ (JStr k_result)); (k_result, TJ JNull)]])].
Example C18_ex_tick_roundtrip_computed :
  conf exCt exXt exTick shapes /\
  tick_decode exCt exXt shapes (tick_encode exCt true exTick) = Some exTick.
Proof. split; [apply confb_sound|]; vm_compute; reflexivity. Qed.
Print Assumptions C18_ex_tick_roundtrip_computed.

(* ---- the defects ---- *)
(* repaired by fix 4746e3e: before it, StopEvent.custom_model_dump shadowed DictLikeModel's, so the
   dynamic fields of every StopEvent (sub)class were dropped (dump with fixed = false) *)
Example C18_stop_dynamic_fields_lost_before_fix :
  conf exCt exXt exStop KEvent /\
  json_decode exCt exXt (json_encode exCt false exStop)
  = Some (TE 12 [(1001, TJ (JNum 3))] [] (JObj [(1006, JBool true)])).
Proof. split; [exact (proj2 C18_ex_conf_event) | vm_compute; reflexivity]. Qed.
Print Assumptions C18_stop_dynamic_fields_lost_before_fix.

(* repaired by fix 25c8a1e: before it, a class whose constructor rejects a single message made the
   whole tick / event unreadable (TypeError escaped); now type and message are kept when the instance
   built without the constructor prints the message (class 8), else the base class with the message *)
Definition exXt2 := mkxt [(8, XI true [(1008, (2, 0))] []); (9, XI true [(1008, (2, 0))] [(1008, 1011)]);
                          (3, XI true [(1008, (0, 1012))] [])].
Example C18_exception_constructor_rejects :
  dec_exn_unfixed exXt2 (enc_exn 8 1008) = None /\
  dec_exn exXt2 (enc_exn 8 1008) = Some (TX 8 1008) /\
  dec_exn exXt2 (enc_exn 9 1008) = Some (TX exc_base 1008).
Proof. repeat split; vm_compute; reflexivity. Qed.
Print Assumptions C18_exception_constructor_rejects.

(* KNOWN FINDINGS (not repaired; the wire format carries only type name and str()):
   class 3 (e.g. KeyError, whose str() is the repr of its argument) — the constructor runs but the
   message comes back changed; class 9 (str() depends on state set by a multi-argument constructor)
   — the type is lost *)
Example C18_exception_refuted :
  (exists xt c m m', x_importable (xt c) = true /\ dec_exn xt (enc_exn c m) = Some (TX c m') /\ m' <> m) /\
  (exists xt c m, x_importable (xt c) = true /\ dec_exn xt (enc_exn c m) = Some (TX exc_base m) /\ c <> exc_base).
Proof.
  split.
  - exists exXt2, 3, 1008, 1012. repeat split; try (vm_compute; reflexivity). discriminate.
  - exists exXt2, 9, 1008. repeat split; try (vm_compute; reflexivity). discriminate.
Qed.
Print Assumptions C18_exception_refuted.
