(* C20 — Concurrent state updates are never lost.
   Statements only; every proof is `exact <lemma>` from Proofs/StateSchedProofs.v.

   Objects: Model/StateSched.v.  Generic: tasks = lists of atomic segments (code between await
   points) over a shared state and a task-local state; a locking task holds the store's lock from
   before its first segment to the end of its last one; a schedule is any list of task ids, each
   entry runs that task to its next await point; the lock is granted to whichever waiting task the
   schedule picks; asyncio.Lock's FIFO queue is modelled separately (Model/StateSchedFifo.v) and
   proved to be simulated by it.  Concrete: set /
   set_state / get / edit_state blocks that await between their parts, for InMemoryStateStore
   (the block mutates the live state) and SqliteStateStore (the block edits a copy loaded at the
   start and saved at the end), with the locking flags read from the source into Generated.v. *)
From Coq Require Import List ZArith Bool Permutation.
Import ListNotations.
From WF Require Import Generated Model.StateStore Model.StateSched Proofs.StateSchedProofs.
From WF Require Import Model.StateSchedFifo Proofs.StateSchedFifoProofs.
Local Open Scope nat_scope.

(* the locking discipline the theorems below are instantiated with, re-read from /repo on every run:
   [get; set; set_state; edit_state] *)
Theorem C20_generated_shape :
  writes_locked statestore_memory_locked = true /\ writes_locked statestore_sqlite_locked = true.
Proof. split; reflexivity. Qed.
Print Assumptions C20_generated_shape.

(* Generic: for ANY tasks that follow the discipline (locking, or one atomic read) and ANY schedule
   that lets every task finish, the final shared state is the result of running all the tasks one
   after the other in some order. *)
Theorem C20_serialisable_generic : forall (St Lo : Type) (tasks : nat -> task St Lo) (n : nat) (s0 : St),
  (forall i, i < n -> ok_task St Lo (tasks i)) ->
  forall sch,
  let y := run_sched St Lo tasks n s0 sch in
  all_finished St Lo y n = true ->
  exists ord, Permutation ord (seq 0 n) /\ sh _ _ y = serial St Lo tasks ord s0.
Proof. exact serialisable. Qed.
Print Assumptions C20_serialisable_generic.

(* ... and at every moment at which the lock is free — complete schedule or not — the shared state
   is the serial result of the tasks finished so far (no completed write has been lost) *)
Theorem C20_quiescent_serial_generic : forall (St Lo : Type) (tasks : nat -> task St Lo) (n : nat) (s0 : St),
  (forall i, i < n -> ok_task St Lo (tasks i)) ->
  forall sch,
  let y := run_sched St Lo tasks n s0 sch in
  holder _ _ y = None -> sh _ _ y = serial St Lo tasks (order _ _ y) s0.
Proof. exact quiescent_serial. Qed.
Print Assumptions C20_quiescent_serial_generic.

(* The stores, with the locking flags of the source: every interleaving of any list of operations
   (each edit_state block counts as one operation, whatever it awaits in between) ends in
   [serial_ops ops ord s0] for a permutation [ord] — [cop_serial] is what an operation does alone. *)
Theorem C20_memory_serialisable : forall ops s0 sch,
  let y := run_sched _ _ (task_table (mem_task statestore_memory_locked) ops) (length ops) s0 sch in
  all_finished _ _ y (length ops) = true ->
  exists ord, Permutation ord (seq 0 (length ops)) /\ sh _ _ y = serial_ops ops ord s0.
Proof. exact (memory_serialisable statestore_memory_locked eq_refl). Qed.
Print Assumptions C20_memory_serialisable.

Theorem C20_sqlite_serialisable : forall ops s0 sch,
  let y := run_sched _ _ (task_table (sql_task statestore_sqlite_locked) ops) (length ops) s0 sch in
  all_finished _ _ y (length ops) = true ->
  exists ord, Permutation ord (seq 0 (length ops)) /\ sh _ _ y = serial_ops ops ord s0.
Proof. exact (sqlite_serialisable statestore_sqlite_locked eq_refl). Qed.
Print Assumptions C20_sqlite_serialisable.

(* asyncio.Lock's own discipline (Model/StateSchedFifo.v: a task that finds the lock busy joins a FIFO
   queue; release hands the lock to the first waiter): every step of that semantics is the same step
   of the guard semantics or a stutter, under a relation that keeps shared state, finishing order
   and phases equal ... *)
Theorem C20_fifo_step_is_guard_step_or_stutter :
  forall (St Lo : Type) (tasks : nat -> task St Lo) (n : nat) f g i,
  R St Lo tasks f g ->
  R St Lo tasks (fstep St Lo tasks n f i) (step St Lo tasks n g i) \/ R St Lo tasks (fstep St Lo tasks n f i) g.
Proof. exact step_sim. Qed.
Print Assumptions C20_fifo_step_is_guard_step_or_stutter.

(* ... so the serialisability theorems hold for the FIFO lock as well, generically and for both stores *)
Theorem C20_serialisable_fifo_generic : forall (St Lo : Type) (tasks : nat -> task St Lo) (n : nat) (s0 : St),
  (forall i, i < n -> ok_task St Lo (tasks i)) ->
  forall sch,
  let y := frun_sched St Lo tasks n s0 sch in
  fall_finished St Lo y n = true ->
  exists ord, Permutation ord (seq 0 n) /\ fsh _ _ y = serial St Lo tasks ord s0.
Proof. exact fifo_serialisable. Qed.
Print Assumptions C20_serialisable_fifo_generic.

Theorem C20_memory_serialisable_fifo : forall ops s0 sch,
  let y := frun_sched _ _ (task_table (mem_task statestore_memory_locked) ops) (length ops) s0 sch in
  fall_finished _ _ y (length ops) = true ->
  exists ord, Permutation ord (seq 0 (length ops)) /\ fsh _ _ y = serial_ops ops ord s0.
Proof. exact (memory_fifo_serialisable statestore_memory_locked eq_refl). Qed.
Print Assumptions C20_memory_serialisable_fifo.

Theorem C20_sqlite_serialisable_fifo : forall ops s0 sch,
  let y := frun_sched _ _ (task_table (sql_task statestore_sqlite_locked) ops) (length ops) s0 sch in
  fall_finished _ _ y (length ops) = true ->
  exists ord, Permutation ord (seq 0 (length ops)) /\ fsh _ _ y = serial_ops ops ord s0.
Proof. exact (sqlite_fifo_serialisable statestore_sqlite_locked eq_refl). Qed.
Print Assumptions C20_sqlite_serialisable_fifo.

(* What failed before SqliteStateStore.set_state took the lock: an edit block suspended across a
   set_state overwrites it — the final state is the result of NO serial order. *)
Theorem C20_sqlite_unlocked_set_state_refuted :
  let y := run_sched _ _ (task_table (sql_task [false; true; false; true]) lost_ops) 2 lost_s0 [0; 1; 0] in
  all_finished _ _ y 2 = true /\
  forall ord, Permutation ord (seq 0 2) -> sh _ _ y <> serial_ops lost_ops ord lost_s0.
Proof. exact sqlite_unlocked_set_state_refuted. Qed.
Print Assumptions C20_sqlite_unlocked_set_state_refuted.

(* non-vacuity: two read-modify-write edit blocks and a set_state, interleaved at their await
   points, all finish; nothing is lost: the counter ends at 1 + 2 + 10 *)
Example C20_nonvacuous :
  let n := [110%Z] in
  let ops := [CEdit [[EAdd n 1%Z]; [EAdd n 1%Z]]; CEdit [[EAdd n 10%Z]];
              CSetState {| o_cls := dict_cls; o_items := [(n, VInt 1%Z)] |}] in
  let s0 := {| o_cls := dict_cls; o_items := [(n, VInt 0%Z)] |} in
  let y := run_sched _ _ (task_table (sql_task statestore_sqlite_locked) ops) 3 s0 [2; 0; 1; 1; 0; 1] in
  all_finished _ _ y 3 = true /\ order _ _ y = [2; 0; 1] /\
  sh _ _ y = {| o_cls := dict_cls; o_items := [(n, VInt 13%Z)] |}.
Proof. vm_compute. repeat split. Qed.
Print Assumptions C20_nonvacuous.
