(* C07 — Retry building blocks obey their algebra and bounds.
   Statements only; every proof is `exact <lemma>` from Proofs/RetryProofs.v. *)
From Coq Require Import List ZArith QArith Bool.
Import ListNotations.
From WF Require Import Model.Retry Proofs.RetryProofs Generated.
Open Scope Q_scope.

(* retry_any / `|` is logical or, retry_all / `&` is logical and — n-ary and binary sugar,
   for every user predicate oracle and every exception *)
Theorem C07_retry_any_is_or : forall up l x,
  rcond_eval up (RAny l) x = existsb (fun c => rcond_eval up c x) l.
Proof. exact rcond_any_existsb. Qed.
Print Assumptions C07_retry_any_is_or.

Theorem C07_retry_all_is_and : forall up l x,
  rcond_eval up (RAll l) x = forallb (fun c => rcond_eval up c x) l.
Proof. exact rcond_all_forallb. Qed.
Print Assumptions C07_retry_all_is_and.

Theorem C07_retry_or_operator : forall up a b x,
  rcond_eval up (RAny [a; b]) x = rcond_eval up a x || rcond_eval up b x.
Proof. exact rcond_or. Qed.
Print Assumptions C07_retry_or_operator.

Theorem C07_retry_and_operator : forall up a b x,
  rcond_eval up (RAll [a; b]) x = rcond_eval up a x && rcond_eval up b x.
Proof. exact rcond_and. Qed.
Print Assumptions C07_retry_and_operator.

Theorem C07_stop_any_is_or : forall l n e u,
  stop_eval (SAny l) n e u = existsb (fun c => stop_eval c n e u) l.
Proof. exact stop_any_existsb. Qed.
Print Assumptions C07_stop_any_is_or.

Theorem C07_stop_all_is_and : forall l n e u,
  stop_eval (SAll l) n e u = forallb (fun c => stop_eval c n e u) l.
Proof. exact stop_all_forallb. Qed.
Print Assumptions C07_stop_all_is_and.

Theorem C07_stop_or_operator : forall a b n e u,
  stop_eval (SAny [a; b]) n e u = stop_eval a n e u || stop_eval b n e u.
Proof. exact stop_or. Qed.
Print Assumptions C07_stop_or_operator.

Theorem C07_stop_and_operator : forall a b n e u,
  stop_eval (SAll [a; b]) n e u = stop_eval a n e u && stop_eval b n e u.
Proof. exact stop_and. Qed.
Print Assumptions C07_stop_and_operator.

(* wait_combine / `+` is the sum of its parts *)
Theorem C07_wait_combine_is_sum : forall rng seed l n,
  wait_eval rng seed (WCombine l) n = qsum (map (fun w => wait_eval rng seed w n) l).
Proof. exact wait_combine_sum. Qed.
Print Assumptions C07_wait_combine_is_sum.

Theorem C07_wait_plus_operator : forall rng seed a b n,
  wait_eval rng seed (WCombine [a; b]) n == wait_eval rng seed a n + wait_eval rng seed b n.
Proof. exact wait_plus. Qed.
Print Assumptions C07_wait_plus_operator.

(* Every strategy whose parameters are in the documented domain (wf_wait) returns, for every
   attempt number (including those where exp_base**attempts overflows), every seed and every
   jitter draw in [0,1], a non-negative delay within its documented bounds [wlo, whi]. *)
Theorem C07_wait_within_documented_bounds : forall rng seed,
  0 <= rng seed -> rng seed <= 1 ->
  forall w n, wf_wait w ->
    0 <= wlo w /\ wlo w <= wait_eval rng seed w n /\ le_opt (wait_eval rng seed w n) (whi w).
Proof. exact wait_bounds. Qed.
Print Assumptions C07_wait_within_documented_bounds.

(* Jittered strategies depend on the random source only through the draw for the given seed *)
Theorem C07_jitter_deterministic_per_seed : forall rng1 rng2 seed w n,
  rng1 seed = rng2 seed -> wait_eval rng1 seed w n = wait_eval rng2 seed w n.
Proof. exact wait_deterministic. Qed.
Print Assumptions C07_jitter_deterministic_per_seed.

(* non-vacuity: a composite strategy in the documented domain, evaluated at an overflowing
   attempt number, and its bounds *)
Example C07_nonvacuous :
  let w := WCombine [WChain (WFixed 1) [WExp 1 2 60 0]; WRandExp 1 2 8 (1#2); WExpJitter 1 2 60 1] in
  wf_wait w /\ wlo w == 1 # 2 /\ whi w = Some (128 # 1) /\
  wait_eval (fun _ => 1 # 4) (Some 7%Z) w 2000 == 60 + ((1#2) + (8 - (1#2)) * (1#4)) + 60.
Proof. cbn [wf_wait]. repeat split; try (cbv; congruence); vm_compute; reflexivity. Qed.
Print Assumptions C07_nonvacuous.

(* The code shapes the model relies on, re-read from /repo on every run by the translator:
   the three exponential strategies catch OverflowError (model: [exp_term = None => max]). *)
Theorem C07_generated_shape :
  wait_exponential_catches_overflow = true /\ wait_exponential_jitter_catches_overflow = true /\
  wait_random_exponential_catches_overflow = true.
Proof. repeat split; reflexivity. Qed.
Print Assumptions C07_generated_shape.
