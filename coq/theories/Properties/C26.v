(* C26 — Idle release and resume never lose an event or double-run a workflow.
   In-process: M-IdleRelease (all sequences of: idle announcements, timer wake-ups, lock
   acquisitions, sender / releaser / server-start steps at await-point granularity, engine ticks,
   crashes).  DBOS: the lifecycle lock M-Lifecycle (all operation sequences of all replicas). *)
From Coq Require Import List ZArith Bool.
Import ListNotations.
From WF Require Import Generated Model.IdleRelease Proofs.IdleReleaseProofs Model.Lifecycle Proofs.LifecycleProofs.
Open Scope Z_scope.

(* never two live control loops for one run *)
Theorem C26_one_loop : forall tau tr s, run tau init tr = Some s -> (length (loops s) <= 1)%nat.
Proof. exact ir_one_loop. Qed.
Print Assumptions C26_one_loop.

Theorem C26_loop_only_while_active : forall tau tr s, run tau init tr = Some s -> active s = false -> loops s = [].
Proof. exact ir_loop_only_if_active. Qed.
Print Assumptions C26_loop_only_while_active.

(* the reload lock is held by at most one sender / releaser *)
Theorem C26_reload_lock_exclusive : forall tau tr s, run tau init tr = Some s -> (count holds (tasks s) <= 1)%nat.
Proof. exact ir_lock_exclusive. Qed.
Print Assumptions C26_reload_lock_exclusive.

(* at most one resumer takes ownership of a released run: as long as server-start resumption has not
   overlapped a sender's reload, at most one workflow.run since the run was last dropped from memory,
   BasicRuntime's duplicate-run guard never fires, no sender task dies, no handler is mis-marked failed *)
Theorem C26_one_owner : forall tau tr s, run tau init tr = Some s -> raced (g s) = false ->
  (reloads (g s) <= 1)%nat /\ guard_hits (g s) = 0%nat /\ undeliv (g s) = [] /\ misfailed (g s) = 0%nat.
Proof. exact ir_one_owner. Qed.
Print Assumptions C26_one_owner.

(* a release happens only while no input is queued or running and no retry waits out its delay
   (after the repair: the first tick processed after the idle announcement clears the mark) *)
Theorem C26_release_only_quiescent : forall tau tr s, run tau init tr = Some s -> raced (g s) = false ->
  rel_busy (g s) = 0%nat /\ lost_retries (g s) = 0%nat.
Proof. exact ir_release_only_quiescent. Qed.
Print Assumptions C26_release_only_quiescent.

(* every event put into a receive queue is accounted for: persisted, still queued in the live loop,
   dropped by a release, or dropped by a crash / the end of the run *)
Theorem C26_events_conserved : forall tau tr s, run tau init tr = Some s -> forall x,
  occ (delivered (g s)) x =
  (occ (log s) x + occ (all_mail (loops s)) x + occ (lost (g s)) x + occ (dropped (g s)) x)%nat.
Proof. exact ir_events_conserved. Qed.
Print Assumptions C26_events_conserved.

(* REFUTED: "no event is lost by a release" -- idle_timeout 0, a step sends event 7 to its own run and
   returns None; the engine announces idle before pulling it; the release drops the receive queue *)
Theorem C26_no_event_lost_refuted :
  exists tau tr s, run tau init tr = Some s /\ raced (g s) = false /\ lost (g s) = [7] /\ rel_busy (g s) = 0%nat.
Proof. exact wit_event_lost. Qed.
Print Assumptions C26_no_event_lost_refuted.

(* partial: when every idle mark is written truthfully (no queued, running, scheduled or undelivered
   work, no sender between clearing the mark and its put) no release loses anything *)
Theorem C26_no_event_lost_partial : forall tau tr s,
  run_truthful tau init tr = true -> run tau init tr = Some s ->
  rel_work (g s) = 0%nat /\ lost (g s) = [] /\ lost_timers (g s) = 0%nat /\ lost_retries (g s) = 0%nat.
Proof. exact ir_safe_release_partial. Qed.
Print Assumptions C26_no_event_lost_partial.

(* REFUTED: one owner when server start overlaps a sender's reload (a store whose reads suspend) *)
Theorem C26_startup_race_refuted :
  exists tau tr s, run tau init tr = Some s /\ raced (g s) = true /\ guard_hits (g s) = 1%nat /\
                   undeliv (g s) = [5].
Proof. exact wit_startup_race. Qed.
Print Assumptions C26_startup_race_refuted.

Example C26_nonvacuous :
  exists tau tr s, run tau init tr = Some s /\ run_truthful tau init tr = true /\ raced (g s) = false /\
                   active s = true /\ log s = [3] /\ reloads (g s) = 1%nat /\ idle_since s = None.
Proof. exact wit_release_and_reload. Qed.
Print Assumptions C26_nonvacuous.

(* ---- DBOS lifecycle lock: all interleavings of all replicas' operations ---- *)
(* at most one resumer wins per release: resume wins (+ a release still pending) never exceed release wins *)
Theorem C26_dbos_one_owner : forall run ops t,
  (count_wins is_resume_win run ops (snd (lrun t ops)) + pending (lookup run (fst (lrun t ops)))
   <= count_wins is_release_win run ops (snd (lrun t ops)) + pending (lookup run t))%nat.
Proof. exact lc_one_owner. Qed.
Print Assumptions C26_dbos_one_owner.

Theorem C26_dbos_one_owner_exact : forall run ops t,
  count_wins is_create run ops (snd (lrun t ops)) = 0%nat ->
  (count_wins is_resume_win run ops (snd (lrun t ops)) + pending (lookup run (fst (lrun t ops)))
   = count_wins is_release_win run ops (snd (lrun t ops)) + pending (lookup run t))%nat.
Proof. exact lc_one_owner_exact. Qed.
Print Assumptions C26_dbos_one_owner_exact.

Theorem C26_dbos_winner_leaves_active : forall now r ct r',
  row_step now r (TryResume ct) = (r', RSt LReleased) -> r' = Some (LActive, now).
Proof. exact lc_win_leaves_active. Qed.
Print Assumptions C26_dbos_winner_leaves_active.

Theorem C26_dbos_active_run_has_no_second_owner : forall now r ct,
  st_of r = Some LActive \/ r = None -> row_step now r (TryResume ct) = (r, RNone).
Proof. exact lc_active_no_owner. Qed.
Print Assumptions C26_dbos_active_run_has_no_second_owner.

(* a live releaser is not preempted before the crash timeout; takeover only after it *)
Theorem C26_dbos_live_releaser_not_preempted : forall now u ct,
  (match ct with Some c => now - u <= c | None => True end) ->
  row_step now (Some (LReleasing, u)) (TryResume ct) = (Some (LReleasing, u), RSt LReleasing).
Proof. exact lc_live_releaser_not_preempted. Qed.
Print Assumptions C26_dbos_live_releaser_not_preempted.

Theorem C26_dbos_takeover_only_after_timeout : forall now u ct r',
  row_step now (Some (LReleasing, u)) (TryResume ct) = (r', RSt LReleased) ->
  exists c, ct = Some c /\ c < now - u.
Proof. exact lc_preempt_only_after_timeout. Qed.
Print Assumptions C26_dbos_takeover_only_after_timeout.

(* instance for the constant in the source (translated on every run): the sender passes
   CRASH_TIMEOUT_SECONDS, it is non-negative, so a release that has just begun is never taken over *)
Theorem C26_dbos_crash_timeout_instance : forall now,
  dbos_resume_passes_crash_timeout = true /\
  row_step now (fst (row_step now (Some (LActive, now)) BeginRelease)) (TryResume (Some dbos_crash_timeout_ms))
  = (Some (LReleasing, now), RSt LReleasing).
Proof. intro now. split; [reflexivity|]. apply lc_fresh_release_safe. vm_compute. discriminate. Qed.
Print Assumptions C26_dbos_crash_timeout_instance.
