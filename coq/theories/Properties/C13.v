(* C13 - A server restart at any persisted point resumes without losing work.
   Statements only; every proof is `exact <lemma>` from Proofs/ServerResumeProofs.v.
   Model: Model/ServerPersist.v (replay = control_loop.replay_ticks_stream, context_from_ticks, resume_boot,
   _on_server_start, follow = how _ControlLoopRunner fills tick_buffer) on top of Model/Engine.v
   (reduce, rewind, to_ser / from_ser, rehydrate_ticks). *)
From Coq Require Import List ZArith Bool PeanoNat Permutation.
Import ListNotations.
From WF Require Import Model.Engine Model.ServerPersist Proofs.EngineCap Proofs.ServerPersistProofs
  Proofs.ServerResumeProofs.
Open Scope Z_scope.

(* definitions restated so they cannot be weakened elsewhere *)
Theorem C13_definitions :
  (forall w, held w = map i_ev (inprogress w) ++ map a_ev (queue w)) /\
  (forall P base ts now, replay P base ts now =
     match rewind base now with Err c => Err c | Ok (s, _) => replay_fold P s ts now None end) /\
  (forall c, finalize_of c = match c with
                             | CComplete e => Some (SCompleted, Some e, None)
                             | CFail _ x => Some (SFailed, None, Some (EExn x))
                             | CHalt HCancelled => Some (SCancelled, None, None)
                             | CHalt (HTimeout t a) => Some (SFailed, None, Some (ETimeoutHalt t a))
                             | _ => None end).
Proof.
  split; [intro; reflexivity | split; [intros; reflexivity |]].
  intro c; destruct c; reflexivity.
Qed.
Print Assumptions C13_definitions.

(* ---- finalize_matches ---- *)
(* A persisted log in which some tick made the reducer emit an exit command always replays to an exit command:
   such a run is finalised, never re-run (for every log, every retry policy, every position of the tick). *)
Theorem C13_log_with_exit_is_finalised : forall P base ts1 t ts2 now s0 c0 s1 ex1 s2 cs s ex,
  rewind (blank_state base) now = Ok (s0, c0) ->
  replay_fold P s0 ts1 now None = Ok (s1, ex1) ->
  reduce P t s1 now = Ok (s2, cs) -> existsb is_exit cs = true ->
  replay P (blank_state base) (ts1 ++ t :: ts2) now = Ok (s, ex) ->
  exists c, ex = Some c /\ is_exit c = true.
Proof. exact log_with_exit_is_finalised. Qed.
Print Assumptions C13_log_with_exit_is_finalised.

(* What the restart writes for an exit command is what the live terminal stream event would have written:
   same status, same result. *)
Theorem C13_finalize_agrees_with_live : forall k c h, exit_of k c ->
  exists s r e, finalize_of c = Some (s, r, e) /\ s = k_status k /\
    h_status (upd_status (Some s) r e None h) = h_status (k_write k h) /\
    h_result (upd_status (Some s) r e None h) = h_result (k_write k h).
Proof. exact finalize_agrees_with_live. Qed.
Print Assumptions C13_finalize_agrees_with_live.

(* The restart itself: the handler gets status / result / error of the command and no control loop is started. *)
Theorem C13_server_start_finalises : forall bo stops c s r e y h,
  finalize_of c = Some (s, r, e) -> y_phase y <> PhActive ->
  s_rec (y_store y) = Some h -> h_status h = SRunning -> h_idle h = false ->
  let y' := step_op bo stops (OpServerStart (RExit (Some c))) y in
  y_phase y' = y_phase y /\
  (fst (pop (f_status (s_fl (y_store y)))) = false ->
   s_rec (y_store y') = Some (upd_status (Some s) r e None h)).
Proof. exact server_start_finalises. Qed.
Print Assumptions C13_server_start_finalises.

Theorem C13_server_start_resumes_unfinished : forall bo stops ex y h,
  (ex = None \/ ex = Some CCompleteIdleRelease) -> y_phase y <> PhActive ->
  s_rec (y_store y) = Some h -> h_status h = SRunning -> h_idle h = false ->
  let y' := step_op bo stops (OpServerStart (RExit ex)) y in
  y_phase y' = PhActive /\ y_store y' = y_store y.
Proof. exact server_start_resumes. Qed.
Print Assumptions C13_server_start_resumes_unfinished.

(* ---- nothing held by the replayed state is lost or duplicated by the resume ---- *)
(* the reducer never changes the set of steps, so the replayed state has the workflow's steps *)
Theorem C13_replayed_state_has_the_workflow_steps : forall P base ts now s ex,
  replay P (blank_state base) ts now = Ok (s, ex) -> keys s = keys base.
Proof. exact replay_keys. Qed.
Print Assumptions C13_replayed_state_has_the_workflow_steps.

(* the resumed runner always boots *)
Theorem C13_resume_boot_total : forall base c now, exists r' cs, rewind (from_ser base c) now = Ok (r', cs).
Proof. exact resume_boot_total. Qed.
Print Assumptions C13_resume_boot_total.

(* For every persisted log: replay, to_serialized, from_serialized and rewind_in_progress yield a state that holds,
   step by step, exactly the inputs the replayed state holds (queued or in progress), the same collected buffers,
   the same waiters and the same running flag. *)
Theorem C13_resume_preserves_work : forall P base ts now s ex r' cs,
  Keys_ok base -> replay P (blank_state base) ts now = Ok (s, ex) ->
  rewind (from_ser base (to_ser s)) now = Ok (r', cs) ->
  running r' = running s /\
  forall n w, zlookup n (workers s) = Some w ->
    exists w', zlookup n (workers r') = Some w' /\
      Permutation (held w') (held w) /\ collected w' = collected w /\
      map w_id (waiters w') = map w_id (waiters w) /\ map w_resolved (waiters w') = map w_resolved (waiters w) /\
      map w_ev (waiters w') = map w_ev (waiters w).
Proof. exact resume_from_log_preserves_work. Qed.
Print Assumptions C13_resume_preserves_work.

(* ---- resume_at_quiescent ---- *)
(* When the in-memory tick_buffer holds no add-event tick at the crash point, the resumed state holds exactly the
   work of the live configuration (engine state + buffer). *)
Theorem C13_resume_at_quiescent : forall P base log s buf now r' cs,
  Keys_ok s -> keys s = keys base ->
  follow P (blank_state base) [] log = Ok (s, buf) -> buffered_adds buf = [] ->
  rewind (from_ser base (to_ser s)) now = Ok (r', cs) ->
  forall n w, zlookup n (workers s) = Some w ->
    exists w', zlookup n (workers r') = Some w' /\ Permutation (held w') (held w ++ buffered_adds buf).
Proof. exact resume_at_quiescent. Qed.
Print Assumptions C13_resume_at_quiescent.

(* ---- resume_any_prefix is refuted ---- *)
(* two steps, s1: StartEvent -> A, s2: A -> StopEvent.  The uninterrupted log completes; after the persisted prefix
   [add_event, step_result:s1] the add-event tick for A exists only in tick_buffer; the resumed state is running,
   holds no work, re-runs nothing and rehydrates nothing: the run never completes. *)
Theorem C13_resume_any_prefix_refuted :
  (exists s, replay nopol (blank_state two_step) full_log 0 = Ok (s, Some (CComplete (ev 9 3)))) /\
  (exists s, follow nopol (blank_state two_step) [] (map (fun t => (t, 0)) (firstn 2 full_log))
             = Ok (s, [nth 2 full_log TCancel ; TIdleCheck])) /\
  (exists r, context_from_ticks nopol two_step (firstn 2 full_log) 0 = (RExit None, Some r) /\
             running r = true /\ all_quiet r = true /\ resume_boot r 0 = Ok (r, [], [])).
Proof. exact resume_any_prefix_refuted. Qed.
Print Assumptions C13_resume_any_prefix_refuted.

(* ---- non-vacuity ---- *)
(* crash after the first persisted tick of the same run: s1 is in progress; the resumed state holds the StartEvent
   for s1 and re-runs it (a CRunWorker command) *)
Example C13_example_in_progress_step_is_rerun :
  exists r r' cs, context_from_ticks nopol two_step (firstn 1 full_log) 0 = (RExit None, Some r) /\
    resume_boot r 0 = Ok (r', cs, []) /\
    option_map held (zlookup 1 (workers r')) = Some [ev 0 1] /\
    existsb (fun c => match c with CRunWorker 1 _ _ => true | _ => false end) cs = true.
Proof. eexists. eexists. eexists. split; [vm_compute; reflexivity |]. split; [vm_compute; reflexivity |].
  vm_compute. split; reflexivity. Qed.
Print Assumptions C13_example_in_progress_step_is_rerun.

(* the complete log is finalised as completed with the StopEvent *)
Example C13_example_completed_log_finalised :
  exists r, context_from_ticks nopol two_step full_log 0 = (RExit (Some (CComplete (ev 9 3))), Some r) /\
            finalize_of (CComplete (ev 9 3)) = Some (SCompleted, Some (ev 9 3), None).
Proof. eexists. split; [vm_compute; reflexivity | reflexivity]. Qed.
Print Assumptions C13_example_completed_log_finalised.
