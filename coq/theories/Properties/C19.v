(* C19 — State stores implement the same state semantics, with isolated snapshots.
   Statements only; every proof is `exact <lemma>` from Proofs/StateStoreProofs.v.

   Objects: Model/StateStore.v — [spec_step]: the nested-dict reference semantics (state = class +
   top-level dict of JSON trees, caller-held snapshot = independent value); [mem_step]: the
   InMemoryStateStore with object identity explicit (state objects and snapshots are references
   into a heap of top-level dicts; model_copy allocates — for a DictState only when
   DictLikeModel.__copy__ copies _data, a fact read from the source into Generated.v);
   [sql_step]: the SqliteStateStore (a row, loaded and saved around every operation, missing row =
   defaults of the declared type).  All theorems quantify over every class table, every declared
   state type and every operation sequence. *)
From Coq Require Import List ZArith Bool.
Import ListNotations.
From WF Require Import Generated Model.StateStore Proofs.StateStoreProofs.
Open Scope Z_scope.

(* the source facts the models rely on, re-read from /repo on every run *)
Theorem C19_generated_shape :
  statestore_max_depth = Z.of_nat MAX_DEPTH /\ statestore_dictlike_copy_copies_data = true /\
  statestore_pathstep_dictlike_by_name = true.
Proof. repeat split; reflexivity. Qed.
Print Assumptions C19_generated_shape.

(* Both stores answer every operation sequence exactly like the nested-dict model.  For the memory
   store the sequences are those in which no snapshot is written back after a dotted-path set
   ([wb_clean]: a snapshot is a shallow copy; the property only speaks about its top level). *)
Theorem C19_memory_refines_nested_dict : forall ct ty ops, wb_clean ops = true ->
  run (mem_step statestore_dictlike_copy_copies_data ct) (mem_init ct ty) ops =
  run (spec_step ct) (spec_init ct ty) ops.
Proof. exact mem_refines_spec. Qed.
Print Assumptions C19_memory_refines_nested_dict.

Theorem C19_sqlite_refines_nested_dict : forall ct ty ops,
  run (sql_step ct ty) sql_init ops = run (spec_step ct) (spec_init ct ty) ops.
Proof. exact sql_refines_spec. Qed.
Print Assumptions C19_sqlite_refines_nested_dict.

Theorem C19_stores_agree : forall ct ty ops, wb_clean ops = true ->
  run (mem_step statestore_dictlike_copy_copies_data ct) (mem_init ct ty) ops =
  run (sql_step ct ty) sql_init ops.
Proof. exact stores_agree. Qed.
Print Assumptions C19_stores_agree.

(* Snapshot isolation: editing top-level keys / fields of a get_state() snapshot changes no answer
   of the store until the snapshot is written back — the answers after the edit are those of the
   run in which the edit never happened. *)
Theorem C19_snapshot_isolated_memory : forall ct ty pre es post,
  no_writeback post = true -> wb_clean (pre ++ post) = true ->
  skipn (S (length pre))
        (run (mem_step statestore_dictlike_copy_copies_data ct) (mem_init ct ty) (pre ++ OSnapEdit es :: post)) =
  skipn (length pre)
        (run (mem_step statestore_dictlike_copy_copies_data ct) (mem_init ct ty) (pre ++ post)).
Proof. exact snapshot_isolated_mem. Qed.
Print Assumptions C19_snapshot_isolated_memory.

Theorem C19_snapshot_isolated_sqlite : forall ct ty pre es post, no_writeback post = true ->
  skipn (S (length pre)) (run (sql_step ct ty) sql_init (pre ++ OSnapEdit es :: post)) =
  skipn (length pre) (run (sql_step ct ty) sql_init (pre ++ post)).
Proof. exact snapshot_isolated_sql. Qed.
Print Assumptions C19_snapshot_isolated_sqlite.

(* ... and this is exactly what failed before DictLikeModel.__copy__ copied _data: with a shared
   _data the memory model does not refine the nested-dict model *)
Theorem C19_shared_data_refuted :
  exists ops, wb_clean ops = true /\
    run (mem_step false []) (mem_init [] dict_cls) ops <> run (spec_step []) (spec_init [] dict_cls) ops.
Proof. exact mem_shared_data_refuted. Qed.
Print Assumptions C19_shared_data_refuted.

(* What "nested dict" means: laws of the path operations shared by the three models. *)
Theorem C19_get_after_set : forall o p x o',
  set_by_path o p x = Ok o' -> get_by_path o' p = Ok (inr x).
Proof. exact get_after_set. Qed.
Print Assumptions C19_get_after_set.

Theorem C19_set_creates_intermediate_dicts : forall s r x d, lookup s d = None ->
  vset (s :: r) x (VDict d) = Some (VDict (d ++ [(s, nest r x)])).
Proof. exact vset_creates. Qed.
Print Assumptions C19_set_creates_intermediate_dicts.

Theorem C19_set_keeps_other_dict_keys : forall s r x d v' k,
  vset (s :: r) x (VDict d) = Some v' -> k <> s -> vtraverse v' k = lookup k d.
Proof. exact vset_dict_frame. Qed.
Print Assumptions C19_set_keeps_other_dict_keys.

Theorem C19_set_keeps_other_list_positions : forall s r x l v',
  vset (s :: r) x (VList l) = Some v' ->
  exists k l', seg_index s (length l) = Some k /\ v' = VList l' /\ length l' = length l /\
               forall m, m <> k -> nth_error l' m = nth_error l m.
Proof. exact vset_list_frame. Qed.
Print Assumptions C19_set_keeps_other_list_positions.

Theorem C19_set_into_scalar_fails : forall s r x v,
  match v with VDict _ | VList _ => False | _ => True end -> vset (s :: r) x v = None.
Proof. exact vset_scalar_fails. Qed.
Print Assumptions C19_set_into_scalar_fails.

(* set_state: same class (or subclass) replaces, a parent class merges field-wise, anything else is
   rejected; the class of the stored state never leaves the declared state type's subclasses *)
Theorem C19_set_state_same_class_replaces : forall cur inc,
  o_cls inc = o_cls cur -> merge_state cur inc = Ok inc.
Proof. exact merge_same_class_replaces. Qed.
Print Assumptions C19_set_state_same_class_replaces.

Theorem C19_set_state_parent_merges : forall cur inc m,
  subclass (o_cls inc) (o_cls cur) = false -> merge_state cur inc = Ok m ->
  o_cls m = o_cls cur /\ map fst (o_items m) = map fst (o_items cur) /\
  forall k v, lookup k (o_items cur) = Some v ->
    lookup k (o_items m) = Some (match lookup k (o_items inc) with Some v' => v' | None => v end).
Proof. exact merge_parent. Qed.
Print Assumptions C19_set_state_parent_merges.

Theorem C19_set_state_unrelated_rejected : forall cur inc,
  subclass (o_cls inc) (o_cls cur) = false -> subclass (o_cls cur) (o_cls inc) = false ->
  merge_state cur inc = Err EValue.
Proof. exact merge_unrelated_rejected. Qed.
Print Assumptions C19_set_state_unrelated_rejected.

Theorem C19_state_class_invariant : forall ct ty ops,
  subclass (o_cls (sp_state (exec (spec_step ct) (spec_init ct ty) ops))) ty = true.
Proof. exact class_invariant. Qed.
Print Assumptions C19_state_class_invariant.

(* non-vacuity: a sequence with a numeric first segment, an intermediate dict, a negative list index,
   an edited snapshot and a write-back satisfies the hypotheses, and its answers *)
Example C19_nonvacuous_dictstate :
  let ops := [OSet [48; 46; 97] (VList [VInt 1; VInt 2]);          (* set("0.a", [1, 2]) *)
              OSet [48; 46; 97; 46; 45; 49] (VStr [120]);           (* set("0.a.-1", "x") *)
              OGetState;
              OSnapEdit [EPut [107] (VInt 9)];                      (* snapshot["k"] = 9 *)
              OGet [107] None;                                      (* store.get("k") -> not found *)
              OSnapWrite;
              OGet [107] None;                                      (* now 9 *)
              OGet [48; 46; 97; 46; 49] None] in                    (* "x" *)
  wb_clean ops = true /\
  run (spec_step []) (spec_init [] dict_cls) ops =
    [ROk; ROk;
     RState {| o_cls := [0]; o_items := [([48], VDict [([97], VList [VInt 1; VStr [120]])])] |};
     ROk; RErr EValue; ROk; RVal (VInt 9); RVal (VStr [120])].
Proof. split; vm_compute; reflexivity. Qed.
Print Assumptions C19_nonvacuous_dictstate.

(* non-vacuity for typed states: parent-type merge on a store that has no row yet, subclass
   replacement, clear *)
Example C19_nonvacuous_typed :
  let ct := [(1, [([103], VNull)]); (2, [([112], VInt 0)]); (3, [([99], VStr [99])])] in
  let ops := [OSetState {| o_cls := [1]; o_items := [([103], VInt 5)] |};
              OGetState;
              OSetState {| o_cls := [1; 2; 3]; o_items := [([103], VNull); ([112], VInt 3); ([99], VStr [122])] |};
              OClear;
              OGetState;
              OSetState {| o_cls := [9]; o_items := [] |}] in
  wb_clean ops = true /\
  run (sql_step ct [1; 2]) sql_init ops =
    [ROk; RState {| o_cls := [1; 2]; o_items := [([103], VInt 5); ([112], VInt 0)] |};
     ROk; ROk;
     RState {| o_cls := [1; 2; 3]; o_items := [([103], VNull); ([112], VInt 0); ([99], VStr [99])] |};
     RErr EValue].
Proof. split; vm_compute; reflexivity. Qed.
Print Assumptions C19_nonvacuous_typed.
