(* C14 — Pending retries and waiter timeouts survive idle release and restart.
   Server side: M-IdleRelease (the scheduled wakeups of a control loop are volatile: `retries`,
   `sched`); engine side: M-Engine (what the reducer state / its serialized form keep). *)
From Coq Require Import List ZArith Bool.
Import ListNotations.
From WF Require Import Model.Engine Proofs.EngineRoute Proofs.TimersProofs.
From WF Require Import Model.IdleRelease Proofs.IdleReleaseProofs.
Open Scope Z_scope.

(* every scheduled wakeup is accounted for: fired, still pending in the live loop, dropped by an idle
   release, or dropped by a crash / the end of the run -- while the run stays in memory none is lost *)
Theorem C14_timers_conserved : forall tau tr s, run tau init tr = Some s ->
  t_sched (g s) = (t_woke (g s) + sum_sched (loops s) + sum_retries (loops s) + lost_timers (g s)
                   + lost_retries (g s) + t_dropped (g s))%nat.
Proof. exact ir_timers_conserved. Qed.
Print Assumptions C14_timers_conserved.

(* retry vs idle release: no idle announcement while a retry waits out its delay ... *)
Theorem C14_no_idle_announcement_while_retry_pending : forall tau s s',
  step tau s EIdleDecide = Some s' ->
  busy s = 0%nat /\ exists v r, loops s = v :: r /\ retries v = 0%nat.
Proof. exact ir_no_idle_while_retry_pending. Qed.
Print Assumptions C14_no_idle_announcement_while_retry_pending.

(* ... and no idle release ever drops one (every action sequence without the server-start race) *)
Theorem C14_retry_survives_idle_release : forall tau tr s, run tau init tr = Some s -> raced (g s) = false ->
  rel_busy (g s) = 0%nat /\ lost_retries (g s) = 0%nat.
Proof. exact ir_release_only_quiescent. Qed.
Print Assumptions C14_retry_survives_idle_release.

(* REFUTED: a waiter timeout that has not fired is dropped by an idle release (a run that only waits
   is idle by definition) ... *)
Theorem C14_waiter_timeout_survives_release_refuted :
  exists tau tr s, run tau init tr = Some s /\ raced (g s) = false /\ lost_timers (g s) = 1%nat /\
                   released (g s) = true /\ sum_sched (loops s) = 0%nat.
Proof. exact wit_waiter_timeout_lost. Qed.
Print Assumptions C14_waiter_timeout_survives_release_refuted.

(* ... and the reloaded / resumed run never re-creates it: in a worker state that went through
   to_serialized / from_serialized the replayed wait_for_event(timeout=t) finds its waiter id
   registered and the reducer schedules nothing (for every state, waiter and timeout) *)
Theorem C14_resumed_waiter_schedules_no_timeout : forall P step tev dc now a base w wid wev reqs t ty k a',
  find_waiter_idx wid (waiters w) 0 = Some k ->
  k_w a = deser_worker base (ser_worker w) ->
  one_result P step tev dc now a (RAddWaiter wid wev reqs (Some t) ty) = Ok a' ->
  k_cmds a' = k_cmds a.
Proof. exact resumed_waiter_schedules_no_timeout. Qed.
Print Assumptions C14_resumed_waiter_schedules_no_timeout.

(* partial: in memory the timeout is scheduled when the waiter id is first registered *)
Theorem C14_first_registration_schedules_timeout : forall P step tev dc now a wid wev reqs t ty a',
  find_waiter_idx wid (waiters (k_w a)) 0 = None ->
  one_result P step tev dc now a (RAddWaiter wid wev reqs (Some t) ty) = Ok a' ->
  In (CSchedWaiterTimeout step wid t) (k_cmds a').
Proof. exact first_registration_schedules_timeout. Qed.
Print Assumptions C14_first_registration_schedules_timeout.

Theorem C14_waiting_run_is_idle : forall s : Engine.state,
  Engine.running s = true ->
  (forall p, In p (Engine.workers s) -> Engine.queue (snd p) = [] /\ Engine.inprogress (snd p) = []) ->
  Engine.check_idle s = true.
Proof. exact waiting_run_is_idle. Qed.
Print Assumptions C14_waiting_run_is_idle.

(* REFUTED: restart while a retry waits out its delay -- the retry exists only as a command with a
   delay; the state after the failure tick (and its serialized form) is empty and idle ... *)
Theorem C14_retry_survives_restart_refuted :
  exists P t s now s' cs, reduce P t s now = Ok (s', cs) /\ has_delayed_retry cs = true /\
    ser_empty (to_ser s') = true /\ check_idle s' = true.
Proof. exact retry_pending_not_in_state. Qed.
Print Assumptions C14_retry_survives_restart_refuted.

(* ... so after crash + server start the run is back in memory with nothing to do *)
Theorem C14_retry_lost_at_crash_refuted :
  exists tau tr s, run tau init tr = Some s /\ t_sched (g s) = 1%nat /\ t_woke (g s) = 0%nat /\
                   t_dropped (g s) = 1%nat /\ active s = true /\ sum_retries (loops s) = 0%nat /\ busy s = 0%nat.
Proof. exact wit_retry_lost_at_crash. Qed.
Print Assumptions C14_retry_lost_at_crash_refuted.

(* partial: with truthful idle marks (in particular: no pending waiter timeout) a release drops no timer *)
Theorem C14_no_timer_lost_partial : forall tau tr s,
  run_truthful tau init tr = true -> run tau init tr = Some s ->
  rel_work (g s) = 0%nat /\ lost (g s) = [] /\ lost_timers (g s) = 0%nat /\ lost_retries (g s) = 0%nat.
Proof. exact ir_safe_release_partial. Qed.
Print Assumptions C14_no_timer_lost_partial.
