(* C37 — llamactl never activates a profile the user did not pick in that environment.
   Model: Model/Llamactl.v (ConfigManager SQL + EnvService + AuthService as coded, driven by three
   shape facts re-read from the source into Generated.v on every run).  Proofs: Proofs/LlamactlProofs.v. *)
From Coq Require Import List ZArith Bool.
Import ListNotations.
From WF Require Import Generated Model.Llamactl Proofs.LlamactlProofs.
Open Scope Z_scope.

(* The property, for every history of CLI operations (create / refresh / switch / delete
   environments; create by token / by OIDC login, select, select-any, update credentials,
   set project, delete profiles; destroy the database), started from a freshly migrated database:
   after the history the current environment is the built-in default or a row of the environments
   table, and the active profile (AuthService.get_current_profile of the current environment) is
   none, or a profile of the current environment whose id is among those the user selected or
   created since that environment became current.  [strict] chooses between the two readings of
   "became current" (true: every successful add/switch starts a new tenure; false: only a change
   of environment does); the statement holds for both. *)
Theorem C37_active_profile_was_picked : forall (strict : bool) (ops : list op),
  forallb cli_op ops = true ->
  let sg := grun strict (init, []) ops in
  (s_env (fst sg) = default_url \/ In (s_env (fst sg)) (map fst (s_envs (fst sg)))) /\
  (forall p, active (fst sg) = Some p -> p_url p = s_env (fst sg) /\ In (p_id p) (snd sg)).
Proof. exact c37_holds. Qed.
Print Assumptions C37_active_profile_was_picked.

Theorem C37_current_environment_known : forall ops,
  forallb cli_op ops = true ->
  s_env (run init ops) = default_url \/ In (s_env (run init ops)) (map fst (s_envs (run init ops))).
Proof. exact c37_env_known. Qed.
Print Assumptions C37_current_environment_known.

(* Refinement (exact): along every history the id of the active profile equals the abstract
   "last pick of this tenure" (None when the tenure starts, Some id after a creation or a selection
   that names an existing profile, None after selecting a name that names nothing), as long as that
   profile still exists in the current environment. *)
Theorem C37_active_is_last_pick : forall ops,
  forallb cli_op ops = true ->
  let sa := arun (init, None) ops in
  option_map p_id (active (fst sa)) = surviving (fst sa) (snd sa).
Proof. exact c37_refinement. Qed.
Print Assumptions C37_active_is_last_pick.

(* The code the theorems are about: all three clearing statements are present in the source
   (Generated.v is rewritten from /repo on every run). *)
Theorem C37_generated_shape :
  llamactl_switch_clears_profile = true /\ llamactl_env_add_clears_profile = true /\
  llamactl_env_delete_clears_profile = true /\ llamactl_get_profile_by_name_and_url = true.
Proof. repeat split; reflexivity. Qed.
Print Assumptions C37_generated_shape.

(* The defect of the unchanged tree (repaired by the fix: commit recorded in known_findings.d):
   without the clearing statement in ConfigManager.delete_environment the property fails —
   create `default` in the default environment, add environment 1, create `default` there,
   delete environment 1: the default environment's `default` is active, never picked. *)
Theorem C37_unfixed_delete_environment_refuted :
  exists ops, forallb cli_op ops = true /\
    ~ c37_ok (grun_gen (mkF true true false) false (init, []) ops).
Proof. exact c37_without_delete_clear_refuted. Qed.
Print Assumptions C37_unfixed_delete_environment_refuted.

Theorem C37_switch_must_clear :
  exists ops, forallb cli_op ops = true /\
    ~ c37_ok (grun_gen (mkF false true true) false (init, []) ops).
Proof. exact c37_without_switch_clear_refuted. Qed.
Print Assumptions C37_switch_must_clear.

Theorem C37_add_must_clear :
  exists ops, forallb cli_op ops = true /\
    ~ c37_ok (grun_gen (mkF true false true) false (init, []) ops).
Proof. exact c37_without_add_clear_refuted. Qed.
Print Assumptions C37_add_must_clear.

(* Scope boundary, shown rather than assumed: ConfigManager.update_profile with a changed
   (name, api_url) — which no CLI command performs — is excluded by [cli_op], and must be. *)
Theorem C37_rename_is_outside_the_cli : exists ops, ~ c37_ok (grun false (init, []) ops).
Proof. exact c37_raw_rename_outside. Qed.
Print Assumptions C37_rename_is_outside_the_cli.

(* Non-vacuity: same-named profiles in two environments; after the history below the active
   profile is profile 2 (`default` of environment 1, created there), the pointer is the bare
   name, and the other `default` (id 1, default environment) exists as well. *)
Example C37_nonvacuous :
  let ops := [OCreateTok 2 0 1; OEnvAdd 1 false; OCreateTok 2 0 1; OEnvSwitch 0; OSelectAny;
              OEnvSwitch 1; OSelect 2; OUpdate 2 2 1 1] in
  forallb cli_op ops = true /\
  option_map p_id (active (fst (grun false (init, []) ops))) = Some 2 /\
  snd (grun false (init, []) ops) = [2] /\
  map p_id (s_profs (fst (grun false (init, []) ops))) = [1; 2] /\
  map p_name (s_profs (fst (grun false (init, []) ops))) = [2; 2].
Proof. vm_compute. repeat split; reflexivity. Qed.
Print Assumptions C37_nonvacuous.

(* the witness of the repaired defect, on the repaired model: nothing is active afterwards *)
Example C37_witness_after_fix :
  active (run init witness_delete) = None /\ s_env (run init witness_delete) = default_url.
Proof. vm_compute. split; reflexivity. Qed.
Print Assumptions C37_witness_after_fix.
