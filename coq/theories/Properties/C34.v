(* C34 — Release tooling converts and classifies versions consistently.
   Statements only; every proof is `exact <lemma>` from Proofs/VersionProofs.v.

   Vocabulary (Model/Version.v; regex shape, labels, separators and the decision list of
   detect_change_type come from the source through Generated.v):
     v : version                   release tuple (list N) with optional (a|b|rc, n)
     render_pep440 v               str(Version(..)): the normalized PEP 440 spelling
     parse_pep440 s                Version(s) on the spelling digits(.digits)*((a|b|rc)digits)?
                                   (leading zeros allowed)
     p2s v                         what pep440_to_semver returns for a string that parses to v
     pep440_to_semver s            string to string (parse, then p2s)
     semver_to_pep440 s            S2P_ok result | S2P_bad_label (ValueError)
     vcmp, greater                 packaging's ordering on this domain (modelled, compared with the
                                   library on every run)
     detect_change_type cur prev   0 none, 1 patch, 2 minor, 3 major *)
From Coq Require Import List ZArith NArith Bool.
Import ListNotations.
From WF Require Import Generated Model.Version Proofs.VersionProofs Proofs.VersionStrings.
Open Scope Z_scope.

(* PEP 440 -> semver -> PEP 440 yields the normalized original: for every string of the modelled
   spelling (any number of release components, leading zeros, optional a/b/rc number) *)
Theorem C34_pep440_to_semver_and_back : forall s v, parse_pep440 s = Some v ->
  exists sem, pep440_to_semver s = Some sem /\ semver_to_pep440 sem = S2P_ok (render_pep440 v).
Proof. exact roundtrip_from_pep440. Qed.
Print Assumptions C34_pep440_to_semver_and_back.

(* semver -> PEP 440 -> semver likewise: from the semver form of every version *)
Theorem C34_semver_to_pep440_and_back : forall v, rel v <> [] ->
  exists p, semver_to_pep440 (p2s v) = S2P_ok p /\ pep440_to_semver p = Some (p2s v).
Proof. exact roundtrip_from_semver. Qed.
Print Assumptions C34_semver_to_pep440_and_back.

(* the two conversions are inverse to each other on rendered versions, for all release tuples *)
Theorem C34_conversions_are_mutually_inverse : forall v, rel v <> [] ->
  semver_to_pep440 (p2s v) = S2P_ok (render_pep440 v) /\
  pep440_to_semver (render_pep440 v) = Some (p2s v) /\
  parse_pep440 (render_pep440 v) = Some v.
Proof. exact roundtrip_version. Qed.
Print Assumptions C34_conversions_are_mutually_inverse.

(* String level, any spelling of the numbers: for EVERY semver pre-release string
   d(.d)*-label.d  (d = non-empty strings of ASCII digits, leading zeros allowed, any number of
   components) whose label is a PEP 440 label, semver -> PEP 440 -> semver yields the normalized
   original: the same string with every number re-rendered without leading zeros. *)
Theorem C34_semver_string_and_back : forall d0 ds lb num,
  digit_string d0 -> Forall digit_string ds -> digit_string num ->
  exists p, semver_to_pep440 (sem_text d0 ds (label_chars lb) num) = S2P_ok p /\
            pep440_to_semver p = Some (normalized_semver d0 ds lb num).
Proof. exact semver_string_roundtrip. Qed.
Print Assumptions C34_semver_string_and_back.

Theorem C34_normalized_semver_is_the_rendered_form : forall d0 ds lb num,
  normalized_semver d0 ds lb num =
  sem_text (render_nat (parse_nat d0)) (map render_nat (map parse_nat ds)) (label_chars lb)
           (render_nat (parse_nat num)).
Proof. exact normalized_semver_is_rendered. Qed.
Print Assumptions C34_normalized_semver_is_the_rendered_form.

(* any other label is refused (ValueError), a final release passes through unchanged *)
Theorem C34_unsupported_label_is_refused : forall d0 ds lab num,
  digit_string d0 -> Forall digit_string ds -> letter_string lab -> digit_string num ->
  existsb (str_eqb lab) c34_pep440_labels = false ->
  semver_to_pep440 (sem_text d0 ds lab num) = S2P_bad_label.
Proof. exact semver_to_pep440_unsupported_label. Qed.
Print Assumptions C34_unsupported_label_is_refused.

Theorem C34_final_release_passes_through : forall d0 ds,
  digit_string d0 -> Forall digit_string ds ->
  semver_to_pep440 (d0 ++ tail_of 46 ds) = S2P_ok (d0 ++ tail_of 46 ds) /\
  parse_pep440 (d0 ++ tail_of 46 ds) = Some (mkV (map parse_nat (d0 :: ds)) None).
Proof. exact final_release_text. Qed.
Print Assumptions C34_final_release_passes_through.

(* classification: "none" exactly when the new version is not greater *)
Theorem C34_none_iff_not_greater : forall cur prev,
  detect_change_type cur (Some prev) = 0 <-> ~ greater cur prev.
Proof. exact detect_none_iff. Qed.
Print Assumptions C34_none_iff_not_greater.

(* otherwise the answer names the most significant of major/minor/patch that differs, and that
   component grew.  Last clause (no answer named by the property's text: only a fourth component
   or the pre-release grew, e.g. 1.0.0rc1 -> 1.0.0): the code answers "minor". *)
Theorem C34_names_most_significant_component : forall cur prev, greater cur prev ->
  let r := detect_change_type cur (Some prev) in
  (major cur <> major prev -> (major prev < major cur)%N /\ r = 3) /\
  (major cur = major prev -> minor cur <> minor prev -> (minor prev < minor cur)%N /\ r = 2) /\
  (major cur = major prev -> minor cur = minor prev -> patch cur <> patch prev ->
     (patch prev < patch cur)%N /\ r = 1) /\
  (major cur = major prev -> minor cur = minor prev -> patch cur = patch prev -> r = 2).
Proof. exact detect_names_most_significant. Qed.
Print Assumptions C34_names_most_significant_component.

Theorem C34_first_release_is_major : forall cur, detect_change_type cur None = 3.
Proof. exact detect_first_release. Qed.
Print Assumptions C34_first_release_is_major.

Theorem C34_class_in_range : forall cur prev, 0 <= detect_change_type cur prev <= 3.
Proof. exact detect_range. Qed.
Print Assumptions C34_class_in_range.

(* the order model is antisymmetric, so "not greater" is "less or equal" *)
Theorem C34_order_antisymmetric : forall v w, vcmp w v = CompOpp (vcmp v w).
Proof. exact vcmp_antisym. Qed.
Print Assumptions C34_order_antisymmetric.

Theorem C34_not_greater_is_less_or_equal : forall v w,
  ~ greater v w <-> (vcmp v w = Lt \/ vcmp v w = Eq).
Proof. exact not_greater_iff. Qed.
Print Assumptions C34_not_greater_is_less_or_equal.

(* ---- non-vacuity and the repaired finding ---- *)
(* "1.1a1": two release components.  Before the repair (_SEMVER_PRERELEASE_RE demanded exactly
   three components) "1.1-a.1" came back unchanged; finding C34/roundtrip-non-3-component. *)
Example C34_example_two_components :
  parse_pep440 [49; 46; 49; 97; 49] = Some (mkV [1; 1]%N (Some (LA, 1%N)))
  /\ pep440_to_semver [49; 46; 49; 97; 49] = Some [49; 46; 49; 45; 97; 46; 49]
  /\ semver_to_pep440 [49; 46; 49; 45; 97; 46; 49] = S2P_ok [49; 46; 49; 97; 49].
Proof. vm_compute. repeat split; reflexivity. Qed.
Print Assumptions C34_example_two_components.

(* with a pattern of exactly three components the release part of "1.1-a.1" does not match *)
Example C34_example_three_component_pattern_rejects :
  exact_components 2 46 [49] [46; 49; 45; 97; 46; 49] = None.
Proof. vm_compute. reflexivity. Qed.
Print Assumptions C34_example_three_component_pattern_rejects.

(* leading zeros are normalized: "01.2.3a04" -> "1.2.3-a.4" -> "1.2.3a4" *)
Example C34_example_normalizes :
  pep440_to_semver [48; 49; 46; 50; 46; 51; 97; 48; 52] = Some [49; 46; 50; 46; 51; 45; 97; 46; 52] /\ semver_to_pep440 [49; 46; 50; 46; 51; 45; 97; 46; 52] = S2P_ok [49; 46; 50; 46; 51; 97; 52].
Proof. vm_compute. split; reflexivity. Qed.
Print Assumptions C34_example_normalizes.

(* an unsupported label is refused; a plain release passes through; so does a non-version *)
Example C34_example_labels :
  semver_to_pep440 [49; 46; 50; 46; 51; 45; 97; 108; 112; 104; 97; 46; 49] = S2P_bad_label /\ semver_to_pep440 [49; 48; 46; 50; 48; 46; 51; 48] = S2P_ok [49; 48; 46; 50; 48; 46; 51; 48]
  /\ semver_to_pep440 [110; 111; 116; 45; 97; 46; 118; 101; 114; 115; 105; 111; 110] = S2P_ok [110; 111; 116; 45; 97; 46; 118; 101; 114; 115; 105; 111; 110].
Proof. vm_compute. repeat split; reflexivity. Qed.
Print Assumptions C34_example_labels.

Example C34_example_classification :
  let V r p := mkV r p in
  detect_change_type (V [2; 0; 0]%N (Some (LA, 1%N))) (Some (V [1; 9; 9]%N None)) = 3       (* major *)
  /\ detect_change_type (V [1; 2]%N None) (Some (V [1; 1; 5]%N None)) = 2                    (* minor *)
  /\ detect_change_type (V [1; 1; 6]%N None) (Some (V [1; 1; 5]%N (Some (LRC, 2%N)))) = 1    (* patch *)
  /\ detect_change_type (V [1; 0]%N None) (Some (V [1; 0; 0]%N None)) = 0                    (* equal *)
  /\ detect_change_type (V [1; 0; 0]%N (Some (LRC, 1%N))) (Some (V [1; 0; 0]%N None)) = 0    (* smaller *)
  /\ detect_change_type (V [1; 0; 0]%N None) (Some (V [1; 0; 0]%N (Some (LRC, 1%N)))) = 2    (* pre only *)
  /\ greater (V [1; 0; 0]%N None) (V [1; 0; 0]%N (Some (LRC, 1%N)))
  /\ greater (V [1; 0; 0]%N (Some (LB, 1%N))) (V [1; 0; 0]%N (Some (LA, 9%N))).
Proof. vm_compute. repeat split; reflexivity. Qed.
Print Assumptions C34_example_classification.
