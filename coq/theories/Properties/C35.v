(* C35 — Step lifecycle telemetry on the stream is balanced and ordered.
   Statements only; every proof is `exact <lemma>` from Proofs/EngineTelemetry.v and Proofs/RunnerStream.v. *)
From Coq Require Import List ZArith Bool PeanoNat.
Import ListNotations.
From WF Require Import Model.Engine Model.Runner Proofs.EngineCap Proofs.EngineSlots Proofs.EngineTelemetry Proofs.RunnerStream.
Open Scope Z_scope.

(* The telemetry automaton of one step, restated in full: `open` is the list of worker ids whose
   RUNNING has not been closed.  PREPARING has no worker id and changes nothing; RUNNING k is legal
   only when k is not open (and opens it); NOT_RUNNING k is legal only when k is open (and closes it).
   Anything else (RUNNING without id, NOT_RUNNING of a closed slot, ...) is rejected. *)
Theorem C35_automaton_is : forall open p,
  tel_step open p =
  match p with
  | (Preparing, None) => Some open
  | (Running, Some k) => if existsb (Nat.eqb k) open then None else Some (open ++ [k])
  | (NotRunning, Some k) => if existsb (Nat.eqb k) open then Some (remove_nat k open) else None
  | _ => None
  end.
Proof. intros open [s o]. reflexivity. Qed.
Print Assumptions C35_automaton_is.

Theorem C35_relation_is : forall cs p p',
  tel_rel cs p p' <->
  fst p' = fst p /\
  tel_run (map i_wid (inprogress (snd p))) (step_tel (fst p) cs) = Some (map i_wid (inprogress (snd p'))).
Proof. intros. unfold tel_rel, wids. tauto. Qed.
Print Assumptions C35_relation_is.

(* Every tick of every kind, for every retry policy: for every step, the StepStateChanged events the
   tick publishes for that step are accepted by the automaton started from the worker ids running
   before the tick, and end exactly in the worker ids running after it.  So RUNNING k is published
   exactly when slot k starts an invocation, NOT_RUNNING k exactly when the invocation on slot k
   ends, never twice, never for a slot that is not running. *)
Theorem C35_every_tick : forall P t s now s' cs,
  Keys_ok s -> Inv_state s -> reduce P t s now = Ok (s', cs) ->
  Forall2 (tel_rel cs) (workers s) (workers s').
Proof. exact reduce_tel. Qed.
Print Assumptions C35_every_tick.

(* The whole published stream of any tick history (any ticks at any times). *)
Theorem C35_whole_stream : forall P ts s s' cs,
  Keys_ok s -> Inv_state s -> run_cmds P s ts = Ok (s', cs) ->
  Forall2 (tel_rel cs) (workers s) (workers s').
Proof. exact run_tel. Qed.
Print Assumptions C35_whole_stream.

(* Balance: per step, RUNNINGs published + invocations running at the start =
   NOT_RUNNINGs published + invocations still running at the end.  From a fresh run state every
   RUNNING is therefore matched by exactly one NOT_RUNNING except for the invocations that are
   still in progress (the run ended or has not got there yet). *)
Theorem C35_balanced : forall P ts s s' cs,
  Keys_ok s -> Inv_state s -> run_cmds P s ts = Ok (s', cs) ->
  Forall2 (count_rel cs) (workers s) (workers s').
Proof. exact run_balanced. Qed.
Print Assumptions C35_balanced.

Theorem C35_count_relation_is : forall cs p p',
  count_rel cs p p' <->
  fst p' = fst p /\
  (length (inprogress (snd p)) + length (filter is_running (step_tel (fst p) cs)) =
   length (filter is_notrunning (step_tel (fst p) cs)) + length (inprogress (snd p')))%nat.
Proof. intros. unfold count_rel, countb. tauto. Qed.
Print Assumptions C35_count_relation_is.

(* An accepted event either starts at once (RUNNING on a fresh slot, and nothing else is published
   for it) or — exactly when the step is at its worker limit — is queued with one PREPARING. *)
Theorem C35_running_or_preparing : forall n a w now w' cs,
  add_or_enqueue n a w now = Ok (w', cs) ->
  (length (inprogress w) < nworkers (w_cfg w))%nat /\
    (exists id, cs = [CRunWorker n (a_ev a) id ; CPublish (PStep n Running (Some id) (ety (a_ev a)) NoOut)] /\
                queue w' = queue w /\ wids w' = wids w ++ [id])
  \/
  (nworkers (w_cfg w) <= length (inprogress w))%nat /\
    cs = [CPublish (PStep n Preparing None (ety (a_ev a)) NoOut)] /\
    queue w' = queue w ++ [a] /\ wids w' = wids w.
Proof. exact aoe_running_or_preparing. Qed.
Print Assumptions C35_running_or_preparing.

(* An InputRequiredEvent (any non-stop event) returned by a step: published exactly once at the
   step-result tick iff it is an InputRequiredEvent, together with exactly one queue command ... *)
Theorem C35_returned_event_published_at_result : forall P step tev dc now a e a',
  one_result P step tev dc now a (RResult (OEvent e)) = Ok a' ->
  zmem (ety e) (c_stop (cfg (k_state a))) = false ->
  exists q, k_cmds a' = k_cmds a ++ (if zmem (ety e) (c_inputreq (cfg (k_state a))) then [CPublish (PEvent e)] else [])
                         ++ [CQueue q None None] /\ a_ev q = e.
Proof. exact returned_event_published. Qed.
Print Assumptions C35_returned_event_published_at_result.

(* ... and the add-event tick that delivers it afterwards publishes no event, so it is never
   published a second time. *)
Theorem C35_delivery_publishes_nothing : forall P ev a target s now s' cs,
  reduce P (TAdd a target) s now = Ok (s', cs) -> n_pevent ev cs = 0%nat.
Proof. exact add_tick_publishes_no_event. Qed.
Print Assumptions C35_delivery_publishes_nothing.

(* non-vacuity: 1-worker step, two events: RUNNING 0, PREPARING, then the result of slot 0 publishes
   NOT_RUNNING 0 and RUNNING 0 for the queued event *)
Example C35_nonvacuous :
  let c := {| accepts := [1]; nworkers := 1; pol := None |} in
  let s0 := {| running := true;
               cfg := {| c_handler_for := []; c_handlers := []; c_start := [0]; c_stop := [9];
                         c_inputreq := [8]; c_ty_stepfailed := 7 |};
               workers := [(1, {| w_cfg := c; queue := []; inprogress := []; collected := []; waiters := [] |})] |} in
  let e i := {| ety := 1; eid := i; eattrs := [] |} in
  match run_cmds (fun _ _ _ _ => PStop) s0
          [(TAdd (blank (e 1)) None, 0); (TAdd (blank (e 2)) None, 0); (TStep 1 0%nat (e 1) [RResult ONone], 1)] with
  | Ok (s, cs) => Keys_ok s0 /\ Inv_state s0 /\
      step_tel 1 cs = [(Running, Some 0%nat); (Preparing, None); (NotRunning, Some 0%nat); (Running, Some 0%nat)]
  | Err _ => False
  end.
Proof. vm_compute. repeat split; repeat constructor; auto. Qed.
Print Assumptions C35_nonvacuous.

(* ---- the run loop (Model/Runner.v): the stream that is really published, for EVERY schedule ----
   While the run is live, whatever the order in which worker bodies finish (with any result lists and sends), whatever
   is delivered from outside and however the clock advances: the published stream is exactly the publish commands the
   reducer returned along the processed-tick log, in command order (`run_cmds` folds the reducer over the log and
   concatenates the command lists). *)
Theorem C35_run_loop_stream_is_log_commands : forall P s e now acts,
  Runner.outcome (run_at P s e now acts) = ORunning ->
  exists cs, run_cmds P s (tlog (run_at P s e now acts)) = Ok (st (run_at P s e now acts), cs) /\
             published (run_at P s e now acts) =
             flat_map (fun c => match c with CPublish p => [p] | _ => [] end) cs.
Proof. exact run_stream_is_log_commands. Qed.
Print Assumptions C35_run_loop_stream_is_log_commands.

(* hence the automaton statement (C35_whole_stream) and the balance statement (C35_balanced) hold of the published
   stream of every schedule, from any start state satisfying the reducer invariants *)
Theorem C35_run_loop_stream_telemetry : forall P s e now acts,
  Keys_ok s -> Inv_state s -> Runner.outcome (run_at P s e now acts) = ORunning ->
  exists cs, published (run_at P s e now acts) = flat_map (fun c => match c with CPublish p => [p] | _ => [] end) cs /\
             Forall2 (tel_rel cs) (workers s) (workers (st (run_at P s e now acts))) /\
             Forall2 (count_rel cs) (workers s) (workers (st (run_at P s e now acts))).
Proof. exact run_stream_telemetry. Qed.
Print Assumptions C35_run_loop_stream_telemetry.

(* non-vacuity: a live run that has published PREPARING-free RUNNING / NOT_RUNNING pairs and is still running one body *)
Example C35_run_loop_nonvacuous :
  let c acc n := {| accepts := acc; nworkers := n; pol := None |} in
  let wk acc n := {| w_cfg := c acc n; queue := []; inprogress := []; collected := []; waiters := [] |} in
  let s0 := {| running := true;
               cfg := {| c_handler_for := []; c_handlers := []; c_start := [0]; c_stop := [9];
                         c_inputreq := [8]; c_ty_stepfailed := 7 |};
               workers := [(1, wk [0] 1%nat); (2, wk [1] 2%nat)] |} in
  let ev ty i := {| ety := ty; eid := i; eattrs := [] |} in
  let r := run_at (fun _ _ _ _ => PStop) s0 (ev 0 1) 100 [AWorkerDone 1 0%nat [] [RResult (OEvent (ev 1 6))]] in
  Runner.outcome r = ORunning /\
  length (filter (fun p => match p with PStep _ _ _ _ _ => true | _ => false end) (published r)) = 3%nat /\
  map (fun p => length (inprogress (snd p))) (workers (st r)) = [0; 1]%nat.
Proof. vm_compute. repeat split; reflexivity. Qed.
Print Assumptions C35_run_loop_nonvacuous.
