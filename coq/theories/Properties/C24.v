(* C24 — Handler stores answer queries consistently and retain the newest completions.
   Statements only; every proof is `exact <lemma>` from Proofs/HandlerStoreProofs.v.

   Models (Model/HandlerStore.v): MemoryWorkflowStore (dict of handlers in insertion order, the
   eviction deque, max_completed) and SqliteWorkflowStore (handlers table in rowid order,
   _build_filters + WHERE evaluation with SQL NULL), both with update_handler_status on top.
   `accepts q h` is the declarative reading of "h matches every given filter of q". *)
From Coq Require Import List ZArith Bool String.
From WF Require Import Generated Model.HandlerStore Proofs.HandlerStoreProofs.
Import ListNotations.
Open Scope list_scope.
Open Scope Z_scope.

(* ---- filter semantics ---- *)
Theorem C24_accepts_is : forall q h,
  accepts q h <->
  (forall l, q_ids q = Some l -> In (h_id h) l) /\
  (forall l, q_runs q = Some l -> exists r, h_run h = Some r /\ In r l) /\
  (forall l, q_wfs q = Some l -> In (h_wf h) l) /\
  (forall l, q_sts q = Some l -> In (h_status h) l) /\
  (forall b, q_idle q = Some b -> h_idle h = b).
Proof. exact (fun q h => iff_refl _). Qed.
Print Assumptions C24_accepts_is.

(* the memory predicate _matches_query decides it *)
Theorem C24_memory_matches_iff_accepts : forall h q, mem_matches h q = true <-> accepts q h.
Proof. exact mem_matches_accepts. Qed.
Print Assumptions C24_memory_matches_iff_accepts.

(* the SQL WHERE clause built by _build_filters selects the same rows; it returns None only when
   nothing can match *)
Theorem C24_sql_where_iff_memory_matches : forall q h,
  match build_filters q with
  | None => mem_matches h q = false
  | Some cl => where_ok cl h = mem_matches h q
  end.
Proof. exact sql_matches_eq. Qed.
Print Assumptions C24_sql_where_iff_memory_matches.

(* ---- query: exactly the matching handlers, on both stores, for every store content ---- *)
Theorem C24_memory_query_exact : forall q m g,
  In g (mem_query q m) <-> In g (m_handlers m) /\ accepts q g.
Proof. exact mem_query_exact. Qed.
Print Assumptions C24_memory_query_exact.

Theorem C24_sqlite_query_exact : forall q rows g,
  In g (sql_query q rows) <-> In g rows /\ accepts q g.
Proof. exact sql_query_exact. Qed.
Print Assumptions C24_sqlite_query_exact.

(* an empty filter list matches nothing *)
Theorem C24_empty_filter_matches_nothing : forall q m rows,
  (q_ids q = Some [] \/ q_runs q = Some [] \/ q_wfs q = Some [] \/ q_sts q = Some []) ->
  mem_query q m = [] /\ sql_query q rows = [].
Proof. exact query_empty_filter_returns_nothing. Qed.
Print Assumptions C24_empty_filter_matches_nothing.

(* ---- delete: removes exactly the matching handlers and reports their number ---- *)
Theorem C24_memory_delete_exact : forall q m,
  fst (mem_delete q m) = Z.of_nat (List.length (mem_query q m)) /\
  forall g, In g (m_handlers (snd (mem_delete q m))) <-> In g (m_handlers m) /\ ~ accepts q g.
Proof. exact mem_delete_exact. Qed.
Print Assumptions C24_memory_delete_exact.

Theorem C24_sqlite_delete_exact : forall q rows, has_filter q = true ->
  fst (sql_delete q rows) = Z.of_nat (List.length (sql_query q rows)) /\
  forall g, In g (snd (sql_delete q rows)) <-> In g rows /\ ~ accepts q g.
Proof. exact sql_delete_exact. Qed.
Print Assumptions C24_sqlite_delete_exact.

(* ---- the two stores are indistinguishable: every sequence of upserts, status updates, queries
   and deletes with at least one filter produces the same outputs (query results in the same order,
   delete counts) and the same stored rows on the memory store (no completion cap) and on SQLite ---- *)
Theorem C24_stores_equivalent : forall ops,
  filtered_deletes ops = true ->
  snd (mem_run ops (mem_empty None)) = snd (sql_run ops []) /\
  m_handlers (fst (mem_run ops (mem_empty None))) = fst (sql_run ops []).
Proof. exact stores_equivalent. Qed.
Print Assumptions C24_stores_equivalent.

(* ---- retention (memory store) ---- *)
(* In every reachable state: handler ids are unique; the eviction queue lists exactly the stored
   completed handlers, once each; it never exceeds max_completed. *)
Theorem C24_queue_is_the_completed_handlers : forall ops mx,
  let m := fst (mem_run ops (mem_empty mx)) in
  NoDup (map h_id (m_handlers m)) /\ NoDup (m_queue m) /\
  (forall i, In i (m_queue m) <->
             exists g, In g (m_handlers m) /\ h_id g = i /\ is_terminal (h_status g) = true) /\
  (forall n, m_max m = Some n -> (List.length (m_queue m) <= n)%nat).
Proof. exact Inv_reachable. Qed.
Print Assumptions C24_queue_is_the_completed_handlers.

(* exact effect of a terminal upsert under max_completed = n, in any state satisfying the invariant:
   completion order = previous queue with the handler moved to the newest end; the n newest stay in
   the queue, the handlers of the older entries — and nothing else — leave the store *)
Theorem C24_terminal_update_exact : forall h m n,
  Inv m -> is_terminal (h_status h) = true -> m_max m = Some n ->
  let order := remove_first (h_id h) (m_queue m) ++ [h_id h] in
  mem_update h m =
  Mem (drop_ids (firstn (List.length order - n) order) (upsert h (m_handlers m)))
      (skipn (List.length order - n) order) (Some n).
Proof. exact mem_update_terminal_capped. Qed.
Print Assumptions C24_terminal_update_exact.

(* an upsert never loses a non-terminal handler *)
Theorem C24_nonterminal_never_evicted : forall h m g, Inv m ->
  In g (upsert h (m_handlers m)) -> is_terminal (h_status g) = false -> In g (m_handlers (mem_update h m)).
Proof. exact update_keeps_nonterminal. Qed.
Print Assumptions C24_nonterminal_never_evicted.

(* the max_completed most recently completed handlers are kept ... *)
Theorem C24_most_recent_completions_kept : forall h m n g,
  Inv m -> is_terminal (h_status h) = true -> m_max m = Some n ->
  In g (upsert h (m_handlers m)) ->
  In (h_id g) (lastn n (remove_first (h_id h) (m_queue m) ++ [h_id h])) ->
  In g (m_handlers (mem_update h m)).
Proof. exact update_keeps_recent_completions. Qed.
Print Assumptions C24_most_recent_completions_kept.

(* ... and only those *)
Theorem C24_only_most_recent_completions_kept : forall h m n g,
  Inv m -> is_terminal (h_status h) = true -> m_max m = Some n ->
  In g (m_handlers (mem_update h m)) -> is_terminal (h_status g) = true ->
  In (h_id g) (lastn n (remove_first (h_id h) (m_queue m) ++ [h_id h])).
Proof. exact update_evicts_older_completions. Qed.
Print Assumptions C24_only_most_recent_completions_kept.

(* non-terminal upserts and deletes evict nothing *)
Theorem C24_nonterminal_update_evicts_nothing : forall h m, is_terminal (h_status h) = false ->
  mem_update h m = Mem (upsert h (m_handlers m)) (remove_first (h_id h) (m_queue m)) (m_max m).
Proof. exact mem_update_nonterminal. Qed.
Print Assumptions C24_nonterminal_update_evicts_nothing.

Theorem C24_completed_never_exceed_cap : forall ops n,
  (List.length (filter (fun g => is_terminal (h_status g))
                       (m_handlers (fst (mem_run ops (mem_empty (Some n)))))) <= n)%nat.
Proof. exact reachable_completed_bounded. Qed.
Print Assumptions C24_completed_never_exceed_cap.

(* ---- witnesses ---- *)
Example C24_status_codes : is_terminal 0 = false /\ is_terminal 1 = true /\ is_terminal 2 = true /\
                           is_terminal 3 = true /\ is_terminal 4 = false /\ is_terminal (-1) = false.
Proof. exact ex_status_codes. Qed.
Print Assumptions C24_status_codes.

Example C24_repeated_completion_kept :
  m_handlers (fst (mem_run [OUpdate (ex_done 7); OUpdate (ex_done 7); OUpdate (ex_done 7)] (mem_empty (Some 2%nat))))
  = [ex_done 7].
Proof. exact ex_repeated_completion_kept. Qed.
Print Assumptions C24_repeated_completion_kept.

Example C24_deleted_or_reopened_completion_frees_its_slot :
  map h_id (m_handlers (fst (mem_run [OUpdate (ex_done 1); OUpdate (ex_done 2);
                                      ODelete (Q (Some [2]) None None None None); OUpdate (ex_done 3)]
                                     (mem_empty (Some 2%nat))))) = [1; 3]
  /\ map h_id (m_handlers (fst (mem_run [OUpdate (ex_done 1); OUpdate (ex_done 2);
                                         OUpdate (ex_running 2); OUpdate (ex_done 3)]
                                        (mem_empty (Some 2%nat))))) = [1; 2; 3].
Proof. exact ex_deleted_completion_frees_slot. Qed.
Print Assumptions C24_deleted_or_reopened_completion_frees_its_slot.

Example C24_oldest_completion_evicted :
  map h_id (m_handlers (fst (mem_run [OUpdate (ex_done 1); OUpdate (ex_running 5); OUpdate (ex_done 2);
                                      OUpdate (ex_done 1); OUpdate (ex_done 3)]
                                     (mem_empty (Some 2%nat))))) = [1; 5; 3].
Proof. exact ex_oldest_completion_evicted. Qed.
Print Assumptions C24_oldest_completion_evicted.

(* why the equivalence theorem asks for filtered deletes *)
Example C24_unfiltered_delete_differs :
  let ops := [OUpdate (ex_running 1); ODelete q_all; OQuery q_all] in
  filtered_deletes ops = false /\
  snd (mem_run ops (mem_empty None)) = [RUnit; RCount 1; RList []] /\
  snd (sql_run ops []) = [RUnit; RCount 0; RList [ex_running 1]].
Proof. exact ex_unfiltered_delete_differs. Qed.
Print Assumptions C24_unfiltered_delete_differs.

Example C24_equivalence_hypothesis_satisfiable :
  filtered_deletes [OUpdate (ex_done 1); OSetStatus (SU 1 (Some 0) None (Some true));
                    ODelete (Q None None None (Some [0]) (Some true)); OQuery q_all] = true.
Proof. exact ex_equivalence_applies. Qed.
Print Assumptions C24_equivalence_hypothesis_satisfiable.
