(* C17 — The client's auto-reconnecting event stream delivers each event once.
   Statements only; every proof is `exact <lemma>` from Proofs/SseClientProofs.v.

   Model/SseClient.v: the server's format_stream framing on top of _resolve_event_stream (C16 model),
   the client's line splitter, per-connection reader (current_id / last_sequence) and reconnect loop.
   [show]/[parse] stand for Python's str(int)/int(str) on sequence numbers; [ptext] is the JSON text of a
   payload (no line feed, no blank at either end — true of every JSON object).  An [attempt] is either a
   failed connection (AFail) or a response (AServe n1 n2 beats cut sizes) resolved against the first n1
   stored events, streaming what the first n2 contain, with [beats] heartbeats woven in, dropped after
   [cut] code points (None = not dropped) and chunked by the transport as [sizes].
   [terminal_last L]: the run stores nothing after its terminal event (C04).
   [honest]: a handler is marked completed only once all its events are stored. *)
From Coq Require Import List ZArith Bool Sorted.
Import ListNotations.
From WF Require Import Model.EventLog Model.SseClient Proofs.EventLogProofs Proofs.SseClientProofs.
Open Scope Z_scope.

(* 1. One connection: whatever the heartbeats, the drop position and the chunking, the reader hands on
      exactly the first m frames (all of them when the response ends normally), and last_sequence is
      the id of the last of them. *)
Theorem C17_connection :
  forall (show : Z -> text) (parse : text -> option Z),
  (forall n, 0 <= n -> parse (show n) = Some n) ->
  (forall n, 0 <= n -> clean (show n)) ->
  (forall n, 0 <= n -> nolf (show n)) ->
  forall fs beats cut sizes l, Forall good_item fs ->
  (forall f, In f fs -> exists n p, f = IFrame n p) ->
  let r := fold_left (on_line parse) (conn_lines (body show (weave beats fs)) cut sizes) (mkR None l []) in
  exists m, r_out r = firstn m (frames_in fs) /\
            r_last r = last_fst (firstn m (frames_in fs)) l /\
            (cut = None -> (length (frames_in fs) <= m)%nat).
Proof. exact connection. Qed.
Print Assumptions C17_connection.

(* 2. The whole stream, for every list of attempts (connection failures, drops at any code point within
      or between frames, any heartbeat pattern and chunking, the log growing meanwhile): what has been
      yielded is an initial segment of the events above the initial cursor, in order, each once;
      last_sequence is the sequence of the last event yielded (the initial cursor before the first);
      a normal end means all of them were yielded. *)
Theorem C17_client_delivers :
  forall (show : Z -> text) (parse : text -> option Z),
  (forall n, 0 <= n -> parse (show n) = Some n) ->
  (forall n, 0 <= n -> clean (show n)) ->
  (forall n, 0 <= n -> nolf (show n)) ->
  forall (ptext : Z -> text) (bk : backend) (L : list sev) (tst inc : bool) (k0 : Z) (maxr : nat),
  gapfree L -> terminal_last L ->
  (forall e, In e L -> clean (ptext (e_pid (s_ev e))) /\ nolf (ptext (e_pid (s_ev e)))) ->
  forall atts, Forall (honest L tst) atts ->
  let c := client_run show parse maxr (srv ptext bk L tst inc) k0 atts in
  exists n, c_out c = map (pair_of ptext) (firstn n (V0 L inc k0)) /\
            c_last c = last_fst (c_out c) k0 /\
            (c_st c = DoneOK -> c_out c = map (pair_of ptext) (V0 L inc k0)) /\
            c_st c <> NotFound.
Proof. exact client_delivers. Qed.
Print Assumptions C17_client_delivers.

Theorem C17_once_and_in_order :
  forall (show : Z -> text) (parse : text -> option Z),
  (forall n, 0 <= n -> parse (show n) = Some n) ->
  (forall n, 0 <= n -> clean (show n)) ->
  (forall n, 0 <= n -> nolf (show n)) ->
  forall (ptext : Z -> text) (bk : backend) (L : list sev) (tst inc : bool) (k0 : Z) (maxr : nat),
  gapfree L -> terminal_last L ->
  (forall e, In e L -> clean (ptext (e_pid (s_ev e))) /\ nolf (ptext (e_pid (s_ev e)))) ->
  forall atts, Forall (honest L tst) atts ->
  let c := client_run show parse maxr (srv ptext bk L tst inc) k0 atts in
  StronglySorted Z.lt (map fst (c_out c)) /\ Forall (fun n => k0 < n) (map fst (c_out c)).
Proof. exact client_once_in_order. Qed.
Print Assumptions C17_once_and_in_order.

(* 3. The reconnect limit: ConnectionError only after more than max_reconnect_attempts consecutive failed
      attempts (a drop after a successful response starts a new series at 1) ... *)
Theorem C17_gives_up_only_beyond_limit :
  forall show parse ptext bk L tst inc k0 maxr atts,
  tolerable maxr 0 atts ->
  c_st (client_run show parse maxr (srv ptext bk L tst inc) k0 atts) <> GaveUp.
Proof. exact client_gives_up_only_beyond_limit. Qed.
Print Assumptions C17_gives_up_only_beyond_limit.

(* ... and any fault pattern within the limit, followed by one undisturbed connection once the run is
   over, ends the stream normally with every event above the cursor delivered. *)
Theorem C17_client_completes :
  forall (show : Z -> text) (parse : text -> option Z),
  (forall n, 0 <= n -> parse (show n) = Some n) ->
  (forall n, 0 <= n -> clean (show n)) ->
  (forall n, 0 <= n -> nolf (show n)) ->
  forall (ptext : Z -> text) (bk : backend) (L : list sev) (tst inc : bool) (k0 : Z) (maxr : nat),
  gapfree L -> terminal_last L ->
  (forall e, In e L -> clean (ptext (e_pid (s_ev e))) /\ nolf (ptext (e_pid (s_ev e)))) ->
  forall faults beats sizes,
  Forall is_fault faults -> Forall (honest L tst) faults -> tolerable maxr 0 faults ->
  existsb is_terminal L = true ->
  let c := client_run show parse maxr (srv ptext bk L tst inc) k0
             (faults ++ [AServe (length L) (length L) beats None sizes]) in
  c_st c = DoneOK /\ c_out c = map (pair_of ptext) (V0 L inc k0).
Proof. exact client_completes. Qed.
Print Assumptions C17_client_completes.

(* ---- non-vacuity ---- *)
(* the decimal instance used by the correspondence suite satisfies what is assumed of str/int,
   checked for 0..2000 (finite sweep, bound as stated) *)
Definition ws_free_ends (t : text) : bool :=
  match t, rev t with a :: _, b :: _ => negb (is_ws a) && negb (is_ws b) | _, _ => false end.
Example C17_decimal_instance :
  forallb (fun n => let t := show_dec (Z.of_nat n) in
                    match parse_dec t with Some m => m =? Z.of_nat n | None => false end &&
                    ws_free_ends t && negb (existsb (Z.eqb LF) t))
          (seq 0 2001) = true.
Proof. vm_compute. reflexivity. Qed.
Print Assumptions C17_decimal_instance.

(* a run of three events + terminal; payloads contain U+2028 and a data:-looking string; the first
   response is dropped inside the second frame's data line, the next connection fails, the third is
   dropped between the id and data lines of a frame (the cursor does not move), the fourth is undisturbed *)
Definition p0 : text := [123; 34; 120; 34; 125].               (* {"x"} *)
Definition p1 : text := [123; 8232; 34; 125].                  (* contains U+2028 *)
Definition p2 : text := [123; 100; 97; 116; 97; 58; 32; 125].  (* {data: } *)
Definition ptext_ex (pid : Z) : text :=
  if pid =? 0 then p0 else if pid =? 1 then p1 else p2.
Definition L_ex : list sev :=
  build BMem [mkE 2 None 0; mkE 2 None 1; mkE 3 (Some [INTERNAL]) 2; mkE 2 None 2; mkE 0 None 0].

Example C17_example_run :
  let atts := [AServe 2 5 [0;1]%nat (Some 22%nat) [3]%nat; AFail;
               AServe 5 5 [2]%nat (Some 50%nat) []; AServe 5 5 [] None [1;1;1]%nat] in
  let c := client_run show_dec parse_dec 2 (srv ptext_ex BMem L_ex false false) (-1) atts in
  gapfree L_ex /\ Forall (honest L_ex false) atts /\ tolerable 2 0 atts /\
  c_reqs c = [-1; 0; 0; 1] /\ map fst (c_out c) = [0; 1; 3; 4] /\ c_last c = 4 /\ c_st c = DoneOK /\
  map snd (c_out c) = [p0; p1; p2; p0].
Proof.
  cbv zeta. split; [vm_compute; tauto|]. split; [repeat constructor; cbn; discriminate|].
  split; [cbn; repeat split; repeat constructor|]. vm_compute. repeat split; reflexivity.
Qed.
Print Assumptions C17_example_run.
