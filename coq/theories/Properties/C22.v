(* C22 — Resource injection honors caching and cycle detection under concurrency.
   Statements only; proofs are `exact <lemma>` from Proofs/ResourceProofs.v (witnesses of the refuted
   clauses are closed computations).

   Model (Model/Resource.v): ResourceManager._get / resolution_scope / get and the resource loop of
   `partial`, as coded; one task per step invocation; a schedule is any list of
   TStart tid params (a step invocation with these resource parameters begins) and TRun tid (the event
   loop runs tid up to its next suspension inside an async factory).  [g] is the resource graph
   (cache flag, number of suspensions of the factory, failure flag, dependencies in signature order),
   [fuel] bounds the number of sequential actions of one segment (the invariants hold for every fuel).

   Verdict on the unchanged code:
     cached => created once, same object everywhere ....... PROVED for every schedule
     a genuine cycle is never satisfied ................... PROVED for every schedule
     no false cycle error ................................. REFUTED under overlap (witness below, reproduced on
                                                            the real ResourceManager and through Workflow.run);
                                                            PROVED for sequential schedules; every cycle error is
                                                            classified (genuine, or the name is being resolved by
                                                            another step invocation)
     non-cached => fresh per step invocation .............. REFUTED under overlap (witness below, reproduced) *)
From Coq Require Import List ZArith Bool.
Import ListNotations.
From WF Require Import Base.SchedRes Model.Resource Proofs.ResourceProofs.
Open Scope Z_scope.

(* ---- cached resources: every schedule ------------------------------------------------------- *)

Theorem C22_cached_created_once : forall g fuel sched x, cached g x = true ->
  (length (objs_of x (m_created (s_mgr (exec g fuel init sched)))) <= 1)%nat.
Proof. exact cached_created_once. Qed.
Print Assumptions C22_cached_created_once.

Theorem C22_cached_same_object_everywhere : forall g fuel sched x tid1 t1 v1 tid2 t2 v2, cached g x = true ->
  let s := exec g fuel init sched in
  task_at s tid1 t1 -> In (x, v1) (t_got t1) -> task_at s tid2 t2 -> In (x, v2) (t_got t2) ->
  v1 = v2 /\ objs_of x (m_created (s_mgr s)) = [v1].
Proof. exact cached_same_object. Qed.
Print Assumptions C22_cached_same_object_everywhere.

(* ---- genuine cycles: every schedule ----------------------------------------------------------- *)

(* nothing that lies on a dependency cycle, or from which one can be reached, is ever created or
   injected: the step that needs it can never be given its arguments *)
Theorem C22_genuine_cycle_never_satisfied : forall g fuel sched x,
  let s := exec g fuel init sched in
  ((exists tid t v, task_at s tid t /\ In (x, v) (t_got t)) \/ (exists r, In (x, r) (m_created (s_mgr s)))) ->
  ~ path g x x /\ (forall y, path g x y -> ~ path g y y).
Proof. exact cyclic_never_satisfied. Qed.
Print Assumptions C22_genuine_cycle_never_satisfied.

(* ---- what a cycle error means: every reachable state ------------------------------------------- *)

Theorem C22_cycle_error_classified_partial : forall g fuel sched tid t m' t' y x,
  let s := exec g fuel init sched in
  task_at s tid t -> terminal t = false ->
  micro g tid (s_mgr s) t = (m', t', y) -> t_status t' = TFailed 1 x ->
  path g x x \/
  (exists tid2 t2 f2, tid2 <> tid /\ task_at s tid2 t2 /\ In f2 (t_stack t2) /\ f_name f2 = x).
Proof. exact micro_err_reachable. Qed.
Print Assumptions C22_cycle_error_classified_partial.

(* sequential executions (no step invocation is advanced while another one is in the middle of its
   resolution — in particular: all factories synchronous): every reported cycle is a real one *)
Theorem C22_no_false_cycle_sequential_partial : forall g fuel sched s, Inv2 g s -> err_ok g s ->
  seq_valid g fuel s sched -> err_ok g (exec g fuel s sched).
Proof. exact no_false_cycle_sequential. Qed.
Print Assumptions C22_no_false_cycle_sequential_partial.

Theorem C22_reachable_states_invariant : forall g fuel sched, Inv3 g (exec g fuel init sched).
Proof. exact reachable_inv3. Qed.
Print Assumptions C22_reachable_states_invariant.

(* between step invocations the manager is clean (every schedule): nothing marked as resolving, depth 0,
   scope cache empty — an invocation that overlaps no other one starts from scratch, so whatever
   non-cached object it is given was created during its own resolution *)
Theorem C22_idle_manager_is_clean : forall g fuel sched,
  let s := exec g fuel init sched in
  (forall tid t, task_at s tid t -> t_status t <> TRunning) ->
  m_resolving (s_mgr s) = [] /\ m_depth (s_mgr s) = 0 /\ m_rcache (s_mgr s) = [].
Proof. exact idle_manager_is_clean. Qed.
Print Assumptions C22_idle_manager_is_clean.

(* ---- refuted under overlap -------------------------------------------------------------------- *)

(* g_one_async = [(1, cached, async, no dependencies)];  sched_overlap = start 1, start 2, run 1, run 2 *)
(* two step invocations resolve one async resource that depends on nothing: the second one fails with
   "Circular resource dependency detected: fac -> fac" *)
Theorem C22_no_false_cycle_refuted :
  exists g fuel sched tid t x,
    (forall y, ~ path g y y) /\
    task_at (exec g fuel init sched) tid t /\ t_status t = TFailed 1 x.
Proof. exact false_cycle_witness. Qed.
Print Assumptions C22_no_false_cycle_refuted.

(* g_noncached = [1: non-cached sync; 2: non-cached async];  invocation 1 wants [1; 2], invocation 2 wants [1] *)
(* invocation 1 creates the non-cached resource 1 and suspends in the async factory of 2; invocation 2
   is then given invocation 1's object *)
Theorem C22_noncached_fresh_per_invocation_refuted :
  exists g fuel sched x o args t2,
    let s := exec g fuel init sched in
    cached g x = false /\ task_at s 2 t2 /\ t_status t2 = TDone /\ In (x, o) (t_got t2) /\
    In (x, (o, (1, args))) (m_created (s_mgr s)).
Proof. exact noncached_shared_witness. Qed.
Print Assumptions C22_noncached_fresh_per_invocation_refuted.

(* ---- non-vacuity ------------------------------------------------------------------------------ *)

(* g_ex: 1 (cached, async) <- 2 (non-cached) <- 3 (cached);  4 -> 5 -> 4 is a genuine cycle;
   sched_seq runs three step invocations one after the other *)
Example C22_example_sequential :
  let s := exec g_ex 60 init sched_seq in
  alookup 1 (s_tasks s) = Some (mkTask [] [] [(2, 2); (3, 3)] TDone) /\
  alookup 2 (s_tasks s) = Some (mkTask [] [] [(3, 3); (2, 4)] TDone) /\
  alookup 3 (s_tasks s) = Some (mkTask [4] [] [(1, 1)] (TFailed 1 4)) /\
  objs_of 1 (m_created (s_mgr s)) = [1] /\ objs_of 2 (m_created (s_mgr s)) = [2; 4] /\
  m_resolving (s_mgr s) = [] /\ m_depth (s_mgr s) = 0 /\ m_rcache (s_mgr s) = [].
Proof. exact example_sequential. Qed.
Print Assumptions C22_example_sequential.

Example C22_example_sequential_is_valid : seq_valid g_ex 60 init sched_seq /\ path g_ex 4 4.
Proof. exact example_sequential_is_valid. Qed.
Print Assumptions C22_example_sequential_is_valid.
