(* C21 — The single-connection SQLite store keeps working after use.
   Statements only; every proof is `exact <lemma>` from Proofs/ConnStoreProofs.v.

   Objects: Model/ConnStore.v.  An operation of SqliteWorkflowStore / SqliteStateStore is a program
   of connection sessions (`_connect()` ... release); [run_percall] gives every session its own
   connection, [run_single] gives every session the one shared connection, which a session may
   find closed (sqlite3.ProgrammingError = [PClosed]).  [compile closes ct op] is the program of
   each real operation (handlers, events, ticks, create_state_store with seeding, state
   operations), with [closes] = "a state-store session closes the connection it was given" — read
   from sqlite_state_store.py into Generated.v on every run. *)
From Coq Require Import List ZArith Bool.
Import ListNotations.
From WF Require Import Generated Model.StateStore Model.ConnStore Proofs.ConnStoreProofs.
Open Scope Z_scope.

(* the source fact the instance theorem relies on *)
Theorem C21_generated_shape : statestore_sqlite_closes_only_own_conn = true.
Proof. reflexivity. Qed.
Print Assumptions C21_generated_shape.

(* Generic: for ANY database type, ANY operations (programs of sessions whose continuations may
   depend on what was read) none of whose sessions closes the connection it was given, and any
   sequence of them, single-connection mode produces exactly the per-call results and database,
   and the shared connection is still open afterwards. *)
Theorem C21_single_eq_percall_generic : forall (D R : Type) (ps : list (prog D R)),
  Forall no_close ps -> forall d,
  runs_single D R ps d COpen =
  (fst (runs_percall D R ps d), COpen, snd (runs_percall D R ps d)).
Proof. exact runs_single_eq. Qed.
Print Assumptions C21_single_eq_percall_generic.

(* Instance: every sequence of the store's real operations, from every database state. *)
Theorem C21_store_single_eq_percall : forall ct ops d,
  let ps := map (compile (negb statestore_sqlite_closes_only_own_conn) ct) ops in
  runs_single _ _ ps d COpen = (fst (runs_percall _ _ ps d), COpen, snd (runs_percall _ _ ps d)).
Proof. exact store_single_eq_percall. Qed.
Print Assumptions C21_store_single_eq_percall.

(* per-call mode itself never meets a closed connection *)
Theorem C21_percall_never_closed : forall (D R : Type) (p : prog D R) d,
  snd (run_percall D R p d) <> PClosed.
Proof. exact run_percall_not_closed. Qed.
Print Assumptions C21_percall_never_closed.

(* What failed before the repair: with state-store sessions that close the connection they were
   given, the first state write fails half-way and every later operation of the store fails. *)
Theorem C21_closing_sessions_refuted :
  exists ops,
    snd (runs_single _ _ (map (compile true []) ops) wdb_empty COpen) <>
    snd (runs_percall _ _ (map (compile true []) ops) wdb_empty).
Proof. exact store_closing_refuted. Qed.
Print Assumptions C21_closing_sessions_refuted.

(* The state operations of this model are the SQLite model of C19 (sql_step), so C19's theorems
   about values carry over to both connection modes. *)
Theorem C21_state_ops_are_C19_sqlite_model : forall b ct run ty o d,
  match o with OSnapEdit _ | OSnapWrite => False | _ => True end ->
  let q := {| q_row := get_row d run; q_snap := None |} in
  let r := run_percall _ _ (compile_state b ct run ty o) d in
  snd r = PDone (WOut (snd (sql_step ct ty q o))) /\
  get_row (fst r) run = q_row (fst (sql_step ct ty q o)).
Proof. exact compile_state_is_sql_step. Qed.
Print Assumptions C21_state_ops_are_C19_sqlite_model.

(* non-vacuity: a mixed sequence in single-connection mode, its results *)
Example C21_nonvacuous :
  let ops := [WState 1 dict_cls (OSet [97] (VInt 1)); WUpdate 1 0; WAppendEvent 1 7;
              WSeed 2 {| o_cls := [0]; o_items := [([98], VInt 2)] |}; WCopy 1 2;
              WState 1 dict_cls (OGet [98] None); WQuery [1]; WQueryEvents 1 (-1)] in
  snd (runs_single _ _ (map (compile false []) ops) wdb_empty COpen) =
    [PDone (WOut ROk); PDone WOk; PDone WOk; PDone WOk; PDone WOk; PDone (WOut (RVal (VInt 2)));
     PDone (WHandlers [(1, 0)]); PDone (WSeq [(0, 7)])].
Proof. vm_compute. reflexivity. Qed.
Print Assumptions C21_nonvacuous.
