(* C10 — A waiting step resumes once, with a matching event or a timeout (reducer level, then run-loop level).
   Statements only; every proof is `exact <lemma>` from Proofs/EngineRoute.v and Proofs/RunnerConserveWT.v. *)
From Coq Require Import List ZArith Bool PeanoNat.
Import ListNotations.
From WF Require Import Model.Engine Model.Runner Proofs.EngineCap Proofs.EngineRoute Proofs.RunnerConserveWT.
Open Scope Z_scope.

(* definitions restated so they cannot be weakened elsewhere *)
Theorem C10_definitions : forall e wt,
  fresh_match e wt = (negb (match w_resolved wt with Some _ => true | None => w_timedout wt end) &&
                      (Z.eqb (ety e) (w_ty wt) &&
                       forallb (fun kv => match zlookup (fst kv) (eattrs e) with
                                          | Some v => Z.eqb v (snd kv) | None => false end) (w_reqs wt))) /\
  upd e wt = (if fresh_match e wt then
                {| w_id := w_id wt ; w_ev := w_ev wt ; w_ty := w_ty wt ; w_reqs := w_reqs wt ;
                   w_hasreq := w_hasreq wt ; w_resolved := Some e ; w_timedout := w_timedout wt |}
              else wt).
Proof. intros. split; reflexivity. Qed.
Print Assumptions C10_definitions.

(* On every add-event tick, in every step, each waiter is either resolved by the event because it
   was still waiting and the event matches (upd), or left exactly as it was. *)
Theorem C10_waiters_after_event : forall a target s now s' cs,
  Keys_ok s -> process_add a target s now = Ok (s', cs) ->
  Forall2 (fun p p' => fst p' = fst p /\
             waiters (snd p') = if target_ok target (fst p) then map (upd (a_ev a)) (waiters (snd p))
                                else waiters (snd p))
          (workers s) (workers s').
Proof. exact process_add_waiters. Qed.
Print Assumptions C10_waiters_after_event.

(* ... and the waiting step is replayed exactly once per freshly resolved waiter (nothing else is
   admitted to a step that takes the event as a wait result) *)
Theorem C10_one_replay_per_resolution : forall a target s now s' cs,
  Keys_ok s -> process_add a target s now = Ok (s', cs) ->
  Forall2 (add_rel a target) (workers s) (workers s') /\ cfg s' = cfg s.
Proof. exact process_add_exact. Qed.
Print Assumptions C10_one_replay_per_resolution.

(* the event a waiter is resolved with has the requested type and satisfies every requirement *)
Theorem C10_resolved_event_matches : forall e wt, fresh_match e wt = true ->
  w_resolved (upd e wt) = Some e /\ ety e = w_ty wt /\ forallb (attr_eq e) (w_reqs wt) = true.
Proof. exact resolved_event_matches. Qed.
Print Assumptions C10_resolved_event_matches.

(* at most once: a resolved waiter is matched by no later event, however many arrive ... *)
Theorem C10_resolved_at_most_once : forall e e2 wt,
  fresh_match e wt = true -> fresh_match e2 (upd e wt) = false.
Proof. exact fresh_match_once. Qed.
Print Assumptions C10_resolved_at_most_once.

(* ... and neither is any waiter whose replay is already pending (resolved or timed out) *)
Theorem C10_pending_waiter_untouched : forall e wt,
  w_pending wt = true -> fresh_match e wt = false /\ upd e wt = wt.
Proof. exact pending_never_matches. Qed.
Print Assumptions C10_pending_waiter_untouched.

(* a timeout tick that arrives after the waiter was resolved does nothing: no TimeoutError replay *)
Theorem C10_timeout_after_resolution_is_noop : forall step wid s now w k wt ev,
  zlookup step (workers s) = Some w -> find_waiter_idx wid (waiters w) 0 = Some k ->
  nth_error (waiters w) k = Some wt -> w_resolved wt = Some ev ->
  process_waiter_timeout step wid s now = Ok (s, []).
Proof. exact timeout_after_resolve_noop. Qed.
Print Assumptions C10_timeout_after_resolution_is_noop.

(* the waiter_event is published, and the timeout scheduled, once per waiter id: only when the id
   is new; the replayed invocation registering the same id again emits nothing *)
Theorem C10_new_waiter_publishes_once : forall P step tev dc now a wid wev reqs timeout ty a',
  find_waiter_idx wid (waiters (k_w a)) 0 = None ->
  one_result P step tev dc now a (RAddWaiter wid wev reqs timeout ty) = Ok a' ->
  k_cmds a' = k_cmds a ++ (match wev with Some e => [CPublish (PEvent e)] | None => [] end)
                      ++ (match timeout with Some t => [CSchedWaiterTimeout step wid t] | None => [] end).
Proof. exact add_new_waiter_cmds. Qed.
Print Assumptions C10_new_waiter_publishes_once.

Theorem C10_existing_waiter_is_silent : forall P step tev dc now a wid wev reqs timeout ty k a',
  find_waiter_idx wid (waiters (k_w a)) 0 = Some k ->
  one_result P step tev dc now a (RAddWaiter wid wev reqs timeout ty) = Ok a' ->
  k_cmds a' = k_cmds a.
Proof. exact add_existing_waiter_silent. Qed.
Print Assumptions C10_existing_waiter_is_silent.

(* non-vacuity: two matching responses in a row for one waiter of a 2-worker step: the first
   resolves it and admits one replay, the second is routed as ordinary input (or unhandled), the
   waiter keeps the first event *)
Example C10_nonvacuous :
  let c := {| accepts := [1]; nworkers := 2; pol := None |} in
  let wt := {| w_id := 1; w_ev := {| ety := 1; eid := 7; eattrs := [] |}; w_ty := 5; w_reqs := [(1, 5)];
               w_hasreq := true; w_resolved := None; w_timedout := false |} in
  let s0 := {| running := true;
               cfg := {| c_handler_for := []; c_handlers := []; c_start := [0]; c_stop := [9];
                         c_inputreq := [8]; c_ty_stepfailed := 7 |};
               workers := [(1, {| w_cfg := c; queue := []; inprogress := []; collected := []; waiters := [wt] |})] |} in
  let r i := blank {| ety := 5; eid := i; eattrs := [(1, 5)] |} in
  match process_add (r 20) None s0 0 with
  | Ok (s1, _) =>
    match process_add (r 21) None s1 0 with
    | Ok (s2, cs2) =>
      map (fun p => (load (snd p), map (fun w => option_map eid (w_resolved w)) (waiters (snd p)))) (workers s1)
        = [(1%nat, [Some 20])] /\
      map (fun p => (load (snd p), map (fun w => option_map eid (w_resolved w)) (waiters (snd p)))) (workers s2)
        = [(1%nat, [Some 20])] /\ n_unhandled cs2 = 1%nat
    | Err _ => False end
  | Err _ => False end.
Proof. vm_compute. repeat split. Qed.
Print Assumptions C10_nonvacuous.

(* ---- the run loop (Model/Runner.v): one timeout tick per scheduled waiter timeout, for EVERY schedule ----
   While the run is live, whatever the order of worker completions, deliveries and clock advances: the waiter-timeout
   ticks the reducer scheduled along the processed-tick log (one CommandScheduleWaiterTimeout per newly registered
   waiter with a timeout - C10_new_waiter_publishes_once, C10_existing_waiter_is_silent) plus those the environment delivered are, counted
   under ANY observation f, exactly the waiter-timeout ticks the reducer has processed plus those still in the timer
   heap, tick buffer or mailbox: no scheduled timeout is lost, none reaches the reducer twice.  (That a timeout tick
   after the waiter was resolved is a no-op is C10_timeout_after_resolution_is_noop; that no timer fires before its
   time is C06_runner_never_early.) *)
Theorem C10_run_loop_definitions_are : forall l f cs,
  adds l = filter (fun t => match t with TWaiterTimeout _ _ => true | _ => false end) l /\
  cntf f l = length (filter f l) /\
  queued_of cs = flat_map (fun c => match c with CSchedWaiterTimeout s w _ => [TWaiterTimeout s w] | _ => [] end) cs.
Proof. intros. repeat split; reflexivity. Qed.
Print Assumptions C10_run_loop_definitions_are.

Theorem C10_run_loop_conserves_waiter_timeouts : forall P s e now acts,
  Runner.outcome (run_at P s e now acts) = ORunning ->
  let r := run_at P s e now acts in
  (forall f, cntf f (adds (ticklog r)) + cntf f (adds (tbuf r)) + cntf f (adds (mailbox r)) +
             cntf f (adds (map snd (wakeups r))) =
             cntf f (queued_of (run_cmds P s (tlog r))) + cntf f (adds (envlog r)))%nat /\
  run_ticks P s (tlog r) = Ok (st r) /\ ticklog r = map fst (tlog r).
Proof. exact run_conserves_waiter_timeouts. Qed.
Print Assumptions C10_run_loop_conserves_waiter_timeouts.

(* ---- when does the time-out tick arrive?  (Proofs/RunnerFire.v; the same statements carry C06's delayed retries) ---- *)
From WF Require Import Proofs.RunnerFire.

(* a wait registered with timeout t at clock reading c has its time-out tick entered for time c + t *)
Theorem C10_run_loop_waiter_timeout_is_scheduled_at_registration_plus_timeout : forall r s w t,
  Runner.outcome r = ORunning ->
  wakeups (do_command r (CSchedWaiterTimeout s w t)) = insert_wakeup (clock r + t, wseq r, TWaiterTimeout s w) (wakeups r) /\
  tbuf (do_command r (CSchedWaiterTimeout s w t)) = tbuf r.
Proof. exact waiter_timeout_is_scheduled. Qed.
Print Assumptions C10_run_loop_waiter_timeout_is_scheduled_at_registration_plus_timeout.

(* for every schedule: no time-out tick reaches the reducer before its time (so a step never gets a TimeoutError
   before the timeout it asked for has elapsed) *)
Theorem C10_run_loop_no_timeout_fires_early : forall P s e now acts,
  Forall (fun f : Z * tick * Z => fst (fst f) <= snd f) (firelog (run_at P s e now acts)).
Proof. exact run_wakeups_never_fire_early. Qed.
Print Assumptions C10_run_loop_no_timeout_fires_early.
