(* C12 — Pausing to a serialized context and resuming gives the same result.
   Statements only; proofs in Proofs/SerdeState.v and (shared with C13) Proofs/ServerResumeProofs.v. *)
From Coq Require Import List ZArith Bool Permutation.
Import ListNotations.
From WF Require Import Model.Engine Proofs.EngineCap Model.ServerPersist Proofs.ServerResumeProofs Proofs.SerdeState.
Open Scope Z_scope.

(* the serialized form is stable after one round trip: deserializing, re-serializing and deserializing
   again yields the same run state - for every run state of a workflow with unique step names *)
Theorem C12_serialized_form_stable : forall base s,
  Keys_ok base -> keys s = keys base ->
  from_ser base (to_ser (from_ser base (to_ser s))) = from_ser base (to_ser s).
Proof. exact serde_stable_after_one_round_trip. Qed.
Print Assumptions C12_serialized_form_stable.

(* what the resumed run holds after from_serialized + rewind_in_progress: per step exactly the inputs the
   snapshot held (queued or running - every not-yet-completed invocation is re-executed, none is lost
   or duplicated), the same collected buffers, the same waiters and resolutions, the same running flag *)
Theorem C12_resume_holds_every_unfinished_invocation : forall base s now r' cs,
  Keys_ok s -> keys s = keys base ->
  rewind (from_ser base (to_ser s)) now = Ok (r', cs) ->
  running r' = running s /\
  forall n w, zlookup n (workers s) = Some w ->
    exists w', zlookup n (workers r') = Some w' /\
      Permutation (held w') (held w) /\ collected w' = collected w /\
      map w_id (waiters w') = map w_id (waiters w) /\ map w_resolved (waiters w') = map w_resolved (waiters w) /\
      map w_ev (waiters w') = map w_ev (waiters w).
Proof. exact resume_preserves_work. Qed.
Print Assumptions C12_resume_holds_every_unfinished_invocation.

Theorem C12_resume_always_boots : forall base c now, exists r' cs, rewind (from_ser base c) now = Ok (r', cs).
Proof. exact resume_boot_total. Qed.
Print Assumptions C12_resume_always_boots.

(* retry count / budget, PARTIAL: QUEUED attempts keep attempts, first-attempt time, last exception and
   recovery counts through the round trip ... *)
Theorem C12_queued_attempts_keep_their_counts : forall a,
  a_ev (ser_attempt a) = a_ev a /\ a_att (ser_attempt a) = Some (match a_att a with Some n => n | None => 0 end) /\
  a_first (ser_attempt a) = a_first a /\ a_exn (ser_attempt a) = a_exn a /\ a_rc (ser_attempt a) = a_rc a.
Proof. exact ser_attempt_keeps. Qed.
Print Assumptions C12_queued_attempts_keep_their_counts.

Theorem C12_resumed_queue_is : forall bw w,
  queue (deser_worker bw (ser_worker w)) = map ser_attempt (queue w) ++ map resumed_attempt (map i_ev (inprogress w)).
Proof. exact resumed_queue_is. Qed.
Print Assumptions C12_resumed_queue_is.

(* ... REFUTED for invocations that were RUNNING at the snapshot: only their events are serialized, so they
   come back as first attempts with no recovery counts (a step on its third attempt gets its full retry
   budget again; a lineage that used up an error handler's budget may enter it again) *)
Theorem C12_running_invocations_lose_their_counts_refuted :
  exists base s now r' cs w w',
    Keys_ok s /\ keys s = keys base /\ rewind (from_ser base (to_ser s)) now = Ok (r', cs) /\
    zlookup 1 (workers s) = Some w /\ zlookup 1 (workers r') = Some w' /\
    map i_att (inprogress w) = [2] /\ map i_rc (inprogress w) = [[(6, 1)]] /\
    map i_att (inprogress w') = [0] /\ map i_rc (inprogress w') = [[]].
Proof.
  set (cfg0 := {| c_handler_for := [(1, 6)]; c_handlers := [(6, {| h_step := 6; h_max := 1 |})];
                  c_start := [0]; c_stop := [9]; c_inputreq := [8]; c_ty_stepfailed := 7 |}).
  set (ip := {| i_ev := {| ety := 0; eid := 1; eattrs := [] |}; i_wid := 0%nat; i_snap := {| s_coll := []; s_wait := [] |};
                i_att := 2; i_first := 5; i_exn := Some {| xty := 1; xmsg := 1 |}; i_failed := Some 9; i_rc := [(6, 1)] |}).
  set (w := {| w_cfg := {| accepts := [0]; nworkers := 1; pol := Some 1 |}; queue := []; inprogress := [ip];
               collected := []; waiters := [] |}).
  set (s := {| running := true; cfg := cfg0; workers := [(1, w)] |}).
  exists s, s, 50. eexists. eexists. exists w. eexists.
  vm_compute. repeat split; try reflexivity. repeat constructor. intros [].
Qed.
Print Assumptions C12_running_invocations_lose_their_counts_refuted.
