(* C01 — A step never runs more invocations at once than its worker limit.
   Statements only; every proof is `exact <lemma>` from Proofs/EngineCap.v and Proofs/EngineSlots.v. *)
From Coq Require Import List ZArith Bool PeanoNat.
Import ListNotations.
From WF Require Import Model.Engine Proofs.EngineCap Proofs.EngineSlots.
Open Scope Z_scope.

(* The invariant, restated in full so it cannot be quietly weakened elsewhere: per step,
   |in_progress| <= num_workers, worker ids distinct, every worker id in [0, num_workers). *)
Theorem C01_invariant_is : forall s,
  Inv_state s <->
  Forall (fun p => (length (inprogress (snd p)) <= nworkers (w_cfg (snd p)))%nat /\
                   NoDup (map i_wid (inprogress (snd p))) /\
                   Forall (fun i => (i_wid i < nworkers (w_cfg (snd p)))%nat) (inprogress (snd p)))
         (workers s).
Proof. intros s. unfold Inv_state, Inv_ws, Inv_cap. tauto. Qed.
Print Assumptions C01_invariant_is.

(* a fresh run state and every deserialized context satisfy it *)
Theorem C01_initial_state : forall s, Inv_state (blank_state s).
Proof. exact blank_state_cap. Qed.
Print Assumptions C01_initial_state.

Theorem C01_deserialized_state : forall base c, Inv_state (from_ser base c).
Proof. exact from_ser_cap. Qed.
Print Assumptions C01_deserialized_state.

(* every tick of every kind preserves it: retries, collect_events re-runs (which keep their
   slot), waiter replays, step results with any result list, for every retry policy oracle *)
Theorem C01_every_tick_preserves : forall P t s now s' cs,
  Inv_state s -> reduce P t s now = Ok (s', cs) -> Inv_state s'.
Proof. exact reduce_cap. Qed.
Print Assumptions C01_every_tick_preserves.

(* hence every state reachable by any history of ticks at any timestamps *)
Theorem C01_every_reachable_state : forall P ts s s',
  Inv_state s -> run_ticks P s ts = Ok s' -> Inv_state s'.
Proof. exact run_ticks_cap. Qed.
Print Assumptions C01_every_reachable_state.

(* resuming (rewind_in_progress) re-establishes it from ANY state with unique step names *)
Theorem C01_rewind_establishes : forall s now s' cs,
  Keys_ok s -> rewind s now = Ok (s', cs) -> Inv_state s'.
Proof. exact rewind_cap. Qed.
Print Assumptions C01_rewind_establishes.

(* and replaying a recorded tick log on top of it *)
Theorem C01_rebuild : forall P s ts now s',
  Keys_ok s -> rebuild P s ts now = Ok s' -> Inv_state s'.
Proof. exact rebuild_cap. Qed.
Print Assumptions C01_rebuild.

(* the "no free worker id" branch (Python: id_candidates[0] -> IndexError) is dead under the invariant *)
Theorem C01_slot_always_available : forall step a w now,
  Inv_cap w -> exists w' cs, add_or_enqueue step a w now = Ok (w', cs).
Proof. exact add_or_enqueue_ok. Qed.
Print Assumptions C01_slot_always_available.

(* Every invocation the reducer starts (CommandRunWorker step ev wid — first runs, retries,
   waiter replays and collect re-runs alike) occupies slot wid of that step's in_progress in the
   resulting state; with the invariant: wid < num_workers and no other running invocation of the
   step holds wid. *)
Theorem C01_started_invocation_holds_slot : forall P t s now s' cs step e wid,
  Keys_ok s -> reduce P t s now = Ok (s', cs) -> In (CRunWorker step e wid) cs ->
  exists w, In (step, w) (workers s') /\ In wid (map i_wid (inprogress w)).
Proof. exact reduce_runs_in_progress. Qed.
Print Assumptions C01_started_invocation_holds_slot.

Theorem C01_started_invocation_slot_in_range : forall P t s now s' cs step e wid,
  Keys_ok s -> Inv_state s -> reduce P t s now = Ok (s', cs) -> In (CRunWorker step e wid) cs ->
  exists w, In (step, w) (workers s') /\ (wid < nworkers (w_cfg w))%nat /\
            (length (inprogress w) <= nworkers (w_cfg w))%nat /\ NoDup (map i_wid (inprogress w)).
Proof. exact reduce_runs_slot_in_range. Qed.
Print Assumptions C01_started_invocation_slot_in_range.

(* a slot is released only by the step-result tick of that very slot: any other tick keeps every
   in_progress worker id of every step *)
Theorem C01_slot_released_only_by_own_result : forall P t s now s' cs n w k,
  Keys_ok s -> reduce P t s now = Ok (s', cs) -> In (n, w) (workers s) ->
  In k (map i_wid (inprogress w)) ->
  (forall e rs, t <> TStep n k e rs) ->
  exists w', In (n, w') (workers s') /\ In k (map i_wid (inprogress w')).
Proof. exact reduce_keeps_other_slots. Qed.
Print Assumptions C01_slot_released_only_by_own_result.

(* non-vacuity: a step with 2 workers receiving three events runs two on slots 0 and 1 and queues one *)
Example C01_nonvacuous :
  let c := {| accepts := [1]; nworkers := 2; pol := None |} in
  let s0 := {| running := true;
               cfg := {| c_handler_for := []; c_handlers := []; c_start := [0]; c_stop := [9];
                         c_inputreq := [8]; c_ty_stepfailed := 7 |};
               workers := [(1, {| w_cfg := c; queue := []; inprogress := []; collected := []; waiters := [] |})] |} in
  let ev i := TAdd (blank {| ety := 1; eid := i; eattrs := [] |}) None in
  match run_ticks (fun _ _ _ _ => PStop) s0 [(ev 1, 0); (ev 2, 0); (ev 3, 0)] with
  | Ok s => Inv_state s0 /\ Keys_ok s0 /\
            map (fun p => (map i_wid (inprogress (snd p)), length (queue (snd p)))) (workers s) = [([0%nat; 1%nat], 1%nat)]
  | Err _ => False
  end.
Proof. vm_compute. repeat split; repeat constructor; auto; intros []; try discriminate; auto. Qed.
Print Assumptions C01_nonvacuous.
