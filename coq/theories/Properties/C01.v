(* C01 — A step never runs more invocations at once than its worker limit.
   Statements only; every proof is `exact <lemma>` from Proofs/EngineCap.v, Proofs/EngineSlots.v and
   Proofs/RunnerSlots.v, Proofs/RunnerSlotsExact.v. *)
From Coq Require Import List ZArith Bool PeanoNat Lia.
Import ListNotations.
From WF Require Import Model.Engine Model.Runner Proofs.EngineCap Proofs.EngineSlots Proofs.RunnerSlots Proofs.RunnerSlotsExact.
Open Scope Z_scope.

(* The invariant, restated in full so it cannot be quietly weakened elsewhere: per step,
   |in_progress| <= num_workers, worker ids distinct, every worker id in [0, num_workers). *)
Theorem C01_invariant_is : forall s,
  Inv_state s <->
  Forall (fun p => (length (inprogress (snd p)) <= nworkers (w_cfg (snd p)))%nat /\
                   NoDup (map i_wid (inprogress (snd p))) /\
                   Forall (fun i => (i_wid i < nworkers (w_cfg (snd p)))%nat) (inprogress (snd p)))
         (workers s).
Proof. intros s. unfold Inv_state, Inv_ws, Inv_cap. tauto. Qed.
Print Assumptions C01_invariant_is.

(* a fresh run state and every deserialized context satisfy it *)
Theorem C01_initial_state : forall s, Inv_state (blank_state s).
Proof. exact blank_state_cap. Qed.
Print Assumptions C01_initial_state.

Theorem C01_deserialized_state : forall base c, Inv_state (from_ser base c).
Proof. exact from_ser_cap. Qed.
Print Assumptions C01_deserialized_state.

(* every tick of every kind preserves it: retries, collect_events re-runs (which keep their
   slot), waiter replays, step results with any result list, for every retry policy oracle *)
Theorem C01_every_tick_preserves : forall P t s now s' cs,
  Inv_state s -> reduce P t s now = Ok (s', cs) -> Inv_state s'.
Proof. exact reduce_cap. Qed.
Print Assumptions C01_every_tick_preserves.

(* hence every state reachable by any history of ticks at any timestamps *)
Theorem C01_every_reachable_state : forall P ts s s',
  Inv_state s -> run_ticks P s ts = Ok s' -> Inv_state s'.
Proof. exact run_ticks_cap. Qed.
Print Assumptions C01_every_reachable_state.

(* resuming (rewind_in_progress) re-establishes it from ANY state with unique step names *)
Theorem C01_rewind_establishes : forall s now s' cs,
  Keys_ok s -> rewind s now = Ok (s', cs) -> Inv_state s'.
Proof. exact rewind_cap. Qed.
Print Assumptions C01_rewind_establishes.

(* and replaying a recorded tick log on top of it *)
Theorem C01_rebuild : forall P s ts now s',
  Keys_ok s -> rebuild P s ts now = Ok s' -> Inv_state s'.
Proof. exact rebuild_cap. Qed.
Print Assumptions C01_rebuild.

(* the "no free worker id" branch (Python: id_candidates[0] -> IndexError) is dead under the invariant *)
Theorem C01_slot_always_available : forall step a w now,
  Inv_cap w -> exists w' cs, add_or_enqueue step a w now = Ok (w', cs).
Proof. exact add_or_enqueue_ok. Qed.
Print Assumptions C01_slot_always_available.

(* Every invocation the reducer starts (CommandRunWorker step ev wid — first runs, retries,
   waiter replays and collect re-runs alike) occupies slot wid of that step's in_progress in the
   resulting state; with the invariant: wid < num_workers and no other running invocation of the
   step holds wid. *)
Theorem C01_started_invocation_holds_slot : forall P t s now s' cs step e wid,
  Keys_ok s -> reduce P t s now = Ok (s', cs) -> In (CRunWorker step e wid) cs ->
  exists w, In (step, w) (workers s') /\ In wid (map i_wid (inprogress w)).
Proof. exact reduce_runs_in_progress. Qed.
Print Assumptions C01_started_invocation_holds_slot.

Theorem C01_started_invocation_slot_in_range : forall P t s now s' cs step e wid,
  Keys_ok s -> Inv_state s -> reduce P t s now = Ok (s', cs) -> In (CRunWorker step e wid) cs ->
  exists w, In (step, w) (workers s') /\ (wid < nworkers (w_cfg w))%nat /\
            (length (inprogress w) <= nworkers (w_cfg w))%nat /\ NoDup (map i_wid (inprogress w)).
Proof. exact reduce_runs_slot_in_range. Qed.
Print Assumptions C01_started_invocation_slot_in_range.

(* a slot is released only by the step-result tick of that very slot: any other tick keeps every
   in_progress worker id of every step *)
Theorem C01_slot_released_only_by_own_result : forall P t s now s' cs n w k,
  Keys_ok s -> reduce P t s now = Ok (s', cs) -> In (n, w) (workers s) ->
  In k (map i_wid (inprogress w)) ->
  (forall e rs, t <> TStep n k e rs) ->
  exists w', In (n, w') (workers s') /\ In k (map i_wid (inprogress w')).
Proof. exact reduce_keeps_other_slots. Qed.
Print Assumptions C01_slot_released_only_by_own_result.

(* non-vacuity: a step with 2 workers receiving three events runs two on slots 0 and 1 and queues one *)
Example C01_nonvacuous :
  let c := {| accepts := [1]; nworkers := 2; pol := None |} in
  let s0 := {| running := true;
               cfg := {| c_handler_for := []; c_handlers := []; c_start := [0]; c_stop := [9];
                         c_inputreq := [8]; c_ty_stepfailed := 7 |};
               workers := [(1, {| w_cfg := c; queue := []; inprogress := []; collected := []; waiters := [] |})] |} in
  let ev i := TAdd (blank {| ety := 1; eid := i; eattrs := [] |}) None in
  match run_ticks (fun _ _ _ _ => PStop) s0 [(ev 1, 0); (ev 2, 0); (ev 3, 0)] with
  | Ok s => Inv_state s0 /\ Keys_ok s0 /\
            map (fun p => (map i_wid (inprogress (snd p)), length (queue (snd p)))) (workers s) = [([0%nat; 1%nat], 1%nat)]
  | Err _ => False
  end.
Proof. vm_compute. repeat split; repeat constructor; auto; intros []; try discriminate; auto. Qed.
Print Assumptions C01_nonvacuous.

(* ---- the run loop (Model/Runner.v): what is really in flight, for EVERY schedule ----
   `held r` lists the (step, slot) key of every started-and-unfinished invocation of the run loop state r: worker
   commands not yet started, started worker tasks, finished tasks whose result was not harvested yet, and results whose
   tick still sits in the tick buffer.  Spelled out so that the statement below cannot be weakened elsewhere. *)
Theorem C01_held_is : forall r,
  held r = map (fun x => (fst (fst x), snd (fst x))) (pending r)
        ++ map (fun x => (fst (fst x), snd (fst x))) (runningw r)
        ++ map (fun x => (fst (fst (fst x)), snd (fst (fst x)))) (donew r)
        ++ flat_map (fun t => match t with TStep n k _ _ => [(n, k)] | _ => [] end) (tbuf r).
Proof. intros r. reflexivity. Qed.
Print Assumptions C01_held_is.

(* the environment is unconstrained except for what the engine API guarantees: worker bodies and external senders put
   only add-event ticks into the mailbox, and one invocation calls collect_events once (one AddCollectedEvent result) *)
Theorem C01_schedule_is : forall a,
  action_ok a <->
  match a with
  | AWorkerDone _ _ sends rs =>
      forallb (fun t => match t with TAdd _ _ => true | _ => false end) sends = true /\
      (length (filter (fun r => match r with RAddColl _ _ => true | _ => false end) rs) <= 1)%nat
  | ADeliver t => (match t with TAdd _ _ => true | _ => false end) = true
  | AAdvance _ => True
  end.
Proof. intros a. destruct a; cbn; tauto. Qed.
Print Assumptions C01_schedule_is.

(* For every start state satisfying the invariant, every policy oracle and every schedule of worker completions (in any
   order, with any result lists), deliveries and clock advances: while the run is live, no two in-flight invocations
   share a (step, slot) key, and a step has at most num_workers invocations in flight. *)
Theorem C01_run_loop_in_flight_bounded : forall P s e now acts n w,
  Keys_ok s -> Inv_state s -> Forall action_ok acts ->
  Runner.outcome (run_at P s e now acts) = ORunning ->
  zlookup n (workers (st (run_at P s e now acts))) = Some w ->
  NoDup (held (run_at P s e now acts)) /\
  (length (filter (fun x => Z.eqb (fst x) n) (held (run_at P s e now acts))) <= nworkers (w_cfg w))%nat.
Proof. exact run_inflight_bounded. Qed.
Print Assumptions C01_run_loop_in_flight_bounded.

(* and every in-flight invocation sits on a slot of its step's in_progress list *)
Theorem C01_run_loop_in_flight_holds_slot : forall P s e now acts x,
  Keys_ok s -> Inv_state s -> Forall action_ok acts ->
  Runner.outcome (run_at P s e now acts) = ORunning -> In x (held (run_at P s e now acts)) ->
  exists w, zlookup (fst x) (workers (st (run_at P s e now acts))) = Some w /\ In (snd x) (map i_wid (inprogress w)).
Proof. intros P s e now acts x K Cp F O. exact (so_occ _ (run_slots_ok P s e now acts K Cp F O) x). Qed.
Print Assumptions C01_run_loop_in_flight_holds_slot.

(* non-vacuity: a 2-worker step given three events has both slots in flight and one event queued while the run is
   live; after slot 0 finishes, the queued event takes slot 0 again *)
Example C01_run_loop_nonvacuous :
  let c := {| accepts := [0]; nworkers := 2; pol := None |} in
  let s0 := {| running := true;
               cfg := {| c_handler_for := []; c_handlers := []; c_start := [0]; c_stop := [9];
                         c_inputreq := [8]; c_ty_stepfailed := 7 |};
               workers := [(1, {| w_cfg := c; queue := []; inprogress := []; collected := []; waiters := [] |})] |} in
  let ev i := {| ety := 0; eid := i; eattrs := [] |} in
  let acts := [ADeliver (TAdd (blank (ev 2)) None); ADeliver (TAdd (blank (ev 3)) None)] in
  let r := run_at (fun _ _ _ _ => PStop) s0 (ev 1) 100 acts in
  let r2 := run_at (fun _ _ _ _ => PStop) s0 (ev 1) 100 (acts ++ [AWorkerDone 1 0%nat [] [RResult ONone]]) in
  Keys_ok s0 /\ Inv_state s0 /\ Forall action_ok (acts ++ [AWorkerDone 1 0%nat [] [RResult ONone]]) /\
  Runner.outcome r = ORunning /\ held r = [(1, 0%nat); (1, 1%nat)] /\
  map (fun p => length (queue (snd p))) (workers (st r)) = [1%nat] /\
  Runner.outcome r2 = ORunning /\ held r2 = [(1, 1%nat); (1, 0%nat)] /\
  map (fun p => length (queue (snd p))) (workers (st r2)) = [0%nat].
Proof.
  cbv zeta. split; [repeat constructor; intros []|]. split; [repeat constructor; cbn; lia|].
  split; [repeat constructor; cbn; lia|]. vm_compute. repeat split; reflexivity.
Qed.
Print Assumptions C01_run_loop_nonvacuous.

(* ---- and conversely: no slot leaks.  For a fresh run (no slot taken in the start state), every schedule, every point
   where the live run loop blocks: the slots recorded in the in_progress lists are EXACTLY the in-flight invocations, as
   multisets (counting function cnt = count_occ) - an in_progress entry exists only while a worker really works on it. *)
Theorem C01_run_loop_slots_are_exactly_the_in_flight_invocations : forall P s e now acts,
  Keys_ok s -> Inv_state s -> Forall (fun p => inprogress (snd p) = []) (workers s) -> Forall action_ok acts ->
  Runner.outcome (run_at P s e now acts) = ORunning ->
  forall x, count_occ key_dec (held (run_at P s e now acts)) x =
            count_occ key_dec (flat_map (fun p => map (fun k => (fst p, k)) (map i_wid (inprogress (snd p))))
                                        (workers (st (run_at P s e now acts)))) x.
Proof. exact run_slots_exact. Qed.
Print Assumptions C01_run_loop_slots_are_exactly_the_in_flight_invocations.

(* since nothing is buffered or unharvested when the loop blocks: every slot of every in_progress list then belongs to
   a worker task that has been started and has not finished *)
Theorem C01_run_loop_every_slot_has_a_running_worker : forall P s e now acts n w k,
  Keys_ok s -> Inv_state s -> Forall (fun p => inprogress (snd p) = []) (workers s) -> Forall action_ok acts ->
  Runner.outcome (run_at P s e now acts) = ORunning ->
  zlookup n (workers (st (run_at P s e now acts))) = Some w -> In k (map i_wid (inprogress w)) ->
  exists ev, In (n, k, ev) (runningw (run_at P s e now acts)).
Proof. exact run_every_slot_has_a_running_worker. Qed.
Print Assumptions C01_run_loop_every_slot_has_a_running_worker.
