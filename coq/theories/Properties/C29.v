(* C29 — Stream merge and sorted-prefix utilities preserve items and order.
   Statements only; every proof is `exact <lemma>` from Proofs/IterUtilsProofs.v.

   [mreach stop srcs sched]: state of the model of merge_generators(srcs..., stop_on_first_completion=stop)
   (Model/IterUtils.v) after the ARBITRARY list of scheduler choices [sched] (CFinish i: the pending
   anext task of source i completes; CWake order: merge resumes from asyncio.wait and handles ALL
   finished tasks in the order the scheduler picks — asyncio.wait returns a set; CNext: the consumer
   asks for the next item).  [m_out] is what has been yielded, tagged with the source index.
   [dsp_run kf inner sched]: debounced_sorted_prefix(inner, key=kf) = the repaired consumer over
   merge_generators(inner, debouncer.aiter()); the debouncer's "__COMPLETE__" may arrive at any point
   of the schedule, which covers every timing of items relative to the debounce / max window. *)
From Coq Require Import List Bool Arith ZArith Lia Permutation Sorted.
Import ListNotations.
From WF Require Import Base.SchedKL Model.IterUtils Proofs.IterUtilsProofs.

(* at every moment, in both modes, whatever the schedule: the items yielded from source i are a
   prefix of source i's items, in order; nothing is duplicated *)
Theorem C29_merge_preserves_each_inputs_order : forall stop srcs sched i,
  i < length srcs ->
  exists rest, s_items (nth i srcs src_dflt) = proj i (m_out (mreach stop srcs sched)) ++ rest.
Proof. exact merge_prefix. Qed.
Print Assumptions C29_merge_preserves_each_inputs_order.

Theorem C29_merge_yields_only_source_items : forall stop srcs sched p,
  In p (m_out (mreach stop srcs sched)) -> fst p < length srcs.
Proof. exact merge_tags. Qed.
Print Assumptions C29_merge_yields_only_source_items.

(* default mode: when the merged generator ends without raising, every item of every input has been
   yielded exactly once (the output is an interleaving of the inputs) *)
Theorem C29_merge_every_item_exactly_once : forall srcs sched,
  let s := mreach false srcs sched in
  m_phase s = PEnd -> m_exc s = None ->
  forall i, i < length srcs ->
    proj i (m_out s) = s_items (nth i srcs src_dflt) /\ s_end (nth i srcs src_dflt) = None.
Proof. exact merge_complete. Qed.
Print Assumptions C29_merge_every_item_exactly_once.

(* an input's error is re-raised: with a failing input the generator cannot end normally, and what it
   raises is the error of one of its inputs *)
Theorem C29_merge_reraises_input_error : forall srcs sched,
  let s := mreach false srcs sched in
  m_phase s = PEnd ->
  ((exists i e, i < length srcs /\ s_end (nth i srcs src_dflt) = Some e) -> m_exc s <> None) /\
  (forall e, m_exc s = Some e -> exists i, i < length srcs /\ s_end (nth i srcs src_dflt) = Some e).
Proof. exact merge_error. Qed.
Print Assumptions C29_merge_reraises_input_error.

(* list.sort(key=...) as modelled: a sorted permutation *)
Theorem C29_sort_is_sorted_permutation : forall kf l,
  Permutation (sort_by kf l) l /\ Sorted (fun a b => (kf a <= kf b)%Z) (sort_by kf l).
Proof. exact sort_spec. Qed.
Print Assumptions C29_sort_is_sorted_permutation.

(* debounced_sorted_prefix (after the repair): for every schedule — i.e. every timing of the items
   relative to the window and every handling order of simultaneous completions — once the stream has
   ended the output is: an initial burst (a prefix of the input) sorted by key, then the remaining
   items in arrival order; every input item exactly once; no later item before the burst *)
Theorem C29_sorted_prefix : forall kf inner sched,
  let s := dsp_run kf (mkSrc inner None) sched in
  m_phase s = PEnd ->
  exists burst later, inner = burst ++ later /\ dsp_output kf (m_out s) = sort_by kf burst ++ later.
Proof. exact dsp_sorted_prefix. Qed.
Print Assumptions C29_sorted_prefix.

(* the code before the repair (branch on debouncer.is_complete): an item consumed after the window
   ended but before "__COMPLETE__" was consumed is yielded ahead of the sorted burst *)
Theorem C29_sorted_prefix_original_code_refuted :
  let stream := [(0, 1%Z, false); (0, 5%Z, false); (0, 2%Z, true); (1, complete_marker, true)] in
  let out := consume (fun v => v) false false [] stream in
  out = [2%Z; 1%Z; 5%Z] /\
  forall burst later, [1%Z; 5%Z; 2%Z] = burst ++ later -> out <> sort_by (fun v => v) burst ++ later.
Proof. exact dsp_old_code_refuted. Qed.
Print Assumptions C29_sorted_prefix_original_code_refuted.

(* non-vacuity: three sources, two finishing in the same loop iteration and handled in either order;
   a failing source; a sorted-prefix run where an item lands between the window end and the marker *)
Example C29_nonvacuous :
  let srcs := [mkSrc [10; 11]%Z None; mkSrc [20]%Z None; mkSrc [] None] in
  let run order := mreach false srcs
     [CFinish 0; CFinish 1; CFinish 2; CWake order; CNext; CNext; CFinish 1; CFinish 0; CWake []; CNext;
      CFinish 0; CWake []] in
  m_phase (run [1; 0]) = PEnd /\ m_exc (run [1; 0]) = None /\
  map snd (m_out (run [1; 0])) = [20; 10; 11]%Z /\ map snd (m_out (run [0; 1])) = [10; 20; 11]%Z /\
  (let bad := mreach false [mkSrc [10]%Z (Some 7%Z); mkSrc [20]%Z None]
                [CFinish 0; CWake []; CNext; CFinish 0; CWake []] in
   m_phase bad = PEnd /\ m_exc bad = Some 7%Z /\ map snd (m_out bad) = [10]%Z) /\
  (let d := dsp_run (fun v => v) (mkSrc [3; 1; 5; 2]%Z None)
              [CFinish 0; CWake []; CNext; CFinish 0; CWake []; CNext; CFinish 0; CFinish 1; CWake [0; 1]; CNext; CNext;
               CFinish 0; CFinish 1; CWake []; CNext; CFinish 0; CWake []] in
   m_phase d = PEnd /\ dsp_output (fun v => v) (m_out d) = [1; 3; 5; 2]%Z).
Proof. vm_compute. repeat split; reflexivity. Qed.
Print Assumptions C29_nonvacuous.
