(* canonical encoders for the runner correspondence suite (`runnerdiff`): tick log, published stream, outcome *)
From Coq Require Import List ZArith Bool.
Import ListNotations.
From WF Require Import Model.Engine Model.EngineEnc Model.Runner.
Open Scope Z_scope.

Definition enc_outcome_r (o : Engine.outcome) : list Z :=
  match o with OEvent e => 1 :: enc_event e | ONone => [2] | OOther => [3] end.
Definition enc_result (r : result) : list Z :=
  match r with
  | RResult o => 1 :: enc_outcome_r o
  | RFailed x fa => [2] ++ enc_exn x ++ [fa]
  | RAddColl b e => 3 :: b :: enc_event e
  | RDelColl b => [4 ; b]
  | RAddWaiter wid wev reqs tmo ty => [5 ; wid] ++ enc_opt enc_event wev ++ enc_list enc_pair reqs ++ enc_opt enc_z tmo ++ [ty]
  | RDelWaiter wid => [6 ; wid]
  end.
Definition enc_tick (t : tick) : list Z :=
  match t with
  | TAdd a tg => 1 :: enc_attempt a ++ enc_opt enc_z tg
  | TStep st w e rs => [2 ; st ; zn w] ++ enc_event e ++ enc_list enc_result rs
  | TCancel => [3]
  | TPublish e => 4 :: enc_event e
  | TTimeout t => [5 ; t]
  | TWaiterTimeout st w => [6 ; st ; w]
  | TIdleCheck => [7]
  | TIdleRelease => [8]
  end.
Definition enc_routcome (o : outcome_t) : list Z :=
  match o with
  | ORunning => [0] | OResult e => 1 :: enc_event e | OFailed x => 2 :: enc_exn x | OCancelled => [3]
  | OTimedOut => [4] | OIdleReleased => [5] | OCrashed c => [6 ; c] | OOutOfFuel => [7]
  end.
Definition enc_run (r : rstate) : list Z :=
  enc_list enc_tick (ticklog r) ++ enc_list enc_pub (published r) ++ enc_routcome (Runner.outcome r).

(* position of the first difference + 1 (0 = equal) *)
Fixpoint first_diff (a b : list Z) (k : Z) : Z :=
  match a, b with
  | [], [] => 0
  | x :: a', y :: b' => if Z.eqb x y then first_diff a' b' (k + 1) else k
  | _, _ => k
  end.
Definition runner_case (P : policy) (s : state) (e : event) (now : Z) (acts : list action) (expect : list Z) : Z :=
  first_diff (enc_run (run_at P s e now acts)) expect 1.
