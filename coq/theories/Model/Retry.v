(* M-Retry: executable model of workflows/retry_policy.py (combinators over Q).
   No proofs in this file.  Floats are abstracted to rationals; the one float effect that is
   modelled is the OverflowError of `exp_base ** attempts` (result >= 2^1024). *)
From Coq Require Import List ZArith QArith Qminmax Qabs Bool.
Import ListNotations.
Open Scope Q_scope.

(* ---------- exceptions as seen by retry predicates ---------- *)
(* x_isa: ids of all classes the exception is an instance of (its MRO);
   x_causes: for each exception on the __cause__ chain (nearest first), its MRO. *)
Record exn := { x_isa : list Z ; x_msg : Z ; x_causes : list (list Z) }.

Definition zmem (k : Z) (l : list Z) : bool := existsb (Z.eqb k) l.
Definition isinstance (tys : list Z) (mro : list Z) : bool := existsb (fun t => zmem t mro) tys.

Inductive rcond :=
| RIfType (tys : list Z)
| RIfNotType (tys : list Z)
| RMsgEq (m : Z)
| RMsgNe (m : Z)
| RCauseType (tys : list Z)
| RPred (id : Z)                 (* retry_if_exception(user predicate) *)
| RAlways
| RNever
| RAny (l : list rcond)
| RAll (l : list rcond).

Section Eval.
Variable upred : Z -> exn -> bool.   (* user predicates, by id *)

Fixpoint rcond_eval (c : rcond) (x : exn) : bool :=
  match c with
  | RIfType tys => isinstance tys (x_isa x)
  | RIfNotType tys => negb (isinstance tys (x_isa x))
  | RMsgEq m => Z.eqb (x_msg x) m
  | RMsgNe m => negb (Z.eqb (x_msg x) m)
  | RCauseType tys => existsb (isinstance tys) (x_causes x)
  | RPred id => upred id x
  | RAlways => true
  | RNever => false
  | RAny l => (fix any (l : list rcond) : bool :=
                 match l with [] => false | c :: t => rcond_eval c x || any t end) l
  | RAll l => (fix all (l : list rcond) : bool :=
                 match l with [] => true | c :: t => rcond_eval c x && all t end) l
  end.
End Eval.

(* ---------- stop conditions ---------- *)
Inductive stop :=
| SAfterAttempt (n : Z)
| SAfterDelay (d : Q)
| SBeforeDelay (d : Q)
| SNever
| SAny (l : list stop)
| SAll (l : list stop).

Fixpoint stop_eval (s : stop) (attempts : Z) (elapsed upcoming : Q) : bool :=
  match s with
  | SAfterAttempt n => Z.leb n attempts
  | SAfterDelay d => Qle_bool d elapsed
  | SBeforeDelay d => Qle_bool d (elapsed + upcoming)
  | SNever => false
  | SAny l => (fix any (l : list stop) : bool :=
                 match l with [] => false | c :: t => stop_eval c attempts elapsed upcoming || any t end) l
  | SAll l => (fix all (l : list stop) : bool :=
                 match l with [] => true | c :: t => stop_eval c attempts elapsed upcoming && all t end) l
  end.

(* ---------- wait strategies ---------- *)
Inductive wait :=
| WFixed (w : Q)
| WExp (mult base mx mn : Q)
| WIncr (start incr : Q) (mx : option Q)      (* None = float("inf") *)
| WRandom (mn mx : Q)
| WExpJitter (initial base mx jitter : Q)
| WRandExp (mult base mx mn : Q)
| WChain (first : wait) (rest : list wait)     (* at least one strategy *)
| WCombine (l : list wait).

Definition two_1024 : Q := inject_Z (2 ^ 1024).

(* float pow `base ** n` raises OverflowError when the magnitude reaches 2^1024 *)
Definition pow_overflows (base : Q) (n : Z) : bool := Qle_bool two_1024 (Qabs (Qpower base n)).

(* multiplier * exp_base ** attempts, None when the power overflows *)
Definition exp_term (mult base : Q) (n : Z) : option Q :=
  if pow_overflows base n then None else Some (mult * Qpower base n).

Definition uniform (a b r : Q) : Q := a + (b - a) * r.     (* random.uniform with draw r *)

(* The power overflow is caught by the code (fix: commit for C07) and yields `max`. *)
Section Wait.
Variable rng : option Z -> Q.        (* first draw of random.Random(seed).random(), in [0,1) *)
Variable seed : option Z.

Fixpoint wait_eval (w : wait) (n : Z) : Q :=
  match w with
  | WFixed q => q
  | WExp mult base mx mn =>
      match exp_term mult base n with
      | None => mx
      | Some x => Qmax (Qmax 0 mn) (Qmin x mx)
      end
  | WIncr start incr mx =>
      let r := start + incr * inject_Z n in
      Qmax 0 (match mx with None => r | Some m => Qmin r m end)
  | WRandom mn mx => uniform mn mx (rng seed)
  | WExpJitter initial base mx jitter =>
      match exp_term initial base n with
      | None => mx
      | Some x => Qmin (Qmin x mx + uniform 0 jitter (rng seed)) mx
      end
  | WRandExp mult base mx mn =>
      let upper := match exp_term mult base n with
                   | None => mx
                   | Some x => Qmax (Qmax 0 mn) (Qmin x mx)
                   end in
      uniform mn upper (rng seed)
  | WChain first rest =>
      (* idx = min(attempts, len - 1) *)
      let len := S (length rest) in
      let idx := Z.to_nat (Z.min n (Z.of_nat len - 1)) in
      match idx with
      | O => wait_eval first n
      | S k =>
        (fix pick (l : list wait) (k : nat) : Q :=
           match l, k with
           | [], _ => wait_eval first n       (* unreachable: idx < len *)
           | w :: _, O => wait_eval w n
           | _ :: t, S k' => pick t k'
           end) rest k
      end
  | WCombine l =>
      (fix sum (l : list wait) : Q :=
         match l with [] => 0 | w :: t => wait_eval w n + sum t end) l
  end.
End Wait.

(* ---------- _ComposableRetryPolicy.next ---------- *)
Record policy := { p_retry : option rcond ; p_wait : wait ; p_stop : stop }.

Definition next (upred : Z -> exn -> bool) (rng : option Z -> Q)
  (p : policy) (elapsed : Q) (attempts : Z) (x : exn) (seed : option Z) : option Q :=
  let ok := match p_retry p with None => true | Some c => rcond_eval upred c x end in
  if negb ok then None
  else
    let delay := wait_eval rng seed (p_wait p) attempts in
    if stop_eval (p_stop p) attempts elapsed delay then None else Some delay.

(* ---------- comparison helpers for the correspondence check ---------- *)
Definition qeqb (a b : Q) : bool := Qeq_bool a b.
(* |a-b| <= eps * max(1,|b|) — used only for jittered strategies where the float result of
   a + (b-a)*r is rounded *)
Definition qclose (eps a b : Q) : bool := Qle_bool (Qabs (a - b)) (eps * Qmax 1 (Qabs b)).
Definition oq_agree (eps : Q) (m : option Q) (py : option Q) : Z :=
  match m, py with
  | None, None => 0%Z
  | Some a, Some b => if qclose eps a b then 0%Z else 1%Z
  | _, _ => 2%Z
  end.
Definition b_agree (m py : bool) : Z := if Bool.eqb m py then 0%Z else 1%Z.
