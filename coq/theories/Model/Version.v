(* M-Version — executable model of the release tooling's version conversion and change
   classification (C34).

   Mirrors  src/dev_cli/changesets.py   semver_to_pep440, pep440_to_semver,
                                        _SEMVER_PRERELEASE_RE, _PEP440_LABELS
            src/dev_cli/versioning.py   detect_change_type
   A version is a release tuple with an optional a/b/rc pre-release number (the property's
   domain).  Strings are lists of code points (ASCII).  `packaging.version.Version` is modelled,
   not verified: parsing of the canonical spelling (parse_pep440), str() (render_pep440), `.release`,
   `.pre` and the ordering (vcmp) — each is compared with the real library on every run.
   The regex shape, label set, separators and the decision list of detect_change_type come from
   Generated.v (harness/translate_version.py, fail closed).  No proofs in this file. *)
From Coq Require Import List ZArith NArith Bool.
From Coq Require Decimal.
Import ListNotations.
From WF Require Import Generated.
Open Scope Z_scope.

Definition str := list Z.

Inductive label := LA | LB | LRC.
Record version := mkV { rel : list N; pre : option (label * N) }.

Definition label_eqb (a b : label) : bool :=
  match a, b with LA, LA | LB, LB | LRC, LRC => true | _, _ => false end.

(* ---- str(int) / int(digits) ---- *)
Fixpoint uint_chars (d : Decimal.uint) : str :=
  match d with
  | Decimal.Nil => []
  | Decimal.D0 d => 48 :: uint_chars d | Decimal.D1 d => 49 :: uint_chars d
  | Decimal.D2 d => 50 :: uint_chars d | Decimal.D3 d => 51 :: uint_chars d
  | Decimal.D4 d => 52 :: uint_chars d | Decimal.D5 d => 53 :: uint_chars d
  | Decimal.D6 d => 54 :: uint_chars d | Decimal.D7 d => 55 :: uint_chars d
  | Decimal.D8 d => 56 :: uint_chars d | Decimal.D9 d => 57 :: uint_chars d
  end.
Definition render_nat (n : N) : str := uint_chars (N.to_uint n).

Fixpoint chars_uint (s : str) : Decimal.uint :=
  match s with
  | [] => Decimal.Nil
  | c :: t =>
      let r := chars_uint t in
      if c =? 48 then Decimal.D0 r else if c =? 49 then Decimal.D1 r
      else if c =? 50 then Decimal.D2 r else if c =? 51 then Decimal.D3 r
      else if c =? 52 then Decimal.D4 r else if c =? 53 then Decimal.D5 r
      else if c =? 54 then Decimal.D6 r else if c =? 55 then Decimal.D7 r
      else if c =? 56 then Decimal.D8 r else Decimal.D9 r
  end.
Definition parse_nat (s : str) : N := N.of_uint (chars_uint s).

(* ---- rendering ---- *)
Fixpoint join (sep : str) (parts : list str) : str :=
  match parts with
  | [] => []
  | p :: t => match t with [] => p | _ => p ++ sep ++ join sep t end
  end.

(* the normal forms packaging uses for the pre-release letter *)
Definition label_chars (l : label) : str :=
  match l with LA => [97] | LB => [98] | LRC => [114; 99] end.

(* str(Version(..)) on the modelled domain: release joined by ".", then letter and number *)
Definition render_pep440 (v : version) : str :=
  join [46] (map render_nat (rel v)) ++
  match pre v with None => [] | Some (l, n) => label_chars l ++ render_nat n end.

(* pep440_to_semver, after Version(version) has parsed its argument:
     base = ".".join(str(x) for x in v.release)
     if v.pre is None: return base
     label, num = v.pre;  return f"{base}-{label}.{num}" *)
Definition p2s (v : version) : str :=
  let base := join c34_p2s_release_sep (map render_nat (rel v)) in
  match pre v with
  | None => base
  | Some (l, n) => base ++ c34_p2s_pre_sep ++ label_chars l ++ c34_p2s_num_sep ++ render_nat n
  end.

(* ---- _SEMVER_PRERELEASE_RE.match on ASCII strings ---- *)
Definition is_digit (c : Z) : bool := (48 <=? c) && (c <=? 57).
Definition in_ranges (rs : list (Z * Z)) (c : Z) : bool :=
  existsb (fun r => (fst r <=? c) && (c <=? snd r)) rs.
Definition is_label_char (c : Z) : bool := in_ranges c34_semver_label_ranges c.

Fixpoint span (p : Z -> bool) (s : str) : str * str :=
  match s with
  | [] => ([], [])
  | c :: t => if p c then let (a, b) := span p t in (c :: a, b) else ([], s)
  end.

(* \d+ : (matched, rest) *)
Definition digits1 (s : str) : option (str * str) :=
  match span is_digit s with
  | ([], _) => None
  | (d, r) => Some (d, r)
  end.

(* (?:\.\d+)* greedy; a separator not followed by a digit ends the repetition *)
Fixpoint more_components (fuel : nat) (sep : Z) (acc s : str) : str * str :=
  match fuel with
  | O => (acc, s)
  | S f =>
      match s with
      | c :: t =>
          if c =? sep then
            match digits1 t with
            | Some (d, r) => more_components f sep (acc ++ [sep] ++ d) r
            | None => (acc, s)
            end
          else (acc, s)
      | [] => (acc, s)
      end
  end.

(* (\.\d+){k} : exactly k further components *)
Fixpoint exact_components (k : nat) (sep : Z) (acc s : str) : option (str * str) :=
  match k with
  | O => Some (acc, s)
  | S k' =>
      match s with
      | c :: t =>
          if c =? sep then
            match digits1 t with
            | Some (d, r) => exact_components k' sep (acc ++ [sep] ++ d) r
            | None => None
            end
          else None
      | [] => None
      end
  end.

Definition release_part (s : str) : option (str * str) :=
  match digits1 s with
  | None => None
  | Some (d0, r0) =>
      match c34_semver_base_exact with
      | Some n => exact_components (Z.to_nat n - 1) c34_semver_base_sep d0 r0
      | None => Some (more_components (length r0) c34_semver_base_sep d0 r0)
      end
  end.

(* `$` (no MULTILINE): at the end, or before a final newline; fullmatch: only at the end *)
Definition at_end (s : str) : bool :=
  match s with
  | [] => true
  | [10] => negb c34_semver_fullmatch
  | _ => false
  end.

(* groups (base, label, num) of a successful match *)
Definition match_semver (s : str) : option (str * str * str) :=
  match release_part s with
  | None => None
  | Some (base, r1) =>
      match r1 with
      | c :: r2 =>
          if c =? c34_semver_pre_sep then
            match span is_label_char r2 with
            | ([], _) => None
            | (lab, r3) =>
                match r3 with
                | c' :: r4 =>
                    if c' =? c34_semver_num_sep then
                      match digits1 r4 with
                      | Some (num, r5) => if at_end r5 then Some (base, lab, num) else None
                      | None => None
                      end
                    else None
                | [] => None
                end
            end
          else None
      | [] => None
      end
  end.

Definition str_eqb (a b : str) : bool := if list_eq_dec Z.eq_dec a b then true else false.

Inductive s2p_result := S2P_ok (p : str) | S2P_bad_label.

Definition nth_group (g : str * str * str) (i : Z) : str :=
  match g with (a, b, c) => if i =? 1 then a else if i =? 2 then b else c end.

(* semver_to_pep440:
     match = _SEMVER_PRERELEASE_RE.match(version);  if not match: return version
     base, label, num = match.groups()
     if label not in _PEP440_LABELS: raise ValueError;  return f"{base}{label}{num}" *)
Definition semver_to_pep440 (s : str) : s2p_result :=
  match match_semver s with
  | None => S2P_ok s
  | Some g =>
      if existsb (str_eqb (snd (fst g))) c34_pep440_labels
      then S2P_ok (flat_map (nth_group g) c34_s2p_group_order)
      else S2P_bad_label
  end.

(* ---- Version(s) on the canonical spelling  digits(.digits)*((a|b|rc)digits)?  ----
   (leading zeros allowed; everything else packaging accepts is outside the model: None) *)
Definition parse_label (s : str) : option (label * str) :=
  match s with
  | 97 :: t => Some (LA, t)
  | 98 :: t => Some (LB, t)
  | 114 :: 99 :: t => Some (LRC, t)
  | _ => None
  end.

Fixpoint parse_components (fuel : nat) (acc : list N) (s : str) : list N * str :=
  match fuel with
  | O => (acc, s)
  | S f =>
      match s with
      | c :: t =>
          if c =? 46 then
            match digits1 t with
            | Some (d, r) => parse_components f (acc ++ [parse_nat d]) r
            | None => (acc, s)
            end
          else (acc, s)
      | [] => (acc, s)
      end
  end.

Definition parse_pep440 (s : str) : option version :=
  match digits1 s with
  | None => None
  | Some (d0, r0) =>
      let (rl, r1) := parse_components (length r0) [parse_nat d0] r0 in
      match r1 with
      | [] => Some (mkV rl None)
      | _ =>
          match parse_label r1 with
          | None => None
          | Some (l, r2) =>
              match digits1 r2 with
              | Some (num, []) => Some (mkV rl (Some (l, parse_nat num)))
              | _ => None
              end
          end
      end
  end.

(* pep440_to_semver on a string of the modelled spelling *)
Definition pep440_to_semver (s : str) : option str := option_map p2s (parse_pep440 s).

(* ---- packaging's ordering on the modelled domain ----
   release compared with trailing zeros insignificant, then the pre-release: a < b < rc by
   letter, then by number; a final release is greater than all its pre-releases *)
Fixpoint cmp_rel (a b : list N) {struct a} : comparison :=
  match a with
  | [] => if forallb (N.eqb 0) b then Eq else Lt
  | x :: a' =>
      match b with
      | [] => if forallb (N.eqb 0) a then Eq else Gt
      | y :: b' => match N.compare x y with Eq => cmp_rel a' b' | c => c end
      end
  end.

Definition rank (l : label) : N := match l with LA => 0 | LB => 1 | LRC => 2 end%N.

Definition cmp_pre (p q : option (label * N)) : comparison :=
  match p, q with
  | None, None => Eq
  | None, Some _ => Gt
  | Some _, None => Lt
  | Some (l, n), Some (m, k) =>
      match N.compare (rank l) (rank m) with Eq => N.compare n k | c => c end
  end.

Definition vcmp (v w : version) : comparison :=
  match cmp_rel (rel v) (rel w) with Eq => cmp_pre (pre v) (pre w) | c => c end.

(* comparison operators as extracted: 0 <, 1 <=, 2 >, 3 >=, 4 ==, 5 != *)
Definition op_holds (op : Z) (c : comparison) : bool :=
  if op =? 0 then match c with Lt => true | _ => false end
  else if op =? 1 then match c with Gt => false | _ => true end
  else if op =? 2 then match c with Gt => true | _ => false end
  else if op =? 3 then match c with Lt => false | _ => true end
  else if op =? 4 then match c with Eq => true | _ => false end
  else match c with Eq => false | _ => true end.

(* ---- detect_change_type; classes: 0 none, 1 patch, 2 minor, 3 major ---- *)
(* (v.release + (0, 0, 0))[:3] *)
Definition padded (r : list N) : list N := firstn (Z.to_nat c34_width) (r ++ map Z.to_N c34_pad).
Definition comp (r : list N) (i : Z) : N := nth (Z.to_nat i) r 0%N.

Fixpoint run_steps (steps : list (Z * Z * Z)) (c p : list N) (dflt : Z) : Z :=
  match steps with
  | [] => dflt
  | (i, op, cls) :: t =>
      if op_holds op (N.compare (comp c i) (comp p i)) then cls else run_steps t c p dflt
  end.

(* prev = None: `not previous_version` (None or "") *)
Definition detect_change_type (cur : version) (prev : option version) : Z :=
  match prev with
  | None => c34_first_release_class
  | Some p =>
      if op_holds c34_none_op (vcmp cur p) then c34_none_class
      else run_steps c34_steps (padded (rel cur)) (padded (rel p)) c34_default_class
  end.

(* ---- comparators used by the correspondence suite (0 = agreement) ---- *)
Definition str_agree (a b : str) : Z := if list_eq_dec Z.eq_dec a b then 0 else 1.
Definition s2p_agree (r : s2p_result) (raised : bool) (out : str) : Z :=
  match r with
  | S2P_bad_label => if raised then 0 else 1
  | S2P_ok p => if raised then 1 else str_agree p out
  end.
Definition ostr_agree (a : option str) (b : str) : Z :=
  match a with Some x => str_agree x b | None => 2 end.
Definition cmp_code (c : comparison) : Z := match c with Lt => -1 | Eq => 0 | Gt => 1 end.
Definition version_agree (a : option version) (r : list N) (p : option (label * N)) : Z :=
  match a with
  | None => 2
  | Some v =>
      if (if list_eq_dec N.eq_dec (rel v) r then true else false) &&
         match pre v, p with
         | None, None => true
         | Some (l, n), Some (m, k) => label_eqb l m && N.eqb n k
         | _, _ => false
         end
      then 0 else 1
  end.
