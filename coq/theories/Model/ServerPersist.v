(* M-Server (persistence half): executable model of
     llama_agents/server/_runtime/server_runtime.py   (_ServerInternalRunAdapter.write_to_event_stream,
        ServerRuntimeDecorator._retry_store_write / _handle_status_update / run_workflow_handler /
        _mark_failed_on_error)
     llama_agents/server/_runtime/idle_release_runtime.py (status writes of the idle adapters)
     llama_agents/server/_runtime/persistence_runtime.py  (on_tick persistence, context_from_ticks,
        handler_status_from_exit_command, PersistenceDecorator._on_server_start)
     llama_agents/server/_store/abstract_workflow_store.py (update_handler_status)
     workflows/runtime/control_loop.py (_ControlLoopRunner._process_tick / process_command as far as they
        decide which store writes happen and how the run ends; replay_ticks_stream)
   on top of the reducer model Model/Engine.v.  No proofs here. *)
From Coq Require Import List ZArith Bool PeanoNat.
Import ListNotations.
From WF Require Import Model.Engine.
Open Scope Z_scope.

(* ------------------------------------------------------------------------------------------ *)
(* The stored handler record (PersistentHandler, the fields the property speaks about)         *)
(* ------------------------------------------------------------------------------------------ *)
Inductive status := SRunning | SCompleted | SFailed | SCancelled.
Definition is_terminal (s : status) : bool := match s with SRunning => false | _ => true end.

(* the `error` column: which text was written *)
Inductive herror :=
| EExn (x : exn)                          (* str(exception) of the failing step (WorkflowFailedEvent / CommandFailWorkflow) *)
| ETimeoutEvent (t : Z)                   (* "Workflow timed out after {t}s"  (WorkflowTimedOutEvent) *)
| ETimeoutHalt (t : Z) (active : list Z)  (* str(WorkflowTimeoutError(...)) used by replay finalisation *)
| ECancelExc                              (* str(WorkflowCancelledByUser()) - only reachable through the watcher *)
| EStore                                  (* str(store exception) *)
| EEngine (code : Z)                      (* str(exception raised by the reducer), by Engine.res error code *)
| ENoState.                               (* "handler crashed before persisting any state; cannot resume" *)

Record hrec := { h_status : status ; h_result : option event ; h_error : option herror ; h_idle : bool }.
Definition new_handler : hrec :=
  {| h_status := SRunning ; h_result := None ; h_error := None ; h_idle := false |}.

(* AbstractWorkflowStore.update_handler_status: None arguments leave the column alone.  Both stores
   available here (memory, SQLite) execute the read-modify-write without an await point: atomic. *)
Definition upd_status (st : option status) (r : option event) (e : option herror) (idle : option bool)
  (h : hrec) : hrec :=
  {| h_status := match st with Some s => s | None => h_status h end ;
     h_result := match r with Some x => Some x | None => h_result h end ;
     h_error := match e with Some x => Some x | None => h_error h end ;
     h_idle := match idle with Some b => b | None => h_idle h end |}.

(* ------------------------------------------------------------------------------------------ *)
(* The store with injected write faults.  A fault stream lists, per write attempt of its class,  *)
(* whether the attempt raises (true); an exhausted stream means "no more faults".               *)
(* ------------------------------------------------------------------------------------------ *)
Record faults := { f_status : list bool ;   (* handler-status writes that go through / stand for handler state:
                                               initial record, terminal status, watcher, server-start finalisation *)
                   f_event : list bool ;    (* append_event *)
                   f_idle : list bool }.    (* idle_since bookkeeping writes of the idle-release adapters *)
Definition no_faults : faults := {| f_status := [] ; f_event := [] ; f_idle := [] |}.

Inductive call :=
| CallInit (ok : bool)
| CallStatus (s : status) (ok : bool)
| CallAppend (kind : Z) (ok : bool)
| CallIdle (set : bool) (ok : bool).

Record sstore := { s_rec : option hrec ; s_fl : faults ; s_trace : list call }.

Definition pop (l : list bool) : bool * list bool :=
  match l with [] => (false, []) | b :: t => (b, t) end.

Definition with_status_faults (st : sstore) (l : list bool) : faults :=
  {| f_status := l ; f_event := f_event (s_fl st) ; f_idle := f_idle (s_fl st) |}.

(* one attempt of a write of the status class: `w` is what the write does to the row when it succeeds *)
Definition attempt_status (w : option hrec -> option hrec) (c : bool -> call) (st : sstore) : sstore * bool :=
  let '(bad, l) := pop (f_status (s_fl st)) in
  if bad then ({| s_rec := s_rec st ; s_fl := with_status_faults st l ; s_trace := s_trace st ++ [c false] |}, false)
  else ({| s_rec := w (s_rec st) ; s_fl := with_status_faults st l ; s_trace := s_trace st ++ [c true] |}, true).

(* ServerRuntimeDecorator._retry_store_write with n back-off entries left: try, on failure sleep and
   retry while back-off entries remain, then re-raise (false). *)
Fixpoint retry_status (n : nat) (w : option hrec -> option hrec) (c : bool -> call) (st : sstore) : sstore * bool :=
  let '(st', ok) := attempt_status w c st in
  if ok then (st', true)
  else match n with O => (st', false) | S m => retry_status m w c st' end.

Definition append_event (kind : Z) (st : sstore) : sstore * bool :=
  let '(bad, l) := pop (f_event (s_fl st)) in
  let fl := {| f_status := f_status (s_fl st) ; f_event := l ; f_idle := f_idle (s_fl st) |} in
  ({| s_rec := s_rec st ; s_fl := fl ; s_trace := s_trace st ++ [CallAppend kind (negb bad)] |}, negb bad).

(* idle adapters: set = true: WorkflowIdleEvent seen -> update_handler_status(status="running", idle_since=now);
                  set = false: external send_event / reload -> update_handler_status(idle_since=None).  Not retried. *)
Definition idle_write (set : bool) (st : sstore) : sstore * bool :=
  let '(bad, l) := pop (f_idle (s_fl st)) in
  let fl := {| f_status := f_status (s_fl st) ; f_event := f_event (s_fl st) ; f_idle := l |} in
  let w := if set then upd_status (Some SRunning) None None (Some true)
           else upd_status None None None (Some false) in
  ({| s_rec := if bad then s_rec st else option_map w (s_rec st) ; s_fl := fl ;
      s_trace := s_trace st ++ [CallIdle set (negb bad)] |}, negb bad).

(* ------------------------------------------------------------------------------------------ *)
(* _ServerInternalRunAdapter.write_to_event_stream (not replaying) followed by the inner        *)
(* _IdleReleaseInternalRunAdapter.write_to_event_stream                                          *)
(* ------------------------------------------------------------------------------------------ *)
Inductive tkind := KCompleted (e : event) | KFailed (x : exn) | KTimedOut (t : Z) | KCancelled.

(* the isinstance chain: WorkflowFailedEvent, WorkflowTimedOutEvent, WorkflowCancelledEvent, StopEvent *)
Definition terminal_of (stops : list Z) (p : pub) : option tkind :=
  match p with
  | PFailed _ x _ _ => Some (KFailed x)
  | PTimedOut t _ => Some (KTimedOut t)
  | PCancelled => Some KCancelled
  | PEvent e => if zmem (ety e) stops then Some (KCompleted e) else None
  | _ => None
  end.
Definition k_status (k : tkind) : status :=
  match k with KCompleted _ => SCompleted | KCancelled => SCancelled | _ => SFailed end.
Definition k_write (k : tkind) : hrec -> hrec :=
  match k with
  | KCompleted e => upd_status (Some SCompleted) (Some e) None None
  | KFailed x => upd_status (Some SFailed) None (Some (EExn x)) None
  | KTimedOut t => upd_status (Some SFailed) None (Some (ETimeoutEvent t)) None
  | KCancelled => upd_status (Some SCancelled) None None None
  end.
Definition pub_kind (p : pub) : Z :=
  match p with PStep _ _ _ _ _ => 1 | PEvent _ => 2 | PUnhandled _ _ _ => 3 | PIdle => 4
             | PFailed _ _ _ _ => 5 | PTimedOut _ _ => 6 | PCancelled => 7 end.

(* returns false when an exception escapes into the control loop *)
Definition publish (bo : nat) (stops : list Z) (p : pub) (st : sstore) : sstore * bool :=
  let '(st1, ok1) := match terminal_of stops p with
                     | Some k => retry_status bo (option_map (k_write k)) (CallStatus (k_status k)) st
                     | None => (st, true)
                     end in
  if ok1 then
    let '(st2, ok2) := append_event (pub_kind p) st1 in
    if ok2 then match p with PIdle => idle_write true st2 | _ => (st2, true) end
    else (st2, false)
  else (st1, false).

(* ------------------------------------------------------------------------------------------ *)
(* _ControlLoopRunner._process_tick / process_command: how a run ends                            *)
(* ------------------------------------------------------------------------------------------ *)
Inductive outcome :=
| OCompleted (e : event)        (* control loop returned the StopEvent *)
| OFailedStep (x : exn)         (* raise command.exception  (CommandFailWorkflow) *)
| OTimedOut (t : Z) (active : list Z)   (* raise WorkflowTimeoutError (CommandHalt) *)
| OCancelled                    (* raise WorkflowCancelledByUser (CommandHalt) *)
| OIdleReleased                 (* CommandCompleteRun(IdleReleasedEvent) *)
| OStoreExc                     (* a store exception escaped from write_to_event_stream *)
| OEngineExc (code : Z).        (* _reduce_tick raised *)

Fixpoint process_cmds (bo : nat) (stops : list Z) (cs : list command) (st : sstore) : sstore * option outcome :=
  match cs with
  | [] => (st, None)
  | c :: r =>
    match c with
    | CPublish p => let '(st', ok) := publish bo stops p st in
                    if ok then process_cmds bo stops r st' else (st', Some OStoreExc)
    | CComplete e => (st, Some (OCompleted e))
    | CCompleteIdleRelease => (st, Some OIdleReleased)
    | CFail _ x => (st, Some (OFailedStep x))
    | CHalt HCancelled => (st, Some OCancelled)
    | CHalt (HTimeout t a) => (st, Some (OTimedOut t a))
    | _ => process_cmds bo stops r st
    end
  end.

Definition run_tick (bo : nat) (stops : list Z) (r : res (list command)) (st : sstore) : sstore * option outcome :=
  match r with Err c => (st, Some (OEngineExc c)) | Ok cs => process_cmds bo stops cs st end.

(* _IdleReleaseInternalRunAdapter.on_tick (repaired behaviour, commit 256c25e): a run that announced idle and
   then processes another tick (not the idle check itself) clears idle_since first; a failing write is logged
   and swallowed.  `marked` is the adapter's _marked_idle flag.  on_tick is only reached when the reducer did
   not raise. *)
Definition on_tick_clear (marked ic : bool) (r : res (list command)) (st : sstore) : sstore * bool :=
  match r with
  | Ok _ => if marked && negb ic then (fst (idle_write false st), false) else (st, marked)
  | Err _ => (st, marked)
  end.
Definition is_pidle (c : command) : bool := match c with CPublish PIdle => true | _ => false end.
Definition marks (r : res (list command)) : bool :=
  match r with Ok cs => existsb is_pidle cs | Err _ => false end.

(* a tick as the server sees it: is it the TickIdleCheck, and what the reducer made of it *)
Definition stick := (bool * res (list command))%type.

Definition run_tick_m (bo : nat) (stops : list Z) (marked : bool) (tk : stick) (st : sstore)
  : sstore * bool * option outcome :=
  let '(st1, m1) := on_tick_clear marked (fst tk) (snd tk) st in
  let '(st2, o) := run_tick bo stops (snd tk) st1 in
  (st2, m1 || marks (snd tk), o).

Fixpoint run_ticks (bo : nat) (stops : list Z) (marked : bool) (rs : list stick) (st : sstore)
  : sstore * option outcome :=
  match rs with
  | [] => (st, None)
  | tk :: t => match run_tick_m bo stops marked tk st with
               | (st', _, Some o) => (st', Some o)
               | (st', m', None) => run_ticks bo stops m' t st'
               end
  end.

(* how the run task ended, as the service sees it *)
Definition raised (o : outcome) : option herror :=
  match o with
  | OCompleted _ | OIdleReleased => None
  | OFailedStep x => Some (EExn x)
  | OTimedOut t a => Some (ETimeoutHalt t a)
  | OCancelled => Some ECancelExc
  | OStoreExc => Some EStore
  | OEngineExc c => Some (EEngine c)
  end.

Definition rec_status (st : sstore) : option status := option_map h_status (s_rec st).

(* ServerRuntimeDecorator._mark_failed_on_error (awaits the run; repaired behaviour, commit d492824) *)
Definition watcher (bo : nat) (o : outcome) (st : sstore) : sstore :=
  match raised o with
  | None => st
  | Some err =>
    match rec_status st with
    | Some SRunning =>
      fst (retry_status bo (option_map (upd_status (Some SFailed) None (Some err) None)) (CallStatus SFailed) st)
    | _ => st
    end
  end.

(* the unrepaired service: nobody looks at how the run task ended *)
Definition watcher_absent (o : outcome) (st : sstore) : sstore := st.

Definition finish_run (bo : nat) (r : sstore * option outcome) : sstore * option outcome :=
  match r with (st, Some o) => (watcher bo o st, Some o) | (st, None) => (st, None) end.

(* one whole run on a fresh handler: run_workflow_handler (initial record, retried) then the ticks *)
Definition start_handler (bo : nat) (st : sstore) : sstore * bool :=
  retry_status bo (fun _ => Some new_handler) CallInit st.

Definition server_run (bo : nat) (stops : list Z) (rs : list stick) (st : sstore)
  : sstore * option outcome :=
  let '(st0, ok) := start_handler bo st in
  if ok then finish_run bo (run_ticks bo stops false rs st0) else (st0, None).

(* which status the property demands for an ended run *)
Definition demanded (o : outcome) : option status :=
  match o with
  | OCompleted _ => Some SCompleted
  | OFailedStep _ | OTimedOut _ _ | OStoreExc | OEngineExc _ => Some SFailed
  | OCancelled => Some SCancelled
  | OIdleReleased => None            (* not an end of the run: it can be reloaded *)
  end.

(* ------------------------------------------------------------------------------------------ *)
(* Shape of the command lists the reducer hands to process_command                              *)
(* ------------------------------------------------------------------------------------------ *)
Inductive exit_of : tkind -> command -> Prop :=
| XComplete e : exit_of (KCompleted e) (CComplete e)
| XFail s x : exit_of (KFailed x) (CFail s x)
| XTimeout t a : exit_of (KTimedOut t) (CHalt (HTimeout t a))
| XCancel : exit_of KCancelled (CHalt HCancelled).

Definition ends_run (c : command) : bool :=
  match c with CHalt _ | CComplete _ | CFail _ _ => true | _ => false end.

(* every terminal publish is immediately followed by its own exit command, and no exit command
   (idle release aside) comes without one *)
Fixpoint cmds_wf (stops : list Z) (pending : option tkind) (l : list command) : Prop :=
  match l with
  | [] => pending = None
  | c :: rest =>
    match pending with
    | Some k => exit_of k c /\ cmds_wf stops None rest
    | None =>
      match c with
      | CPublish p => cmds_wf stops (terminal_of stops p) rest
      | _ => ends_run c = false /\ cmds_wf stops None rest
      end
    end
  end.

Definition tick_wf (stops : list Z) (tk : stick) : Prop :=
  match snd tk with Err _ => True | Ok cs => cmds_wf stops None cs end.

(* ticks whose user-supplied events are not themselves StopEvents: a step that puts a StopEvent on the
   stream by hand (ctx.write_event_to_stream / waiter_event) is outside the property's domain *)
Definition result_clean (stops : list Z) (r : result) : bool :=
  match r with RAddWaiter _ (Some e) _ _ _ => negb (zmem (ety e) stops) | _ => true end.
Definition tick_clean (stops : list Z) (t : tick) : bool :=
  match t with
  | TPublish e => negb (zmem (ety e) stops)
  | TStep _ _ _ rs => forallb (result_clean stops) rs
  | _ => true
  end.

(* ------------------------------------------------------------------------------------------ *)
(* The life of one handler across idle release, reload and server restarts                      *)
(* ------------------------------------------------------------------------------------------ *)
Inductive phase := PhNone      (* no control loop: not started, released, server stopped or crashed *)
                 | PhActive    (* a control loop is running for this run id *)
                 | PhEnded.    (* the run task has finished in this process *)
Record sys := { y_store : sstore ; y_phase : phase ; y_marked : bool (* _marked_idle of the live adapter *) }.

(* what context_from_ticks found *)
Inductive replayed := RNone | RErr (code : Z) | RExit (c : option command).

(* persistence_runtime.handler_status_from_exit_command *)
Definition finalize_of (c : command) : option (status * option event * option herror) :=
  match c with
  | CComplete e => Some (SCompleted, Some e, None)
  | CFail _ x => Some (SFailed, None, Some (EExn x))
  | CHalt HCancelled => Some (SCancelled, None, None)
  | CHalt (HTimeout t a) => Some (SFailed, None, Some (ETimeoutHalt t a))
  | _ => None
  end.

Inductive sop :=
| OpStart                          (* _WorkflowService.start_workflow for a fresh run id *)
| OpTick (tk : stick)              (* one tick of the active control loop *)
| OpSend                           (* _WorkflowService.send_event / cancel_handler -> adapter.send_event *)
| OpRelease                        (* idle release, server stop or crash: the loop is aborted *)
| OpServerStart (r : replayed).    (* PersistenceDecorator._on_server_start reaches this handler *)

(* the unretried store.update_handler_status calls of _on_server_start: first the intended write, and when it
   raises, the except branch tries status="failed", error=str(e) once more *)
Definition start_write (s : status) (r : option event) (e : option herror) (st : sstore) : sstore :=
  let '(st1, ok) := attempt_status (option_map (upd_status (Some s) r e None)) (CallStatus s) st in
  if ok then st1
  else fst (attempt_status (option_map (upd_status (Some SFailed) None (Some EStore) None)) (CallStatus SFailed) st1).

Definition mk_sys (st : sstore) (ph : phase) (m : bool) : sys := {| y_store := st ; y_phase := ph ; y_marked := m |}.

Definition step_op (bo : nat) (stops : list Z) (o : sop) (y : sys) : sys :=
  let st := y_store y in
  match o with
  | OpStart =>
    match s_rec st, y_phase y with
    | None, PhNone => let '(st', ok) := start_handler bo st in
                      mk_sys st' (if ok then PhActive else PhNone) false
    | _, _ => y
    end
  | OpTick tk =>
    match y_phase y with
    | PhActive =>
      match run_tick_m bo stops (y_marked y) tk st with
      | (st', m', Some OIdleReleased) => mk_sys st' PhNone m'
      | (st', m', Some oc) => mk_sys (watcher bo oc st') PhEnded m'
      | (st', m', None) => mk_sys st' PhActive m'
      end
    | _ => y
    end
  | OpSend =>
    match rec_status st with
    | Some SRunning =>                 (* resolve_handler: terminal -> HandlerCompletedError, absent -> not found *)
      match y_phase y with
      | PhNone => mk_sys (fst (idle_write false st)) PhActive false   (* reload (fresh adapter), then idle_since=None *)
      | ph => mk_sys (fst (idle_write false st)) ph (y_marked y)
      end
    | _ => y
    end
  | OpRelease =>
    match y_phase y with PhActive => mk_sys st PhNone (y_marked y) | _ => y end
  | OpServerStart r =>
    match y_phase y, s_rec st with
    | PhActive, _ => y                                  (* run_id in _active_run_ids: skipped *)
    | ph, Some h =>
      if is_terminal (h_status h) || h_idle h then y    (* query: status running, not idle *)
      else match r with
           | RNone => mk_sys (start_write SFailed None (Some ENoState) st) ph (y_marked y)
           | RErr c => mk_sys (fst (attempt_status (option_map (upd_status (Some SFailed) None (Some (EEngine c)) None))
                                                   (CallStatus SFailed) st)) ph (y_marked y)
           | RExit (Some c) =>
             match finalize_of c with
             | Some (s, res, e) => mk_sys (start_write s res e st) ph (y_marked y)
             | None => mk_sys st PhActive false
             end
           | RExit None => mk_sys st PhActive false
           end
    | _, None => y
    end
  end.

Definition run_sops (bo : nat) (stops : list Z) (ops : list sop) (y : sys) : sys :=
  fold_left (fun y o => step_op bo stops o y) ops y.

Definition sys0 (fl : faults) : sys :=
  {| y_store := {| s_rec := None ; s_fl := fl ; s_trace := [] |} ; y_phase := PhNone ; y_marked := false |}.

Definition op_wf (stops : list Z) (o : sop) : Prop :=
  match o with OpTick tk => tick_wf stops tk | _ => True end.

(* fault streams in which no more than `bo` attempts in a row fail (k = failures already seen in the current row) *)
Fixpoint tolerable (bo k : nat) (l : list bool) : bool :=
  match l with
  | [] => true
  | true :: t => Nat.ltb k bo && tolerable bo (S k) t
  | false :: t => tolerable bo 0 t
  end.

(* ------------------------------------------------------------------------------------------ *)
(* Tick persistence, crash, replay and resume (C13)                                             *)
(* ------------------------------------------------------------------------------------------ *)
(* control_loop.replay_ticks_stream: rewind, fold the reducer, keep the LAST exit-indicating command *)
Definition last_exit (cs : list command) (cur : option command) : option command :=
  fold_left (fun acc c => if is_exit c then Some c else acc) cs cur.

Fixpoint replay_fold (P : policy) (s : state) (ts : list tick) (now : Z) (ex : option command)
  : res (state * option command) :=
  match ts with
  | [] => Ok (s, ex)
  | t :: r => match reduce P t s now with
              | Err c => Err c
              | Ok (s', cs) => replay_fold P s' r now (last_exit cs ex)
              end
  end.
Definition replay (P : policy) (base : state) (ts : list tick) (now : Z) : res (state * option command) :=
  match rewind base now with Err c => Err c | Ok (s, _) => replay_fold P s ts now None end.

(* TickPersistenceDecorator.context_from_ticks: from_workflow, replay, to_serialized, Context.from_dict;
   the resumed run then starts from BrokerState.from_serialized of that context *)
Definition context_from_ticks (P : policy) (base : state) (ts : list tick) (now : Z) : replayed * option state :=
  match ts with
  | [] => (RNone, None)
  | _ => match replay P (blank_state base) ts now with
         | Err c => (RErr c, None)
         | Ok (s, ex) => (RExit ex, Some (from_ser base (to_ser s)))
         end
  end.

(* what _ControlLoopRunner does first with a resumed state: buffer the rehydration ticks, rewind in-progress work *)
Definition resume_boot (r : state) (now : Z) : res (state * list command * list tick) :=
  match rewind r now with Err c => Err c | Ok (r', cs) => Ok (r', cs, rehydrate_ticks r) end.

(* process_command for the commands that only create further ticks: what lands in tick_buffer at once ... *)
Definition is_idlecheck (t : tick) : bool := match t with TIdleCheck => true | _ => false end.
Definition buffered (buf : list tick) (c : command) : list tick :=
  match c with
  | CQueue a target None => [TAdd a target]
  | CQueue a target (Some d) => if 0 <? d then [] else [TAdd a target]
  | CSchedIdle => if existsb is_idlecheck buf then [] else [TIdleCheck]
  | _ => []
  end.
(* ... and what is parked in scheduled_wakeups *)
Definition scheduled (c : command) : list tick :=
  match c with
  | CQueue a target (Some d) => if 0 <? d then [TAdd a target] else []
  | CSchedWaiterTimeout st w _ => [TWaiterTimeout st w]
  | _ => []
  end.
Definition buffer_cmds (buf : list tick) (cs : list command) : list tick :=
  fold_left (fun b c => b ++ buffered b c) cs buf.

(* Follow a persisted log the way the runner produced it: a tick is taken from the head of tick_buffer when
   the buffer is not empty, otherwise it came from outside (worker result, mailbox, due timer).  Returns the
   engine state and the tick_buffer content that only exists in memory at that point. *)
Fixpoint follow (P : policy) (s : state) (buf : list tick) (log : list (tick * Z)) : res (state * list tick) :=
  match log with
  | [] => Ok (s, buf)
  | (t, now) :: r =>
    match reduce P t s now with
    | Err c => Err c
    | Ok (s', cs) => follow P s' (buffer_cmds (tl buf) cs) r
    end
  end.

(* the work a configuration holds, per step: inputs being executed, then inputs queued *)
Definition held (w : wstate) : list event := map i_ev (inprogress w) ++ map a_ev (queue w).
Definition buffered_adds (buf : list tick) : list event :=
  flat_map (fun t => match t with TAdd a _ => [a_ev a] | _ => [] end) buf.
