(* Model/IterUtils.v — executable model of llama_agents/core/iter_utils.py:
   merge_generators (one pending `anext` task per source, asyncio.wait(FIRST_COMPLETED), batch
   handling, yield + re-arm, stop_on_first_completion, error path) and debounced_sorted_prefix
   (consumer of merge_generators(inner, debouncer.aiter())).

   Cooperative-task semantics as in Base/SchedKL.v: the scheduler decides
     CFinish i    the pending `anext` task of source i completes (with the source's next item, with
                  StopAsyncIteration, or with the source's error)
     CWake order  merge_generators resumes from asyncio.wait: `done` = ALL tasks finished by now;
                  asyncio.wait returns a *set*, so the order in which they are handled is the
                  scheduler's ([order]: the finished sources named first, then the others by index)
     CNext        the consumer asks for the next item (merge resumes after its `yield`)
   No proofs in this file. *)
From Coq Require Import List Bool Arith ZArith Lia.
Import ListNotations.
From WF Require Import Base.SchedKL.

Inductive res := RItem (v : Z) | RStop | RErr (e : Z).
Inductive tstate := TNone | TRunning | TFinished (r : res).
Inductive phase := PWait | PYield (cur : nat) (rest : list (nat * Z)) | PEnd.

(* a source: the items it will still produce and how it ends (None: normally, Some e: raises e) *)
Record src := mkSrc { s_items : list Z; s_end : option Z }.

Record mst := mkM {
  m_srcs : list src;           (* what every source has still to produce *)
  m_active : list bool;        (* index in active_generators *)
  m_tasks : list tstate;       (* next_item_tasks (TNone: no entry) *)
  m_phase : phase;
  m_exc : option Z;            (* exception_to_raise *)
  m_stopped : bool;            (* stopped_on_first_completion *)
  m_out : list (nat * Z)       (* yielded so far, tagged with the source index *)
}.

Inductive mchoice := CFinish (i : nat) | CWake (order : list nat) | CNext.

Definition minit (srcs : list src) : mst :=
  mkM srcs (map (fun _ => true) srcs) (map (fun _ => TRunning) srcs)
      (match srcs with [] => PEnd | _ => PWait end) None false [].

Definition src_dflt := mkSrc [] None.
Definition task_of_src (s : mst) i := nth i (m_tasks s) TNone.

Definition set_tasks (s : mst) ts := mkM (m_srcs s) (m_active s) ts (m_phase s) (m_exc s) (m_stopped s) (m_out s).
Definition set_phase (s : mst) p := mkM (m_srcs s) (m_active s) (m_tasks s) p (m_exc s) (m_stopped s) (m_out s).

(* the pending task of source i completes *)
Definition finish (s : mst) (i : nat) : mst :=
  match task_of_src s i with
  | TRunning =>
      let sr := nth i (m_srcs s) src_dflt in
      match s_items sr with
      | v :: r =>
          mkM (upd i (mkSrc r (s_end sr)) (m_srcs s)) (m_active s) (upd i (TFinished (RItem v)) (m_tasks s))
              (m_phase s) (m_exc s) (m_stopped s) (m_out s)
      | [] =>
          match s_end sr with
          | None => set_tasks s (upd i (TFinished RStop) (m_tasks s))
          | Some e => mkM (upd i (mkSrc [] None) (m_srcs s)) (m_active s) (upd i (TFinished (RErr e)) (m_tasks s))
                          (m_phase s) (m_exc s) (m_stopped s) (m_out s)
          end
      end
  | _ => s
  end.

Definition is_finished (t : tstate) : bool := match t with TFinished _ => true | _ => false end.

(* iteration order of the `done` set: first the finished sources named in [order] (once each),
   then the other finished ones by index *)
Definition done_order (s : mst) (order : list nat) : list nat :=
  let fin i := is_finished (task_of_src s i) in
  let named := nodup Nat.eq_dec (filter fin order) in
  named ++ filter (fun i => fin i && negb (existsb (Nat.eqb i) named)) (seq 0 (length (m_tasks s))).

(* `for finished in done:` — returns (state, completed_results) *)
Fixpoint handle (stop_mode : bool) (s : mst) (idxs : list nat) (completed : list (nat * Z)) : mst * list (nat * Z) :=
  match idxs with
  | [] => (s, completed)
  | i :: r =>
      match task_of_src s i with
      | TFinished RStop =>
          if stop_mode
          then (mkM (m_srcs s) (m_active s) (m_tasks s) (m_phase s) (m_exc s) true (m_out s), completed)
          else handle stop_mode
                 (mkM (m_srcs s) (upd i false (m_active s)) (upd i TNone (m_tasks s)) (m_phase s) (m_exc s)
                      (m_stopped s) (m_out s)) r completed
      | TFinished (RErr e) =>
          (mkM (m_srcs s) (m_active s) (m_tasks s) (m_phase s) (Some e) (m_stopped s) (m_out s), completed)
      | TFinished (RItem v) => handle stop_mode s r (completed ++ [(i, v)])
      | _ => handle stop_mode s r completed
      end
  end.

Definition has_task (s : mst) : bool := existsb (fun t => match t with TNone => false | _ => true end) (m_tasks s).

(* `while next_item_tasks and exception_to_raise is None` / finally *)
Definition loop_check (s : mst) : mst :=
  if has_task s && match m_exc s with None => true | Some _ => false end && negb (m_stopped s)
  then set_phase s PWait else set_phase s PEnd.

(* pop the task of the next completed result and yield it *)
Definition yield_next (s : mst) (completed : list (nat * Z)) : mst :=
  match completed with
  | [] => loop_check s
  | (i, v) :: rest =>
      mkM (m_srcs s) (m_active s) (upd i TNone (m_tasks s)) (PYield i rest) (m_exc s) (m_stopped s)
          (m_out s ++ [(i, v)])
  end.

Definition wake (stop_mode : bool) (s : mst) (order : list nat) : mst :=
  match m_phase s with
  | PWait =>
      match done_order s order with
      | [] => s                                   (* asyncio.wait keeps waiting *)
      | idxs =>
          let '(s1, completed) := handle stop_mode s idxs [] in
          if m_stopped s1 then set_phase s1 PEnd else yield_next s1 completed
      end
  | _ => s
  end.

Definition next (s : mst) : mst :=
  match m_phase s with
  | PYield i rest =>
      let s1 := if nth i (m_active s) false then set_tasks s (upd i TRunning (m_tasks s)) else s in
      yield_next s1 rest
  | _ => s
  end.

Definition mstep (stop_mode : bool) (s : mst) (c : mchoice) : mst :=
  match c with
  | CFinish i => finish s i
  | CWake order => wake stop_mode s order
  | CNext => next s
  end.

Definition mexec (stop_mode : bool) (s : mst) (sched : list mchoice) : mst := fold_left (mstep stop_mode) sched s.

Definition proj (i : nat) (out : list (nat * Z)) : list Z := map snd (filter (fun p => fst p =? i) out).

(* ---------- debounced_sorted_prefix: the consumer of merge_generators(inner, debouncer.aiter()) ----------
   source 0 = inner, source 1 = the debouncer's stream (one "__COMPLETE__", then it ends).
   [flag_fix = true]: the code after the repair (a local `flushed` flag decides between buffering and
   passing through); [flag_fix = false]: the original code asked `debouncer.is_complete`, which
   becomes true when the window ends ([sig] = its value when the element is consumed), i.e. before
   "__COMPLETE__" has been consumed. *)
Section SortedPrefix.
  Variable kf : Z -> Z.             (* key= *)

  (* list.sort(key=...) is stable: insertion sort that keeps equal keys in order *)
  Fixpoint insert_by (x : Z) (l : list Z) : list Z :=
    match l with
    | [] => [x]
    | y :: r => if (kf x <? kf y)%Z then x :: y :: r else y :: insert_by x r
    end.
  Definition sort_by (l : list Z) : list Z := fold_left (fun acc x => insert_by x acc) l [].

  (* stream elements: (source index, value, is_complete when consumed) *)
  Fixpoint consume (flag_fix : bool) (flushed : bool) (buf : list Z) (stream : list (nat * Z * bool)) : list Z :=
    match stream with
    | [] => []
    | (i, v, sig) :: r =>
        if i =? 1
        then sort_by buf ++ consume flag_fix true [] r
        else if (if flag_fix then flushed else sig)
             then v :: consume flag_fix flushed buf r
             else consume flag_fix flushed (buf ++ [v]) r
    end.
End SortedPrefix.

Definition complete_marker : Z := (-1)%Z.

(* the repaired code does not look at the signal: annotate with anything *)
Definition dsp_output (kf : Z -> Z) (merged : list (nat * Z)) : list Z :=
  consume kf true false [] (map (fun p => (fst p, snd p, false)) merged).

Definition dsp_run (kf : Z -> Z) (inner : src) (sched : list mchoice) : mst :=
  mexec false (minit [inner; mkSrc [complete_marker] None]) sched.

(* ---------- canonical encoding for the correspondence suite (harness/suites/iterutils.py) ---------- *)
Local Open Scope Z_scope.
Definition enc_res (r : res) : list Z :=
  match r with RItem v => [2; v] | RStop => [3; 0] | RErr e => [4; e] end.
Definition enc_tstate (t : tstate) : list Z :=
  match t with TNone => [0; 0] | TRunning => [1; 0] | TFinished r => enc_res r end.
Definition zb (b : bool) : Z := if b then 1 else 0.
(* after the generator has finished its frame is gone: only the outcome is observable *)
Definition enc_m (s : mst) : list Z :=
  (match m_phase s with
   | PEnd => [2]
   | ph => flat_map enc_tstate (m_tasks s) ++ [-7] ++ map zb (m_active s) ++ [-7]
           ++ (match ph with PYield i rest => [1; Z.of_nat i; Z.of_nat (length rest)] | _ => [0] end)
           ++ [-7; zb (m_stopped s)]
   end)
  ++ [-7; match m_exc s with None => -1 | Some e => e end; -7]
  ++ flat_map (fun p => [Z.of_nat (fst p); snd p]) (m_out s).

(* choices: [0; i] finish, [1; i1; ...; ik] wake with order, [2] next,
   [3; i1; ...; ik] wake followed at once by the consumer's requests (eager consumer) *)
Definition dec_mchoice (l : list Z) : list mchoice :=
  match l with
  | 0 :: i :: _ => [CFinish (Z.to_nat i)]
  | 1 :: r => [CWake (map Z.to_nat r)]
  | 3 :: r => CWake (map Z.to_nat r) :: repeat CNext (length r)
  | _ => [CNext]
  end.
Definition mk_src (items : list Z) (e : Z) : src := mkSrc items (if e <? 0 then None else Some e).

Fixpoint zlist_eqb (a b : list Z) : bool :=
  match a, b with
  | [], [] => true
  | x :: a', y :: b' => (x =? y) && zlist_eqb a' b'
  | _, _ => false
  end.

(* segments: (choices since the previous observation, observation); 0 = all equal *)
Fixpoint mcheck_segs (stop_mode : bool) (s : mst) (segs : list (list (list Z) * list Z)) (n : Z) : Z :=
  match segs with
  | [] => 0
  | (cs, o) :: r =>
      let s' := mexec stop_mode s (flat_map dec_mchoice cs) in
      if zlist_eqb (enc_m s') o then mcheck_segs stop_mode s' r (n + 1) else n
  end.
Definition mcheck (stop_mode : bool) (srcs : list (list Z * Z)) (segs : list (list (list Z) * list Z)) : Z :=
  mcheck_segs stop_mode (minit (map (fun p => mk_src (fst p) (snd p)) srcs)) segs 1.

(* debounced_sorted_prefix: schedule observed on the real run, expected yielded list *)
Definition dsp_check (keys : list (Z * Z)) (inner : list Z) (e : Z) (sched : list (list Z)) (out : list Z) (finished : bool) : Z :=
  let kf := fun v => match find (fun p => fst p =? v) keys with Some p => snd p | None => 0 end in
  let s := dsp_run kf (mk_src inner e) (flat_map dec_mchoice sched) in
  if negb (zlist_eqb (dsp_output kf (m_out s)) out) then 1
  else if negb (Bool.eqb finished match m_phase s with PEnd => true | _ => false end) then 2
  else 0.
