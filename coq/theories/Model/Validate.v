(* M-Validate: executable model of workflows/representation/validate.py
   (_validate_workflow and everything it calls except the resource checks).  No proofs in this file.

   Abstraction.  A Python event class is a type id `ty` (Z); the only facts the code asks about a
   class are identity and the five `issubclass` tests against StartEvent / StopEvent /
   InputRequiredEvent / HumanResponseEvent / StepFailedEvent, so the class universe is a function
   `U : ty -> kinds` giving those five answers (multiple inheritance = several flags set).
   `type(None)` in a step's return_types is ignored by every check of the code (it is skipped
   explicitly or fails every issubclass test), so the encoder drops it from `s_ret`.
   `steps` is a dict: step names are distinct (hypothesis NoDup (map s_name g) in the theorems);
   dict/set iteration order is not observable in the compared outcome except where the model
   keeps the code's order (list of stop-consuming steps, first handler with a bad max_recoveries). *)
From Coq Require Import List ZArith Bool.
Import ListNotations.
Open Scope Z_scope.

Definition ty := Z.
Record kinds := { k_start : bool; k_stop : bool; k_ir : bool; k_hr : bool; k_sf : bool }.

(* one StepConfig (name is the dict key) *)
Record stepc := {
  s_name : Z;
  s_acc : list ty;               (* accepted_events *)
  s_ret : list ty;               (* return_types without type(None) *)
  s_handler : bool;              (* role == "catch_error" *)
  s_for : option (list Z);       (* catch_error_for_steps; None = wildcard *)
  s_maxrec : option Z;           (* catch_error_max_recoveries; None = not an int *)
  s_skip_reach : bool;           (* "reachability" in cfg.skip_graph_checks *)
  s_skip_dead : bool             (* "dead_end" in cfg.skip_graph_checks *)
}.
Definition graph := list stepc.

(* workflow-level skip_graph_checks *)
Record skips := { sk_reach : bool; sk_term : bool; sk_dead : bool }.

Definition zmem (k : Z) (l : list Z) : bool := existsb (Z.eqb k) l.

(* set(...) of a list: first occurrences *)
Fixpoint dedup (l : list Z) : list Z :=
  match l with
  | [] => []
  | x :: t => if zmem x t then dedup t else x :: dedup t
  end.

(* ---------- graph nodes ---------- *)
Inductive node := NS (n : Z) | NE (t : ty).
Definition node_eqb (a b : node) : bool :=
  match a, b with
  | NS x, NS y => Z.eqb x y
  | NE x, NE y => Z.eqb x y
  | _, _ => false
  end.
Definition nmem (n : node) (l : list node) : bool := existsb (node_eqb n) l.
Definition edge := (node * node)%type.
Definition succs (E : list edge) (n : node) : list node :=
  map snd (filter (fun e => node_eqb (fst e) n) E).
Definition swap (e : edge) : edge := (snd e, fst e).

(* _dfs: explicit stack (head = top = Python's list end), visited set, fuel for the while loop.
   None = out of fuel (excluded by ValidateProofs.dfs_fuel_enough). *)
Fixpoint dfs (fuel : nat) (E : list edge) (stack visited : list node) : option (list node) :=
  match fuel with
  | O => None
  | S f =>
    match stack with
    | [] => Some visited
    | n :: rest =>
      if nmem n visited then dfs f E rest visited
      else
        let v' := n :: visited in
        dfs f E (rev (filter (fun t => negb (nmem t v')) (succs E n)) ++ rest) v'
    end
  end.
Definition dfs_fuel (E : list edge) (seeds : list node) : nat := S (length seeds + length E).
Definition run_dfs (E : list edge) (seeds : list node) : option (list node) :=
  dfs (dfs_fuel E seeds) E (rev seeds) [].

Section WithUniverse.
Variable U : ty -> kinds.

Definition is_start t := k_start (U t).
Definition is_stop t := k_stop (U t).
Definition is_ir t := k_ir (U t).
Definition is_hr t := k_hr (U t).
Definition is_sf t := k_sf (U t).
Definition is_output t := is_stop t || is_ir t.              (* issubclass(t,(StopEvent,InputRequiredEvent)) *)
Definition boundary3 t := is_ir t || is_hr t || is_stop t.
Definition boundary4 t := is_ir t || is_hr t || is_stop t || is_sf t.

Definition consumed (g : graph) : list ty := flat_map s_acc g.
Definition returned (g : graph) : list ty := flat_map s_ret g.

(* _ensure_start_event_class / _ensure_stop_event_class *)
Inductive uniq := UNone | UMany | UOne (t : ty).
Definition uniq_of (l : list ty) : uniq :=
  match dedup l with [] => UNone | [t] => UOne t | _ => UMany end.
Definition ensure_start (g : graph) : uniq := uniq_of (filter is_start (consumed g)).
Definition ensure_stop (g : graph) : uniq := uniq_of (filter is_stop (returned g)).

(* _validate_event_connectivity *)
Definition produced (g : graph) (s : ty) : list ty := s :: returned g.
Definition stop_consumers (g : graph) : list Z :=
  map s_name (filter (fun st => existsb is_stop (s_acc st)) g).
Definition unproduced (g : graph) (s : ty) : list ty :=
  filter (fun t => negb (zmem t (produced g s)) && negb (boundary4 t)) (consumed g).
Definition unconsumed (g : graph) (s : ty) : list ty :=
  filter (fun t => negb (zmem t (consumed g)) && negb (boundary3 t)) (produced g s).
(* the returned flag, as repaired by the fix: commit (issubclass tests) *)
Definition uses_hitl (g : graph) (s : ty) : bool :=
  existsb is_ir (produced g s) || existsb is_hr (consumed g).

(* the flag as the code computed it before the fix (exact-class `in` tests against the two root
   classes `ir_root`, `hr_root`); kept only to state the refutation that motivated the repair *)
Definition uses_hitl_exact (ir_root hr_root : ty) (g : graph) (s : ty) : bool :=
  zmem ir_root (produced g s) || zmem hr_root (consumed g).

(* _collect_catch_error_handlers / validate_catch_error_handlers *)
Definition handlers (g : graph) : list stepc := filter s_handler g.
Definition bad_maxrec (h : stepc) : bool :=
  match s_maxrec h with Some m => m <? 1 | None => true end.
Definition first_bad_maxrec (g : graph) : option Z :=
  match filter bad_maxrec (handlers g) with [] => None | h :: _ => Some (s_name h) end.
Definition wildcards (g : graph) : list stepc :=
  filter (fun h => match s_for h with None => true | Some _ => false end) (handlers g).
(* the nested `for handler … for target in handler.for_steps` loop, flattened *)
Definition claims (g : graph) : list (Z * Z) :=
  flat_map (fun h => match s_for h with
                     | Some fs => map (fun t => (s_name h, t)) fs
                     | None => [] end) (handlers g).
Inductive herr :=
| HWild (n : Z)                 (* more than one wildcard handler *)
| HUnknown (h t : Z)            (* unknown step in for_steps *)
| HCover (h t : Z)              (* covers a handler step *)
| HTwice (t owner h : Z).       (* claimed twice *)
Fixpoint lookup (k : Z) (m : list (Z * Z)) : option Z :=
  match m with [] => None | (k', v) :: r => if Z.eqb k k' then Some v else lookup k r end.
Fixpoint check_claims (names hnames : list Z) (cl : list (Z * Z)) (owner : list (Z * Z)) : list herr :=
  match cl with
  | [] => []
  | (h, t) :: r =>
    if negb (zmem t names) then HUnknown h t :: check_claims names hnames r owner
    else if zmem t hnames then HCover h t :: check_claims names hnames r owner
    else match lookup t owner with
         | Some o => HTwice t o h :: check_claims names hnames r owner
         | None => check_claims names hnames r ((t, h) :: owner)
         end
  end.
Definition handler_errors (g : graph) : list herr :=
  (if (1 <? Z.of_nat (length (wildcards g))) then [HWild (Z.of_nat (length (wildcards g)))] else [])
  ++ check_claims (map s_name g) (map s_name (handlers g)) (claims g) [].
(* handler_for_step: scoped claims, then the wildcard fills every unclaimed non-handler step *)
Definition route (g : graph) : list (Z * Z) :=
  let scoped := map (fun c => (snd c, fst c)) (claims g) in
  match wildcards g with
  | [] => scoped
  | w :: _ =>
    scoped ++ map (fun n => (n, s_name w))
      (filter (fun n => negb (zmem n (map s_name (handlers g))) && negb (zmem n (map fst scoped)))
              (map s_name g))
  end.

(* build_step_graph *)
Definition edges (g : graph) : list edge :=
  flat_map (fun st => map (fun t => (NE t, NS (s_name st))) (s_acc st)
                      ++ map (fun t => (NS (s_name st), NE t)) (s_ret st)) g.
Definition event_types (g : graph) : list ty := flat_map (fun st => s_acc st ++ s_ret st) g.
Definition fwd_seeds (g : graph) (s : ty) : list node :=
  NE s :: map NE (filter is_hr (event_types g)) ++ map NS (map s_name (handlers g)).
Definition out_seeds (g : graph) : list node := map NE (filter is_output (event_types g)).
Definition forward_reachable (g : graph) (s : ty) : option (list node) :=
  run_dfs (edges g) (fwd_seeds g s).
Definition reverse_reachable (g : graph) : option (list node) :=
  run_dfs (map swap (edges g)) (out_seeds g).

(* validate_graph: the three checks (offenders; empty list = check passes or is skipped) *)
Definition unreachable (g : graph) (sk : skips) (fwd : list node) : list Z :=
  if sk_reach sk then []
  else map s_name (filter (fun st => negb (s_skip_reach st) && negb (nmem (NS (s_name st)) fwd)) g).
Definition dangling (g : graph) (sk : skips) : list ty :=
  if sk_term sk then []
  else filter (fun t => negb (zmem t (consumed g)) && negb (is_output t)) (event_types g).
Definition dead_ends (g : graph) (sk : skips) (rv : list node) : list Z :=
  if sk_dead sk then []
  else map s_name (filter (fun st => match s_ret st with [] => false | _ => true end
                                     && negb (s_skip_dead st) && negb (nmem (NS (s_name st)) rv)) g).

Inductive reject :=
| RNoSteps | RStart0 | RStartMany | RStop0 | RStopMany
| RStopConsumer (l : list Z) | RUnproduced (l : list ty) | RUnconsumed (l : list ty)
| RMaxRec (h : Z) | RHandlers (l : list herr)
| RGraph (unreach : list Z) (dang : list ty) (dead : list Z)
| ROutOfFuel.
Record accepted := { a_start : ty; a_stop : ty; a_handlers : list Z; a_route : list (Z * Z); a_hitl : bool }.
Inductive outcome := Accept (a : accepted) | Reject (r : reject).

(* _validate_workflow, in the code's order of checks *)
Definition validate (g : graph) (sk : skips) : outcome :=
  match g with
  | [] => Reject RNoSteps
  | _ =>
  match ensure_start g with
  | UNone => Reject RStart0
  | UMany => Reject RStartMany
  | UOne s =>
  match ensure_stop g with
  | UNone => Reject RStop0
  | UMany => Reject RStopMany
  | UOne e =>
  match stop_consumers g with
  | (_ :: _) as l => Reject (RStopConsumer l)
  | [] =>
  match unproduced g s with
  | (_ :: _) as l => Reject (RUnproduced l)
  | [] =>
  match unconsumed g s with
  | (_ :: _) as l => Reject (RUnconsumed l)
  | [] =>
  match first_bad_maxrec g with
  | Some h => Reject (RMaxRec h)
  | None =>
  match handler_errors g with
  | (_ :: _) as l => Reject (RHandlers l)
  | [] =>
  match forward_reachable g s, reverse_reachable g with
  | Some fwd, Some rv =>
    match unreachable g sk fwd, dangling g sk, dead_ends g sk rv with
    | [], [], [] =>
      Accept {| a_start := s; a_stop := e; a_handlers := map s_name (handlers g);
                a_route := route g; a_hitl := uses_hitl g s |}
    | u, d, x => Reject (RGraph u d x)
    end
  | _, _ => Reject ROutOfFuel
  end end end end end end end end end.

End WithUniverse.
