(* Canonical encoders and the comparator used by the L3 correspondence suite harness/suites/server.py
   (real runtime decorator chain + _WorkflowService vs Model/ServerPersist.v on top of Model/Engine.v). *)
From Coq Require Import List ZArith Bool PeanoNat.
Import ListNotations.
From WF Require Import Model.Engine Model.EngineEnc Model.ServerPersist.
Open Scope Z_scope.

Definition enc_status (s : status) : Z :=
  match s with SRunning => 0 | SCompleted => 1 | SFailed => 2 | SCancelled => 3 end.
(* the error column is text: the exception's class is not recoverable from it, its message is *)
Definition enc_herror (e : herror) : list Z :=
  match e with
  | EExn x => [1 ; xmsg x] | ETimeoutEvent t => [2 ; t] | ETimeoutHalt t _ => [3 ; t] | ECancelExc => [4]
  | EStore => [5] | EEngine c => [6 ; c] | ENoState => [7]
  end.
Definition enc_hrec (h : hrec) : list Z :=
  [enc_status (h_status h)] ++ enc_opt (fun e => [eid e]) (h_result h) ++ enc_opt enc_herror (h_error h) ++
  enc_b (h_idle h).
Definition enc_call (c : call) : list Z :=
  match c with
  | CallInit ok => 1 :: enc_b ok
  | CallStatus s ok => [2 ; enc_status s] ++ enc_b ok
  | CallAppend k ok => [3 ; k] ++ enc_b ok
  | CallIdle set ok => 4 :: enc_b set ++ enc_b ok
  end.
Definition is_status_call (c : call) : bool := match c with CallInit _ | CallStatus _ _ => true | _ => false end.
Definition is_append_call (c : call) : bool := match c with CallAppend _ _ => true | _ => false end.
Definition is_idle_call (c : call) : bool := match c with CallIdle _ _ => true | _ => false end.
Definition enc_outcome (o : option outcome) : list Z :=
  match o with
  | None => [0]
  | Some (OCompleted e) => [1 ; eid e]
  | Some (OFailedStep x) => [2 ; xmsg x]
  | Some (OTimedOut t _) => [3 ; t]
  | Some OCancelled => [4]
  | Some OIdleReleased => [5]
  | Some OStoreExc => [6]
  | Some (OEngineExc c) => [7 ; c]
  end.
Definition enc_phase (p : phase) : Z := match p with PhNone => 0 | PhActive => 1 | PhEnded => 2 end.
Definition enc_replayed (r : replayed) : list Z :=
  match r with
  | RNone => [0] | RErr c => [1 ; c] | RExit None => [2] | RExit (Some c) => 3 :: enc_cmd c
  end.

(* what the harness observed, in the order it happened *)
Inductive hop :=
| HStart
| HTick (t : tick) (now : Z)            (* a tick handed to _reduce_tick by the live control loop *)
| HSend                                  (* service.send_event / cancel_handler reached adapter.send_event *)
| HRelease                               (* loop aborted: idle release, server stop, simulated crash *)
| HServerStart (log : list tick) (now : Z).   (* a new process: _on_server_start with this persisted log *)

Record dstate := { d_sys : sys ; d_eng : state ; d_out : option outcome ; d_bad : Z }.

Definition res_cmds (r : res (state * list command)) : res (list command) :=
  match r with Ok (_, cs) => Ok cs | Err c => Err c end.

Definition dstep (P : policy) (bo : nat) (stops : list Z) (base : state) (d : dstate) (o : hop) : dstate :=
  match o with
  | HStart => {| d_sys := step_op bo stops OpStart (d_sys d) ; d_eng := blank_state base ; d_out := None ; d_bad := d_bad d |}
  | HSend => {| d_sys := step_op bo stops OpSend (d_sys d) ; d_eng := d_eng d ; d_out := d_out d ; d_bad := d_bad d |}
  | HRelease => {| d_sys := step_op bo stops OpRelease (d_sys d) ; d_eng := d_eng d ; d_out := d_out d ; d_bad := d_bad d |}
  | HTick t now =>
    let r := reduce P t (d_eng d) now in
    let tk := (is_idlecheck t, res_cmds r) in
    let out := match y_phase (d_sys d) with
               | PhActive => snd (run_tick_m bo stops (y_marked (d_sys d)) tk (y_store (d_sys d)))
               | _ => None end in
    {| d_sys := step_op bo stops (OpTick tk) (d_sys d) ;
       d_eng := match r with Ok (s', _) => s' | Err _ => d_eng d end ;
       d_out := match out with Some x => Some x | None => d_out d end ;
       (* a tick observed while the model has no live loop is a disagreement *)
       d_bad := match y_phase (d_sys d) with PhActive => d_bad d | _ => 1 end |}
  | HServerStart log now =>
    let '(rp, resumed) := context_from_ticks P base log now in
    let y' := step_op bo stops (OpServerStart rp) (d_sys d) in
    {| d_sys := y' ;
       d_eng := match resumed with
                | Some r => match rewind r now with Ok (r', _) => r' | Err _ => r end
                | None => d_eng d end ;
       d_out := None ; d_bad := d_bad d |}
  end.

Definition drive (P : policy) (bo : nat) (stops : list Z) (base : state) (fl : faults) (ops : list hop) : dstate :=
  fold_left (dstep P bo stops base) ops
            {| d_sys := sys0 fl ; d_eng := blank_state base ; d_out := None ; d_bad := 0 |}.

Definition enc_final (d : dstate) : list Z :=
  let st := y_store (d_sys d) in
  [d_bad d] ++ enc_opt enc_hrec (s_rec st) ++ enc_outcome (d_out d) ++
  enc_list enc_call (filter is_status_call (s_trace st)) ++
  enc_list enc_call (filter is_append_call (s_trace st)) ++
  enc_list enc_call (filter is_idle_call (s_trace st)).

(* 0 = the model predicts exactly what the implementation showed *)
Definition server_case (P : policy) (bo : nat) (base : state) (fl : faults) (ops : list hop) (expect : list Z) : Z :=
  if leq (enc_final (drive P bo (c_stop (cfg base)) base fl ops)) expect then 0 else 1.
Definition server_detail (P : policy) (bo : nat) (base : state) (fl : faults) (ops : list hop) : list Z :=
  enc_final (drive P bo (c_stop (cfg base)) base fl ops).

(* C13: what context_from_ticks rebuilds from a persisted log, and how the resumed runner boots *)
Definition enc_resume (P : policy) (base : state) (log : list tick) (now : Z) : list Z :=
  let '(rp, resumed) := context_from_ticks P base log now in
  enc_replayed rp ++
  match resumed with
  | None => [0]
  | Some r => 1 :: enc_state r ++ enc_rehydrate (rehydrate_ticks r) ++
              match rewind r now with Ok (r', cs) => 0 :: enc_state r' ++ enc_list enc_cmd cs | Err c => [-1 ; c] end
  end.
Definition resume_case (P : policy) (base : state) (log : list tick) (now : Z) (expect : list Z) : Z :=
  if leq (enc_resume P base log now) expect then 0 else 1.
