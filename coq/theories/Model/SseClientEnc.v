(* Encoders / comparators of the `sse-client` correspondence suite (C17).  No proofs. *)
From Coq Require Import List ZArith Bool.
Import ListNotations.
From WF Require Import Model.EventLog Model.SseClient.
Open Scope Z_scope.

Fixpoint text_eqb (a b : text) : bool :=
  match a, b with
  | [], [] => true
  | x :: a', y :: b' => (x =? y) && text_eqb a' b'
  | _, _ => false
  end.

(* payload table: the i-th entry is the JSON text of the event with payload id i *)
Definition ptext_of (tbl : list text) (pid : Z) : text := nth (Z.to_nat pid) tbl [].

Fixpoint index_of (tbl : list text) (t : text) (i : Z) : Z :=
  match tbl with
  | [] => -1
  | x :: tbl' => if text_eqb x t then i else index_of tbl' t (i + 1)
  end.

Definition status_code (s : cstatus) : Z :=
  match s with Running => 0 | DoneOK => 1 | GaveUp => 2 | NotFound => 3 | Stalled => 4 end.

Definition observe (tbl : list text) (c : cstate) : list Z :=
  [status_code (c_st c); c_last c; Z.of_nat (length (c_reqs c))] ++ c_reqs c ++
  [Z.of_nat (length (c_out c))] ++ flat_map (fun o => [fst o; index_of tbl (snd o) 0]) (c_out c).

Fixpoint first_diff (a b : list Z) (i : Z) : Z :=
  match a, b with
  | [], [] => 0
  | x :: a', y :: b' => if x =? y then first_diff a' b' (i + 1) else i + 1
  | _, _ => i + 1
  end.

Definition the_server (tbl : list text) (es : list evt) (h : hstate) (inc : bool) : nat -> nat -> Z -> sresp :=
  serve (ptext_of tbl) BMem (fold_left (append BMem) es []) h inc.

(* 0 = the model's client ends exactly as the real one did *)
Definition run_case (tbl : list text) (es : list evt) (h : hstate) (inc : bool) (k0 : Z) (maxr : nat)
                    (atts : list attempt) (expected : list Z) : Z :=
  first_diff (observe tbl (client_run show_dec parse_dec maxr (the_server tbl es h inc) k0 atts)) expected 0.

Definition model_obs (tbl : list text) (es : list evt) (h : hstate) (inc : bool) (k0 : Z) (maxr : nat)
                     (atts : list attempt) : list Z :=
  observe tbl (client_run show_dec parse_dec maxr (the_server tbl es h inc) k0 atts).

(* the body format_stream produced for cursor k with the given heartbeat pattern, as far as it was
   generated: 0 = the real text is a prefix of the model's body (equal when complete = true) *)
Definition body_case (tbl : list text) (es : list evt) (h : hstate) (inc : bool) (n1 n2 : nat) (k : Z)
                     (beats : list nat) (complete : bool) (real : text) : Z :=
  match the_server tbl es h inc n1 n2 k with
  | SBody frames closes =>
      let m := body show_dec (weave beats frames) in
      if complete then (if closes then first_diff m real 0 else -2)
      else first_diff (firstn (length real) m) real 0
  | _ => -1
  end.
