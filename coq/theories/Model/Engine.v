(* M-Engine: executable model of workflows/runtime/control_loop.py (module-level reducer functions)
   and of BrokerState (de)serialization in runtime/types/internal_state.py.  No proofs here. *)
From Coq Require Import List ZArith Bool PeanoNat.
Import ListNotations.
Open Scope Z_scope.

(* ---------- data ---------- *)
Record event := { ety : Z ; eid : Z ; eattrs : list (Z * Z) }.
Record exn := { xty : Z ; xmsg : Z }.
Definition rcounts := list (Z * Z).
Record attempt := { a_ev : event ; a_att : option Z ; a_first : option Z ;
                    a_exn : option exn ; a_failed : option Z ; a_rc : rcounts }.
Record waiter := { w_id : Z ; w_ev : event ; w_ty : Z ; w_reqs : list (Z * Z) ;
                   w_hasreq : bool ; w_resolved : option event ; w_timedout : bool }.
Record snapshot := { s_coll : list (Z * list event) ; s_wait : list waiter }.
Record inprog := { i_ev : event ; i_wid : nat ; i_snap : snapshot ; i_att : Z ; i_first : Z ;
                   i_exn : option exn ; i_failed : option Z ; i_rc : rcounts }.
Record stepcfg := { accepts : list Z ; nworkers : nat ; pol : option Z }.
Record wstate := { w_cfg : stepcfg ; queue : list attempt ; inprogress : list inprog ;
                   collected : list (Z * list event) ; waiters : list waiter }.
Record handler := { h_step : Z ; h_max : Z }.
Record config := { c_handler_for : list (Z * Z) ; c_handlers : list (Z * handler) ;
                   c_start : list Z ; c_stop : list Z ; c_inputreq : list Z ;
                   c_ty_stepfailed : Z }.
Record state := { running : bool ; cfg : config ; workers : list (Z * wstate) }.

Inductive sstate := Preparing | Running | NotRunning.
Inductive outty := NoOut | OutNone | OutTy (t : Z) | OutOther.
Inductive pub :=
| PStep (step : Z) (st : sstate) (wid : option nat) (inty : Z) (out : outty)
| PEvent (e : event)
| PUnhandled (ty : Z) (target : option Z) (idle : bool)
| PIdle
| PFailed (step : Z) (x : exn) (attempts elapsed : Z)
| PTimedOut (t : Z) (active : list Z)
| PCancelled.
Inductive haltkind := HCancelled | HTimeout (t : Z) (active : list Z).
Inductive command :=
| CRunWorker (step : Z) (e : event) (wid : nat)
| CQueue (a : attempt) (target : option Z) (delay : option Z)
| CHalt (k : haltkind)
| CComplete (e : event)
| CCompleteIdleRelease
| CFail (step : Z) (x : exn)
| CPublish (p : pub)
| CSchedIdle
| CSchedWaiterTimeout (step : Z) (wid : Z) (timeout : Z).

Inductive outcome := OEvent (e : event) | ONone | OOther.
Inductive result :=
| RResult (o : outcome)
| RFailed (x : exn) (failed_at : Z)
| RAddColl (buf : Z) (e : event)
| RDelColl (buf : Z)
| RAddWaiter (wid : Z) (wev : option event) (reqs : list (Z * Z)) (timeout : option Z) (ty : Z)
| RDelWaiter (wid : Z).
Inductive tick :=
| TAdd (a : attempt) (target : option Z)
| TStep (step : Z) (wid : nat) (e : event) (rs : list result)
| TCancel | TPublish (e : event) | TTimeout (t : Z)
| TWaiterTimeout (step : Z) (wid : Z) | TIdleCheck | TIdleRelease.

Inductive pdecision := PRetry (delay : Z) | PStop | PRaise.
Definition policy := Z -> Z -> Z -> exn -> pdecision.   (* pol id, elapsed, failures, exn *)

Inductive res (A : Type) := Ok (a : A) | Err (code : Z).
Arguments Ok {A} a. Arguments Err {A} code.

(* ---------- assoc helpers (python dict semantics, insertion order) ---------- *)
Fixpoint zlookup {A} (k : Z) (l : list (Z * A)) : option A :=
  match l with [] => None | (k', v) :: t => if Z.eqb k k' then Some v else zlookup k t end.
Fixpoint zupdate {A} (k : Z) (v : A) (l : list (Z * A)) : list (Z * A) :=
  match l with
  | [] => [(k, v)]
  | (k', v') :: t => if Z.eqb k k' then (k, v) :: t else (k', v') :: zupdate k v t
  end.
Fixpoint zremove {A} (k : Z) (l : list (Z * A)) : list (Z * A) :=
  match l with [] => [] | (k', v) :: t => if Z.eqb k k' then t else (k', v) :: zremove k t end.
Definition zmem (k : Z) (l : list Z) : bool := existsb (Z.eqb k) l.

Definition set_w (w : wstate) q ip c ws : wstate :=
  {| w_cfg := w_cfg w ; queue := q ; inprogress := ip ; collected := c ; waiters := ws |}.

(* ---------- _add_or_enqueue_event ---------- *)
Fixpoint first_free (used : list nat) (k fuel : nat) : option nat :=
  match fuel with
  | O => None
  | S f => if existsb (Nat.eqb k) used then first_free used (S k) f else Some k
  end.

Definition add_or_enqueue (step : Z) (a : attempt) (w : wstate) (now : Z)
  : res (wstate * list command) :=
  if Nat.ltb (length (inprogress w)) (nworkers (w_cfg w)) then
    match first_free (map i_wid (inprogress w)) 0 (nworkers (w_cfg w)) with
    | Some id =>
      let ip := {| i_ev := a_ev a ; i_wid := id ;
                   i_snap := {| s_coll := collected w ; s_wait := waiters w |} ;
                   i_att := match a_att a with Some n => n | None => 0 end ;
                   i_first := match a_first a with Some t => (if Z.eqb t 0 then now else t) | None => now end ;
                   i_exn := a_exn a ; i_failed := a_failed a ; i_rc := a_rc a |} in
      Ok (set_w w (queue w) (inprogress w ++ [ip]) (collected w) (waiters w),
          [CRunWorker step (a_ev a) id ;
           CPublish (PStep step Running (Some id) (ety (a_ev a)) NoOut)])
    | None => Err 1 (* IndexError: unreachable under Inv_cap *)
    end
  else
    Ok (set_w w (queue w ++ [a]) (inprogress w) (collected w) (waiters w),
        [CPublish (PStep step Preparing None (ety (a_ev a)) NoOut)]).

Fixpoint drain (step : Z) (w : wstate) (now : Z) (fuel : nat) : res (wstate * list command) :=
  match fuel with
  | O => Ok (w, [])
  | S f =>
    match queue w with
    | [] => Ok (w, [])
    | a :: q =>
      if Nat.ltb (length (inprogress w)) (nworkers (w_cfg w)) then
        match add_or_enqueue step a (set_w w q (inprogress w) (collected w) (waiters w)) now with
        | Err c => Err c
        | Ok (w1, c1) =>
          match drain step w1 now f with
          | Err c => Err c
          | Ok (w2, c2) => Ok (w2, c1 ++ c2)
          end
        end
      else Ok (w, [])
    end
  end.

(* ---------- _check_idle_state ---------- *)
Definition wquiet (w : wstate) : bool :=
  match queue w, inprogress w with [], [] => true | _, _ => false end.
Definition check_idle (s : state) : bool :=
  running s && forallb (fun p => wquiet (snd p)) (workers s).

(* ---------- _process_add_event_tick ---------- *)
Definition blank (e : event) : attempt :=
  {| a_ev := e ; a_att := None ; a_first := None ; a_exn := None ; a_failed := None ; a_rc := [] |}.

Definition attr_eq (e : event) (kv : Z * Z) : bool :=
  match zlookup (fst kv) (eattrs e) with Some v => Z.eqb v (snd kv) | None => false end.
Definition waiter_matches (e : event) (w : waiter) : bool :=
  Z.eqb (ety e) (w_ty w) && forallb (attr_eq e) (w_reqs w).
(* a waiter whose replay is already pending (resolved or timed out) is skipped *)
Definition w_pending (w : waiter) : bool :=
  match w_resolved w with Some _ => true | None => w_timedout w end.
Definition resolve (e : event) (w : waiter) : waiter :=
  {| w_id := w_id w ; w_ev := w_ev w ; w_ty := w_ty w ; w_reqs := w_reqs w ;
     w_hasreq := w_hasreq w ; w_resolved := Some e ; w_timedout := w_timedout w |}.

(* One step's waiter pass: python iterates the live list `wait_conditions` while
   _add_or_enqueue_event only touches queue/in_progress, and mutates the matching waiter
   in place BEFORE calling _add_or_enqueue_event (so the snapshot sees it resolved). *)
Fixpoint waiter_pass (step : Z) (e : event) (done todo : list waiter) (w : wstate) (now : Z)
  (acc : list command) (hit : bool) : res (wstate * list command * bool) :=
  match todo with
  | [] => Ok (w, acc, hit)
  | wt :: rest =>
    if negb (w_pending wt) && waiter_matches e wt then
      let wt' := resolve e wt in
      let w1 := set_w w (queue w) (inprogress w) (collected w) (done ++ wt' :: rest) in
      match add_or_enqueue step (blank (w_ev wt)) w1 now with
      | Err c => Err c
      | Ok (w2, cs) => waiter_pass step e (done ++ [wt']) rest w2 now (acc ++ cs) true
      end
    else waiter_pass step e (done ++ [wt]) rest w now acc hit
  end.

Definition target_ok (target : option Z) (n : Z) : bool :=
  match target with None => true | Some t => Z.eqb t n end.

Fixpoint add_waiters (e : event) (target : option Z) (ws : list (Z * wstate)) (now : Z)
  : res (list (Z * wstate) * list command * list Z) :=
  match ws with
  | [] => Ok ([], [], [])
  | (n, w) :: t =>
    match (if target_ok target n then waiter_pass n e [] (waiters w) w now [] false
           else Ok (w, [], false)) with
    | Err c => Err c
    | Ok (w', cs, hit) =>
      match add_waiters e target t now with
      | Err c => Err c
      | Ok (t', cs', hits) => Ok ((n, w') :: t', cs ++ cs', if hit then n :: hits else hits)
      end
    end
  end.

Fixpoint add_routes (a : attempt) (target : option Z) (skip : list Z) (ws : list (Z * wstate)) (now : Z)
  : res (list (Z * wstate) * list command * bool) :=
  match ws with
  | [] => Ok ([], [], false)
  | (n, w) :: t =>
    let take := negb (zmem n skip) && zmem (ety (a_ev a)) (accepts (w_cfg w)) && target_ok target n in
    match (if take then add_or_enqueue n a w now else Ok (w, [])) with
    | Err c => Err c
    | Ok (w', cs) =>
      match add_routes a target skip t now with
      | Err c => Err c
      | Ok (t', cs', h) => Ok ((n, w') :: t', cs ++ cs', take || h)
      end
    end
  end.

Definition with_workers (s : state) (r : bool) (ws : list (Z * wstate)) : state :=
  {| running := r ; cfg := cfg s ; workers := ws |}.

Definition process_add (a : attempt) (target : option Z) (s : state) (now : Z)
  : res (state * list command) :=
  let r := if zmem (ety (a_ev a)) (c_start (cfg s)) then true else running s in
  match add_waiters (a_ev a) target (workers s) now with
  | Err c => Err c
  | Ok (ws1, cs1, hits) =>
    match add_routes a target hits ws1 now with
    | Err c => Err c
    | Ok (ws2, cs2, routed) =>
      let s' := with_workers s r ws2 in
      let handled := negb (match hits with [] => true | _ => false end) || routed in
      let un := if handled then []
                else if zmem (ety (a_ev a)) (c_inputreq (cfg s)) then []
                else [CPublish (PUnhandled (ety (a_ev a)) target (check_idle s'))] in
      Ok (s', cs1 ++ cs2 ++ un)
    end
  end.

(* ---------- _process_step_result_tick ---------- *)
Fixpoint find_ip (wid : nat) (l : list inprog) : option inprog :=
  match l with [] => None | i :: t => if Nat.eqb (i_wid i) wid then Some i else find_ip wid t end.
Fixpoint replace_ip (i' : inprog) (l : list inprog) : list inprog :=
  match l with [] => [] | i :: t => if Nat.eqb (i_wid i) (i_wid i') then i' :: t else i :: replace_ip i' t end.
Fixpoint remove_ip (wid : nat) (l : list inprog) : list inprog :=
  match l with [] => [] | i :: t => if Nat.eqb (i_wid i) wid then t else i :: remove_ip wid t end.
Fixpoint find_waiter_idx (id : Z) (l : list waiter) (k : nat) : option nat :=
  match l with [] => None | w :: t => if Z.eqb (w_id w) id then Some k else find_waiter_idx id t (S k) end.
Fixpoint set_nth {A} (k : nat) (x : A) (l : list A) : list A :=
  match l, k with
  | [], _ => [] | _ :: t, O => x :: t | h :: t, S k' => h :: set_nth k' x t
  end.
Fixpoint remove_waiter (id : Z) (l : list waiter) : list waiter :=
  match l with [] => [] | w :: t => if Z.eqb (w_id w) id then t else w :: remove_waiter id t end.
Definition is_result (r : result) : bool := match r with RResult _ => true | _ => false end.
Definition is_exit (c : command) : bool :=
  match c with CHalt _ | CComplete _ | CCompleteIdleRelease | CFail _ _ => true | _ => false end.
Definition with_snap (i : inprog) (sn : snapshot) : inprog :=
  {| i_ev := i_ev i ; i_wid := i_wid i ; i_snap := sn ; i_att := i_att i ; i_first := i_first i ;
     i_exn := i_exn i ; i_failed := i_failed i ; i_rc := i_rc i |}.
Definition clear_cw (w : wstate) : wstate := set_w w (queue w) (inprogress w) [] [].

(* fold state threaded through the result loop *)
Record acc := { k_state : state ; k_w : wstate (* this step's worker state *) ;
                k_this : inprog ; k_cmds : list command ; k_out : outty ; k_keep : bool }.

Definition put_w (step : Z) (w : wstate) (s : state) : state :=
  with_workers s (running s) (zupdate step w (workers s)).

Definition stepfailed_event (c : config) (step : Z) (e : event) (attempts elapsed : Z) : event :=
  {| ety := c_ty_stepfailed c ; eid := eid e ;
     eattrs := [(1, step) ; (2, attempts) ; (3, elapsed) ; (4, ety e)] |}.

Definition one_result (P : policy) (step : Z) (tev : event) (did_complete : bool) (now : Z)
  (a : acc) (r : result) : res acc :=
  let s := k_state a in let w := k_w a in let this := k_this a in
  match r with
  | RResult (OEvent e) =>
    if zmem (ety e) (c_stop (cfg s)) then
      (* StopEvent: publish, is_running False, clear collected events/waiters of ALL workers *)
      let w' := clear_cw w in
      let ws' := map (fun p => (fst p, clear_cw (snd p))) (zupdate step w (workers s)) in
      Ok {| k_state := with_workers s false ws' ; k_w := w' ; k_this := this ;
            k_cmds := k_cmds a ++ [CPublish (PEvent e) ; CComplete e] ;
            k_out := OutTy (ety e) ; k_keep := k_keep a |}
    else
      let pubs := if zmem (ety e) (c_inputreq (cfg s)) then [CPublish (PEvent e)] else [] in
      let q := {| a_ev := e ; a_att := None ; a_first := None ; a_exn := None ; a_failed := None ;
                  a_rc := i_rc this |} in
      Ok {| k_state := s ; k_w := w ; k_this := this ;
            k_cmds := k_cmds a ++ pubs ++ [CQueue q None None] ;
            k_out := OutTy (ety e) ; k_keep := k_keep a |}
  | RResult ONone =>
      Ok {| k_state := s ; k_w := w ; k_this := this ; k_cmds := k_cmds a ; k_out := OutNone ; k_keep := k_keep a |}
  | RResult OOther =>
      Ok {| k_state := s ; k_w := w ; k_this := this ; k_cmds := k_cmds a ; k_out := OutOther ; k_keep := k_keep a |}
  | RFailed x failed_at =>
    let failures := i_att this + 1 in
    let elapsed := failed_at - i_first this in
    (* a policy that raises is logged and treated as "do not retry" (fix: commit for C04): PRaise = PStop *)
    let dec := match pol (w_cfg w) with Some p => P p elapsed failures x | None => PStop end in
    let exhausted :=
      let hname := zlookup step (c_handler_for (cfg s)) in
      let h := match hname with Some n => zlookup n (c_handlers (cfg s)) | None => None end in
      let cur := match h with
                 | Some hd => match zlookup (h_step hd) (i_rc this) with Some n => n | None => 0 end
                 | None => 0 end in
      let newc := cur + 1 in
      match h with
      | Some hd =>
        if Z.leb newc (h_max hd) then
          let sfe := stepfailed_event (cfg s) step tev failures elapsed in
          let q := {| a_ev := sfe ; a_att := None ; a_first := None ; a_exn := None ; a_failed := None ;
                      a_rc := zupdate (h_step hd) newc (i_rc this) |} in
          Ok {| k_state := s ; k_w := w ; k_this := this ;
                k_cmds := k_cmds a ++ [CQueue q (Some (h_step hd)) None] ; k_out := k_out a ; k_keep := k_keep a |}
        else
          Ok {| k_state := with_workers s false (workers s) ; k_w := w ; k_this := this ;
                k_cmds := k_cmds a ++ [CPublish (PFailed step x failures elapsed) ; CFail step x] ;
                k_out := k_out a ; k_keep := k_keep a |}
      | None =>
          Ok {| k_state := with_workers s false (workers s) ; k_w := w ; k_this := this ;
                k_cmds := k_cmds a ++ [CPublish (PFailed step x failures elapsed) ; CFail step x] ;
                k_out := k_out a ; k_keep := k_keep a |}
      end in
    match dec with
    | PRaise => exhausted
    | PRetry d =>
      let q := {| a_ev := tev ; a_att := Some failures ; a_first := Some (i_first this) ;
                  a_exn := Some x ; a_failed := Some failed_at ; a_rc := i_rc this |} in
      Ok {| k_state := s ; k_w := w ; k_this := this ;
            k_cmds := k_cmds a ++ [CQueue q (Some step) (Some d)] ; k_out := k_out a ; k_keep := k_keep a |}
    | PStop => exhausted
    end
  | RAddColl buf e =>
    (* setdefault: creates the buffer (at the end of the dict) if absent *)
    let cur := match zlookup buf (collected w) with Some l => l | None => [] end in
    let coll0 := match zlookup buf (collected w) with Some _ => collected w | None => collected w ++ [(buf, [])] end in
    let sent := match zlookup buf (s_coll (i_snap this)) with Some l => l | None => [] end in
    if Nat.ltb (length sent) (length cur) then
      let this' := with_snap this {| s_coll := coll0 ; s_wait := s_wait (i_snap this) |} in
      Ok {| k_state := s ; k_w := set_w w (queue w) (replace_ip this' (inprogress w)) coll0 (waiters w) ;
            k_this := this' ; k_cmds := k_cmds a ++ [CRunWorker step e (i_wid this)] ;
            k_out := k_out a ; k_keep := true |}
    else
      Ok {| k_state := s ; k_w := set_w w (queue w) (inprogress w) (zupdate buf (cur ++ [e]) coll0) (waiters w) ;
            k_this := this ; k_cmds := k_cmds a ; k_out := k_out a ; k_keep := k_keep a |}
  | RDelColl buf =>
    if did_complete then
      Ok {| k_state := s ; k_w := set_w w (queue w) (inprogress w) (zremove buf (collected w)) (waiters w) ;
            k_this := this ; k_cmds := k_cmds a ; k_out := k_out a ; k_keep := k_keep a |}
    else Ok a
  | RAddWaiter wid wev reqs timeout ty =>
    let nw := {| w_id := wid ; w_ev := i_ev this ; w_ty := ty ; w_reqs := reqs ;
                 w_hasreq := negb (match reqs with [] => true | _ => false end) ;
                 w_resolved := None ; w_timedout := false |} in
    match find_waiter_idx wid (waiters w) 0 with
    | Some k =>
      Ok {| k_state := s ; k_w := set_w w (queue w) (inprogress w) (collected w) (set_nth k nw (waiters w)) ;
            k_this := this ; k_cmds := k_cmds a ; k_out := k_out a ; k_keep := k_keep a |}
    | None =>
      let c1 := match wev with Some e => [CPublish (PEvent e)] | None => [] end in
      let c2 := match timeout with Some t => [CSchedWaiterTimeout step wid t] | None => [] end in
      Ok {| k_state := s ; k_w := set_w w (queue w) (inprogress w) (collected w) (waiters w ++ [nw]) ;
            k_this := this ; k_cmds := k_cmds a ++ c1 ++ c2 ; k_out := k_out a ; k_keep := k_keep a |}
    end
  | RDelWaiter wid =>
    if did_complete then
      Ok {| k_state := s ; k_w := set_w w (queue w) (inprogress w) (collected w) (remove_waiter wid (waiters w)) ;
            k_this := this ; k_cmds := k_cmds a ; k_out := k_out a ; k_keep := k_keep a |}
    else Ok a
  end.

Fixpoint results_loop (P : policy) (step : Z) (tev : event) (dc : bool) (now : Z) (a : acc) (rs : list result)
  : res acc :=
  match rs with
  | [] => Ok a
  | r :: t => match one_result P step tev dc now a r with Err c => Err c | Ok a' => results_loop P step tev dc now a' t end
  end.

Definition process_step (P : policy) (step : Z) (wid : nat) (tev : event) (rs : list result) (s : state) (now : Z)
  : res (state * list command) :=
  match zlookup step (workers s) with
  | None => Err 4 (* KeyError *)
  | Some w =>
    match find_ip wid (inprogress w) with
    | None => Err 2 (* ValueError: worker not found *)
    | Some this =>
      let dc := existsb is_result rs in
      let a0 := {| k_state := s ; k_w := w ; k_this := this ; k_cmds := [] ; k_out := NoOut ; k_keep := false |} in
      match results_loop P step tev dc now a0 rs with
      | Err c => Err c
      | Ok a =>
        (* NOTE: a StopEvent result cleared *all* workers inside k_state; k_w is the authoritative
           copy of this step's worker (python mutates state.workers[step] in place). *)
        let completed := existsb is_exit (k_cmds a) in
        let w1 := k_w a in
        let '(w2, cmds) :=
          if k_keep a then (w1, k_cmds a)
          else (set_w w1 (queue w1) (remove_ip wid (inprogress w1)) (collected w1) (waiters w1),
                CPublish (PStep step NotRunning (Some wid) (ety tev) (k_out a)) :: k_cmds a) in
        if completed then Ok (put_w step w2 (k_state a), cmds)
        else
          match drain step w2 now (length (queue w2)) with
          | Err c => Err c
          | Ok (w3, c3) => Ok (put_w step w3 (k_state a), cmds ++ c3)
          end
      end
    end
  end.

(* ---------- other ticks ---------- *)
Definition active_steps (s : state) : list Z :=
  map fst (filter (fun p => negb (match inprogress (snd p) with [] => true | _ => false end)) (workers s)).

Definition process_waiter_timeout (step : Z) (wid : Z) (s : state) (now : Z) : res (state * list command) :=
  match zlookup step (workers s) with
  | None => Ok (s, [])
  | Some w =>
    match find_waiter_idx wid (waiters w) 0 with
    | None => Ok (s, [])
    | Some k =>
      match nth_error (waiters w) k with
      | None => Ok (s, [])
      | Some wt =>
        match w_resolved wt with
        | Some _ => Ok (s, [])
        | None =>
          let wt' := {| w_id := w_id wt ; w_ev := w_ev wt ; w_ty := w_ty wt ; w_reqs := w_reqs wt ;
                        w_hasreq := w_hasreq wt ; w_resolved := None ; w_timedout := true |} in
          let w1 := set_w w (queue w) (inprogress w) (collected w) (set_nth k wt' (waiters w)) in
          match add_or_enqueue step (blank (w_ev wt)) w1 now with
          | Err c => Err c
          | Ok (w2, cs) => Ok (put_w step w2 s, cs)
          end
        end
      end
    end
  end.

Definition reduce (P : policy) (t : tick) (s : state) (now : Z) : res (state * list command) :=
  let finish (r : res (state * list command)) :=
    match r with
    | Err c => Err c
    | Ok (s', cs) => Ok (s', if check_idle s' then cs ++ [CSchedIdle] else cs)
    end in
  match t with
  | TStep step wid e rs => finish (process_step P step wid e rs s now)
  | TAdd a target => finish (process_add a target s now)
  | TCancel => finish (Ok (s, [CPublish PCancelled ; CHalt HCancelled]))
  | TIdleRelease => Ok (s, [CCompleteIdleRelease])
  | TPublish e => finish (Ok (s, [CPublish (PEvent e)]))
  | TTimeout tm => finish (Ok (with_workers s false (workers s),
                               [CPublish (PTimedOut tm (active_steps s)) ; CHalt (HTimeout tm (active_steps s))]))
  | TWaiterTimeout step wid => finish (process_waiter_timeout step wid s now)
  | TIdleCheck => Ok (s, if check_idle s then [CPublish PIdle] else [])
  end.

(* ---------- rewind_in_progress ---------- *)
Definition attempt_of_ip (i : inprog) : attempt :=
  {| a_ev := i_ev i ; a_att := Some (i_att i) ; a_first := Some (i_first i) ;
     a_exn := i_exn i ; a_failed := i_failed i ; a_rc := i_rc i |}.
(* python: for ip in in_progress: queue.insert(0, ...)  => reversed in front of the queue *)
Definition rewind_worker (step : Z) (w : wstate) (now : Z) : res (wstate * list command) :=
  let q := rev (map attempt_of_ip (inprogress w)) ++ queue w in
  drain step (set_w w q [] (collected w) (waiters w)) now (length q).
(* insertion sort by step name (python: sorted(state.workers.items())) *)
Fixpoint insert_sorted (p : Z * wstate) (l : list (Z * wstate)) :=
  match l with [] => [p] | h :: t => if Z.leb (fst p) (fst h) then p :: l else h :: insert_sorted p t end.
Definition sort_workers (l : list (Z * wstate)) := fold_right insert_sorted [] l.
Fixpoint rewind_all (order : list (Z * wstate)) (ws : list (Z * wstate)) (now : Z) (cs : list command)
  : res (list (Z * wstate) * list command) :=
  match order with
  | [] => Ok (ws, cs)
  | (n, w) :: t =>
    match rewind_worker n w now with
    | Err c => Err c
    | Ok (w', c') => rewind_all t (zupdate n w' ws) now (cs ++ c')
    end
  end.
Definition rewind (s : state) (now : Z) : res (state * list command) :=
  match rewind_all (sort_workers (workers s)) (workers s) now [] with
  | Err c => Err c
  | Ok (ws, cs) => Ok (with_workers s (running s) ws, cs)
  end.

(* ---------- BrokerState.from_workflow: empty run state for a configuration ---------- *)
Definition blank_worker (w : wstate) : wstate := set_w w [] [] [] [].
Definition blank_state (s : state) : state :=
  {| running := false ; cfg := cfg s ; workers := map (fun p => (fst p, blank_worker (snd p))) (workers s) |}.

(* ---------- BrokerState.to_serialized / from_serialized ---------- *)
Record swaiter := { sw_id : Z ; sw_ev : event ; sw_ty : Z ; sw_hasreq : bool ; sw_resolved : option event }.
Record sworker := { sq : list attempt ; sip : list event ; scoll : list (Z * list event) ;
                    swait : list swaiter }.
Record sctx := { sc_running : bool ; sc_workers : list (Z * sworker) }.

Definition ser_attempt (a : attempt) : attempt :=
  {| a_ev := a_ev a ; a_att := Some (match a_att a with Some n => n | None => 0 end) ;
     a_first := a_first a ; a_exn := a_exn a ; a_failed := a_failed a ; a_rc := a_rc a |}.
Definition ser_waiter (w : waiter) : swaiter :=
  {| sw_id := w_id w ; sw_ev := w_ev w ; sw_ty := w_ty w ;
     sw_hasreq := negb (match w_reqs w with [] => true | _ => false end) || w_hasreq w ;
     sw_resolved := w_resolved w |}.
Definition ser_worker (w : wstate) : sworker :=
  {| sq := map ser_attempt (queue w) ; sip := map i_ev (inprogress w) ;
     scoll := collected w ; swait := map ser_waiter (waiters w) |}.
Definition to_ser (s : state) : sctx :=
  {| sc_running := running s ; sc_workers := map (fun p => (fst p, ser_worker (snd p))) (workers s) |}.

Definition deser_waiter (w : swaiter) : waiter :=
  {| w_id := sw_id w ; w_ev := sw_ev w ; w_ty := sw_ty w ; w_reqs := [] ; w_hasreq := sw_hasreq w ;
     w_resolved := sw_resolved w ; w_timedout := false |}.
Definition resumed_attempt (e : event) : attempt :=
  {| a_ev := e ; a_att := Some 0 ; a_first := None ; a_exn := None ; a_failed := None ; a_rc := [] |}.
Definition deser_worker (base : wstate) (d : sworker) : wstate :=
  set_w base (sq d ++ map resumed_attempt (sip d)) [] (scoll d) (map deser_waiter (swait d)).
(* base = BrokerState.from_workflow(workflow); steps unknown to the workflow are skipped *)
Definition from_ser (base : state) (c : sctx) : state :=
  {| running := sc_running c ; cfg := cfg base ;
     workers := map (fun p => match zlookup (fst p) (sc_workers c) with
                              | Some d => (fst p, deser_worker (snd p) d)
                              | None => p end) (workers (blank_state base)) |}.

(* ---------- BrokerState.rehydrate_with_ticks ---------- *)
Fixpoint insert_waiter (w : waiter) (l : list waiter) : list waiter :=
  match l with [] => [w] | h :: t => if Z.leb (w_id w) (w_id h) then w :: l else h :: insert_waiter w t end.
Definition sort_waiters (l : list waiter) : list waiter := fold_right insert_waiter [] l.
Definition rehydrate_worker (p : Z * wstate) : list tick :=
  flat_map (fun w => if w_hasreq w && (match w_reqs w with [] => true | _ => false end)
                     then [TAdd (blank (w_ev w)) (Some (fst p))] else [])
           (sort_waiters (waiters (snd p))).
Definition rehydrate_ticks (s : state) : list tick := flat_map rehydrate_worker (sort_workers (workers s)).

(* ---------- rebuild_state_from_ticks ---------- *)
Fixpoint fold_ticks (P : policy) (s : state) (ts : list tick) (now : Z) : res state :=
  match ts with
  | [] => Ok s
  | t :: r => match reduce P t s now with Err c => Err c | Ok (s', _) => fold_ticks P s' r now end
  end.
Definition rebuild (P : policy) (s : state) (ts : list tick) (now : Z) : res state :=
  match rewind s now with Err c => Err c | Ok (s', _) => fold_ticks P s' ts now end.
