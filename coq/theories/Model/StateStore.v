(* M-StateStore: executable model of
     workflows/context/state_store.py   (get_by_path / set_by_path / traverse_path_step /
                                         assign_path_step / merge_state / create_cleared_state,
                                         InMemoryStateStore)
     workflows/events.py                 (DictLikeModel: dynamic keys in _data, copy)
     _store/sqlite/sqlite_state_store.py (SqliteStateStore: load / save around every operation)
   and of the abstract specification the property names ("a plain nested-dict model").
   No proofs in this file.

   Values are JSON trees; strings are code-point lists.  Dicts are association lists in
   insertion order (Python dict order, preserved by json.dumps/loads), keys are strings.

   Modelling restrictions (enforced by the generator of harness/suites/statestore.py, which
   fails closed when they are not met):
   * path segments and keys are not names of attributes of the Python builtins / of
     pydantic.BaseModel / DictState (getattr(5, "real"), getattr(state, "keys") would return
     non-JSON objects), and are ASCII (int() on non-ASCII digits is not modelled);
   * typed state models use single inheritance; a class is identified by its chain of class
     ids from the root class down (G = [1], P(G) = [1;2], C(P) = [1;2;3]); DictState is [0];
   * values assigned to a typed top-level field respect the field's annotation (pydantic does
     not validate assignments; the SQLite round trip would re-validate);
   * an edit_state block does not raise. *)
From Coq Require Import List ZArith Bool.
Import ListNotations.
Open Scope Z_scope.

Definition str := list Z.

Fixpoint str_eqb (a b : str) : bool :=
  match a, b with
  | [], [] => true
  | x :: a', y :: b' => Z.eqb x y && str_eqb a' b'
  | _, _ => false
  end.

Inductive value :=
| VNull
| VBool (b : bool)
| VInt (z : Z)
| VFlt (z : Z)                       (* the float z/2 (dyadic; exact through JSON) *)
| VStr (s : str)
| VList (l : list value)
| VDict (d : list (str * value)).

Definition items := list (str * value).

(* ---------- association lists with Python dict update semantics ---------- *)
Fixpoint lookup {A} (k : str) (d : list (str * A)) : option A :=
  match d with
  | [] => None
  | (k', v) :: r => if str_eqb k k' then Some v else lookup k r
  end.

(* d[k] = v : an existing key keeps its position, a new key is appended *)
Fixpoint upsert {A} (k : str) (v : A) (d : list (str * A)) : list (str * A) :=
  match d with
  | [] => [(k, v)]
  | (k', v') :: r => if str_eqb k k' then (k', v) :: r else (k', v') :: upsert k v r
  end.

Definition has_key {A} (k : str) (d : list (str * A)) : bool :=
  match lookup k d with Some _ => true | None => false end.

Fixpoint set_nth {A} (n : nat) (x : A) (l : list A) : list A :=
  match l, n with
  | [], _ => []
  | _ :: r, O => x :: r
  | y :: r, S n' => y :: set_nth n' x r
  end.

(* ---------- int(segment) for ASCII text ---------- *)
Definition is_ws (c : Z) : bool := ((9 <=? c) && (c <=? 13)) || ((28 <=? c) && (c <=? 32)).
Definition is_digit (c : Z) : bool := (48 <=? c) && (c <=? 57).

Fixpoint lstrip (s : str) : str :=
  match s with
  | c :: r => if is_ws c then lstrip r else s
  | [] => []
  end.
Definition strip (s : str) : str := rev (lstrip (rev (lstrip s))).

(* digits, single underscores allowed between digits *)
Fixpoint parse_digits (s : str) (acc : Z) (prev_digit : bool) : option Z :=
  match s with
  | [] => if prev_digit then Some acc else None
  | c :: r =>
      if is_digit c then parse_digits r (acc * 10 + (c - 48)) true
      else if (c =? 95) && prev_digit then
        match r with
        | d :: _ => if is_digit d then parse_digits r acc false else None
        | [] => None
        end
      else None
  end.

Definition parse_int (s : str) : option Z :=
  match strip s with
  | 45 :: r => option_map Z.opp (parse_digits r 0 false)
  | 43 :: r => parse_digits r 0 false
  | r => parse_digits r 0 false
  end.

(* Python sequence indexing: negative indices count from the end *)
Definition norm_index (i : Z) (n : nat) : option nat :=
  let len := Z.of_nat n in
  if (0 <=? i) && (i <? len) then Some (Z.to_nat i)
  else if (i <? 0) && (0 <=? i + len) then Some (Z.to_nat (i + len))
  else None.

Definition seg_index (seg : str) (n : nat) : option nat :=
  match parse_int seg with
  | Some i => norm_index i n
  | None => None
  end.

(* ---------- traverse_path_step / assign_path_step on JSON values ---------- *)
(* None = the step raises (KeyError for dicts, otherwise the getattr fallback's AttributeError);
   both callers treat every exception of this function alike. *)
Definition vtraverse (v : value) (seg : str) : option value :=
  match v with
  | VDict d => lookup seg d
  | VList l => match seg_index seg (length l) with
               | Some k => nth_error l k
               | None => None
               end
  | VStr s => match seg_index seg (length s) with
              | Some k => match nth_error s k with Some c => Some (VStr [c]) | None => None end
              | None => None
              end
  | _ => None
  end.

(* None = AttributeError from the setattr fallback (builtins have no such attribute) *)
Definition vassign (v : value) (seg : str) (x : value) : option value :=
  match v with
  | VDict d => Some (VDict (upsert seg x d))
  | VList l => match seg_index seg (length l) with
               | Some k => Some (VList (set_nth k x l))
               | None => None
               end
  | _ => None
  end.

(* the chain of fresh intermediate dicts set_by_path creates below a missing segment *)
Fixpoint nest (segs : list str) (x : value) : value :=
  match segs with
  | [] => x
  | s :: r => VDict [(s, nest r x)]
  end.

Fixpoint vget (segs : list str) (v : value) : option value :=
  match segs with
  | [] => Some v
  | s :: r => match vtraverse v s with
              | Some c => vget r c
              | None => None
              end
  end.

(* set_by_path below the root, as a functional rebuild of the in-place mutation: the container
   that held [child] holds the mutated child afterwards *)
Fixpoint vset (segs : list str) (x : value) (v : value) : option value :=
  match segs with
  | [] => Some x
  | s :: r => match vtraverse v s with
              | Some child => match vset r x child with
                              | Some child' => vassign v s child'
                              | None => None
                              end
              | None => vassign v s (nest r x)
              end
  end.

(* ---------- path.split(".") ---------- *)
Fixpoint split_dot (s : str) (cur : str) : list str :=
  match s with
  | [] => [rev cur]
  | c :: r => if c =? 46 then rev cur :: split_dot r [] else split_dot r (c :: cur)
  end.
Definition segments (p : str) : list str :=
  match p with [] => [] | _ => split_dot p [] end.

Definition MAX_DEPTH : nat := 1000.

(* ---------- state objects ---------- *)
(* o_cls: class chain ([0] = DictState); o_items: _data of a DictState, the fields of a typed model *)
Record sobj := { o_cls : list Z; o_items : items }.

Fixpoint zlist_eqb (a b : list Z) : bool :=
  match a, b with
  | [], [] => true
  | x :: a', y :: b' => Z.eqb x y && zlist_eqb a' b'
  | _, _ => false
  end.

Fixpoint is_prefix (a b : list Z) : bool :=   (* a is a prefix of b *)
  match a, b with
  | [], _ => true
  | x :: a', y :: b' => Z.eqb x y && is_prefix a' b'
  | _ :: _, [] => false
  end.

Definition dict_cls : list Z := [0].
Definition is_dictlike (cls : list Z) : bool := zlist_eqb cls dict_cls.

(* issubclass(a, b) for class chains *)
Definition subclass (a b : list Z) : bool := is_prefix b a.

(* class table: own fields (name, default) of each class id *)
Definition ctable := list (Z * items).
Fixpoint own_fields (ct : ctable) (c : Z) : items :=
  match ct with
  | [] => []
  | (c', f) :: r => if Z.eqb c c' then f else own_fields r c
  end.
Definition add_fields (acc f : items) : items :=
  fold_left (fun a kv => upsert (fst kv) (snd kv) a) f acc.
Definition all_fields (ct : ctable) (cls : list Z) : items :=
  fold_left (fun acc c => add_fields acc (own_fields ct c)) cls [].

(* state_type() *)
Definition default_state (ct : ctable) (cls : list Z) : sobj :=
  {| o_cls := cls; o_items := all_fields ct cls |}.

Inductive err := EValue | EAttr.      (* ValueError | AttributeError *)

Inductive res (A : Type) := Ok (a : A) | Err (e : err).
Arguments Ok {A} a.
Arguments Err {A} e.

(* root step: after the repair a DictLikeModel never takes the list-index branch, so both kinds of
   root resolve a segment by name: _data key (DictState) or field (typed model) *)
Definition root_assign (o : sobj) (seg : str) (x : value) : res sobj :=
  if is_dictlike (o_cls o) then Ok {| o_cls := o_cls o; o_items := upsert seg x (o_items o) |}
  else if has_key seg (o_items o) then Ok {| o_cls := o_cls o; o_items := upsert seg x (o_items o) |}
  else Err EValue.                      (* pydantic: object has no field *)

Definition root_get (segs : list str) (o : sobj) : option (sobj + value) :=
  match segs with
  | [] => Some (inl o)
  | s :: r => match lookup s (o_items o) with
              | Some c => option_map inr (vget r c)
              | None => None
              end
  end.

Definition root_set (segs : list str) (x : value) (o : sobj) : res sobj :=
  match segs with
  | [] => Err EValue
  | s :: r => match lookup s (o_items o) with
              | Some child => match vset r x child with
                              | Some child' => root_assign o s child'
                              | None => Err EAttr
                              end
              | None => root_assign o s (nest r x)
              end
  end.

(* get_by_path / set_by_path with their guards *)
Definition get_by_path (o : sobj) (p : str) : res (sobj + value) :=
  let segs := segments p in
  if Nat.ltb MAX_DEPTH (length segs) then Err EValue
  else match root_get segs o with Some r => Ok r | None => Err EValue end.

Definition set_by_path (o : sobj) (p : str) (x : value) : res sobj :=
  match p with
  | [] => Err EValue
  | _ => let segs := segments p in
         if Nat.ltb MAX_DEPTH (length segs) then Err EValue else root_set segs x o
  end.

(* merge_state(current, incoming) *)
Definition merge_state (cur inc : sobj) : res sobj :=
  if subclass (o_cls inc) (o_cls cur) then Ok inc
  else if subclass (o_cls cur) (o_cls inc) then
    Ok {| o_cls := o_cls cur;
          o_items := map (fun kv => (fst kv, match lookup (fst kv) (o_items inc) with
                                             | Some v => v
                                             | None => snd kv
                                             end)) (o_items cur) |}
  else Err EValue.

(* ---------- operations ---------- *)
(* top-level edits made on a state object held by the caller (inside edit_state, or on a snapshot) *)
Inductive edit :=
| EPut (k : str) (v : value)           (* state[k] = v / setattr(state, k, v) *)
| EAdd (k : str) (z : Z).              (* read-modify-write: int + z, anything else becomes z *)

Definition apply_edit (o : sobj) (e : edit) : sobj :=
  let put k v :=
    if is_dictlike (o_cls o) || has_key k (o_items o)
    then {| o_cls := o_cls o; o_items := upsert k v (o_items o) |} else o in
  match e with
  | EPut k v => put k v
  | EAdd k z => match lookup k (o_items o) with
                | Some (VInt n) => put k (VInt (n + z))
                | _ => put k (VInt z)
                end
  end.
Definition apply_edits (o : sobj) (es : list edit) : sobj := fold_left apply_edit es o.

Inductive op :=
| OGet (p : str) (dflt : option value)
| OSet (p : str) (v : value)
| OSetState (inc : sobj)               (* a fresh object supplied by the caller *)
| OClear
| OEdit (es : list edit)
| OGetState                            (* the caller keeps the returned snapshot *)
| OSnapEdit (es : list edit)           (* ... changes its top-level keys / fields *)
| OSnapWrite.                          (* ... and writes it back with set_state, giving it up *)

Inductive out :=
| RVal (v : value)
| RRoot (o : sobj)                     (* get("") returns the state object itself *)
| RState (o : sobj)
| ROk
| RErr (e : err)
| RNoSnap                              (* harness-level: no snapshot held *)
| RUnmodelled.                         (* memory store only, see [m_taint] *)

(* A get_state() snapshot of the in-memory store is a *shallow* copy: it shares every nested
   container with the live state.  The property only speaks about top-level keys / fields of a
   snapshot, and the memory model below only gives identity to top-level dicts.  A dotted-path
   set mutates a nested container in place, so a snapshot taken before it may silently contain the
   new value; writing such a snapshot back is outside the model (the memory model answers
   [RUnmodelled]) and outside the theorems, which carry the hypothesis [wb_clean]. *)
Definition nested_path (p : str) : bool := existsb (Z.eqb 46) p.

Definition out_of_get (r : res (sobj + value)) (dflt : option value) : out :=
  match r with
  | Ok (inl o) => RRoot o
  | Ok (inr v) => RVal v
  | Err e => match dflt with Some d => RVal d | None => RErr e end
  end.

(* get(path, default): the depth guard is outside the try, so it raises even with a default *)
Definition do_get (o : sobj) (p : str) (dflt : option value) : out :=
  if Nat.ltb MAX_DEPTH (length (segments p)) then RErr EValue
  else out_of_get (get_by_path o p) dflt.

(* ================= the specification: a nested dict and the caller's snapshot ================= *)
Record spec := { sp_state : sobj; sp_snap : option sobj }.

Definition spec_init (ct : ctable) (ty : list Z) : spec :=
  {| sp_state := default_state ct ty; sp_snap := None |}.

Definition spec_set_state (s : spec) (inc : sobj) (snap : option sobj) : spec * out :=
  match merge_state (sp_state s) inc with
  | Ok o => ({| sp_state := o; sp_snap := snap |}, ROk)
  | Err e => ({| sp_state := sp_state s; sp_snap := snap |}, RErr e)
  end.

Definition spec_step (ct : ctable) (s : spec) (o : op) : spec * out :=
  match o with
  | OGet p d => (s, do_get (sp_state s) p d)
  | OSet p v => match set_by_path (sp_state s) p v with
                | Ok st => ({| sp_state := st; sp_snap := sp_snap s |}, ROk)
                | Err e => (s, RErr e)
                end
  | OSetState inc => spec_set_state s inc (sp_snap s)
  | OClear => ({| sp_state := default_state ct (o_cls (sp_state s)); sp_snap := sp_snap s |}, ROk)
  | OEdit es => ({| sp_state := apply_edits (sp_state s) es; sp_snap := sp_snap s |}, ROk)
  | OGetState => ({| sp_state := sp_state s; sp_snap := Some (sp_state s) |}, RState (sp_state s))
  | OSnapEdit es => match sp_snap s with
                    | Some sn => ({| sp_state := sp_state s; sp_snap := Some (apply_edits sn es) |}, ROk)
                    | None => (s, RNoSnap)
                    end
  | OSnapWrite => match sp_snap s with
                  | Some sn => spec_set_state s sn None
                  | None => (s, RNoSnap)
                  end
  end.

Fixpoint run {S} (step : S -> op -> S * out) (s : S) (ops : list op) : list out :=
  match ops with
  | [] => []
  | o :: r => let '(s', x) := step s o in x :: run step s' r
  end.

Fixpoint exec {S} (step : S -> op -> S * out) (s : S) (ops : list op) : S :=
  match ops with
  | [] => s
  | o :: r => exec step (fst (step s o)) r
  end.

(* ================= InMemoryStateStore, with object identity made explicit ================= *)
(* A Python state object is (class, reference to its top-level dict): __dict__ for a typed model,
   _data for a DictState.  The heap maps references (positions) to those dicts. *)
Record mobj := { mo_cls : list Z; mo_ref : nat }.
Record mem := { m_heap : list items; m_cur : mobj; m_snap : option mobj; m_taint : bool }.

Definition cell (h : list items) (r : nat) : items := nth r h [].
Definition view (h : list items) (o : mobj) : sobj := {| o_cls := mo_cls o; o_items := cell h (mo_ref o) |}.
Definition alloc (h : list items) (it : items) : list items * nat := (h ++ [it], length h).
Definition store_cell (h : list items) (r : nat) (it : items) : list items := set_nth r it h.

Definition mem_init (ct : ctable) (ty : list Z) : mem :=
  {| m_heap := [all_fields ct ty]; m_cur := {| mo_cls := ty; mo_ref := 0%nat |}; m_snap := None;
     m_taint := false |}.

(* model_copy(): pydantic copies __dict__; the private _data dict is copied only when
   DictLikeModel.__copy__ does so ([copy_data], read from the source by the translator) *)
Definition model_copy (copy_data : bool) (h : list items) (o : mobj) : list items * mobj :=
  if is_dictlike (mo_cls o) && negb copy_data then (h, o)
  else let '(h', r) := alloc h (cell h (mo_ref o)) in (h', {| mo_cls := mo_cls o; mo_ref := r |}).

(* set_state with an object the caller built afresh *)
Definition mem_set_state_fresh (m : mem) (inc : sobj) : mem * out :=
  match merge_state (view (m_heap m) (m_cur m)) inc with
  | Ok o => let '(h', r) := alloc (m_heap m) (o_items o) in
            ({| m_heap := h'; m_cur := {| mo_cls := o_cls o; mo_ref := r |}; m_snap := m_snap m;
                m_taint := m_taint m |}, ROk)
  | Err e => (m, RErr e)
  end.

Definition mem_step (copy_data : bool) (ct : ctable) (m : mem) (o : op) : mem * out :=
  let h := m_heap m in
  let cur := m_cur m in
  match o with
  | OGet p d => (m, do_get (view h cur) p d)
  | OSet p v => let t := m_taint m || nested_path p in
                match set_by_path (view h cur) p v with
                | Ok st => ({| m_heap := store_cell h (mo_ref cur) (o_items st); m_cur := cur;
                               m_snap := m_snap m; m_taint := t |}, ROk)
                | Err e => ({| m_heap := h; m_cur := cur; m_snap := m_snap m; m_taint := t |}, RErr e)
                end
  | OSetState inc => mem_set_state_fresh m inc
  | OClear => mem_set_state_fresh m (default_state ct (mo_cls cur))
  | OEdit es => ({| m_heap := store_cell h (mo_ref cur) (o_items (apply_edits (view h cur) es));
                    m_cur := cur; m_snap := m_snap m; m_taint := m_taint m |}, ROk)
  | OGetState => let '(h', c) := model_copy copy_data h cur in
                 ({| m_heap := h'; m_cur := cur; m_snap := Some c; m_taint := false |}, RState (view h' c))
  | OSnapEdit es => match m_snap m with
                    | Some sn => ({| m_heap := store_cell h (mo_ref sn) (o_items (apply_edits (view h sn) es));
                                     m_cur := cur; m_snap := m_snap m; m_taint := m_taint m |}, ROk)
                    | None => (m, RNoSnap)
                    end
  | OSnapWrite =>
      match m_snap m with
      | Some sn =>
          (* merge_state(self._state, snapshot): same class => the snapshot object itself becomes
             the state; parent class => model_validate builds a new object *)
          if m_taint m then
            ({| m_heap := h; m_cur := cur; m_snap := None; m_taint := true |}, RUnmodelled)
          else if subclass (mo_cls sn) (mo_cls cur) then
            ({| m_heap := h; m_cur := sn; m_snap := None; m_taint := false |}, ROk)
          else
            match merge_state (view h cur) (view h sn) with
            | Ok o2 => let '(h', r) := alloc h (o_items o2) in
                       ({| m_heap := h'; m_cur := {| mo_cls := o_cls o2; mo_ref := r |}; m_snap := None;
                           m_taint := false |}, ROk)
            | Err e => ({| m_heap := h; m_cur := cur; m_snap := None; m_taint := false |}, RErr e)
            end
      | None => (m, RNoSnap)
      end
  end.

(* op sequences in which no snapshot is written back after a dotted-path set *)
Fixpoint wb_clean_from (t : bool) (ops : list op) : bool :=
  match ops with
  | [] => true
  | OGetState :: r => wb_clean_from false r
  | OSet p _ :: r => wb_clean_from (t || nested_path p) r
  | OSnapWrite :: r => negb t && wb_clean_from false r
  | _ :: r => wb_clean_from t r
  end.
Definition wb_clean (ops : list op) : bool := wb_clean_from false ops.

(* ================= SqliteStateStore: one row, every operation loads and saves ================= *)
(* The row holds a serialized copy (no sharing with any Python object).  json.dumps/loads and
   pydantic's dump/validate are taken to be the identity on the JSON values of this model
   (string keys; checked on every run by the correspondence suite, which reads the row back). *)
Record sql := { q_row : option sobj; q_snap : option sobj }.

Definition sql_init : sql := {| q_row := None; q_snap := None |}.

(* _load_state: a missing row is created from state_type() *)
Definition sql_load (ct : ctable) (ty : list Z) (q : sql) : sobj * sql :=
  match q_row q with
  | Some o => (o, q)
  | None => let d := default_state ct ty in (d, {| q_row := Some d; q_snap := q_snap q |})
  end.

(* set_state (repaired): a missing row counts as state_type(), then merge_state, then save *)
Definition sql_set_state (ct : ctable) (ty : list Z) (q : sql) (inc : sobj) (snap : option sobj) : sql * out :=
  let cur := match q_row q with Some o => o | None => default_state ct ty end in
  match merge_state cur inc with
  | Ok o => ({| q_row := Some o; q_snap := snap |}, ROk)
  | Err e => ({| q_row := q_row q; q_snap := snap |}, RErr e)
  end.

Definition sql_step (ct : ctable) (ty : list Z) (q : sql) (o : op) : sql * out :=
  match o with
  | OGet p d => let '(st, q1) := sql_load ct ty q in (q1, do_get st p d)
  | OSet p v => let '(st, q1) := sql_load ct ty q in
                match set_by_path st p v with
                | Ok st' => ({| q_row := Some st'; q_snap := q_snap q1 |}, ROk)
                | Err e => (q1, RErr e)
                end
  | OSetState inc => sql_set_state ct ty q inc (q_snap q)
  | OClear => (* repaired: reset to the defaults of the class of the current state *)
              let '(st, q1) := sql_load ct ty q in
              sql_set_state ct ty q1 (default_state ct (o_cls st)) (q_snap q1)
  | OEdit es => let '(st, q1) := sql_load ct ty q in
                ({| q_row := Some (apply_edits st es); q_snap := q_snap q1 |}, ROk)
  | OGetState => let '(st, q1) := sql_load ct ty q in
                 ({| q_row := q_row q1; q_snap := Some st |}, RState st)
  | OSnapEdit es => match q_snap q with
                    | Some sn => ({| q_row := q_row q; q_snap := Some (apply_edits sn es) |}, ROk)
                    | None => (q, RNoSnap)
                    end
  | OSnapWrite => match q_snap q with
                  | Some sn => sql_set_state ct ty q sn None
                  | None => (q, RNoSnap)
                  end
  end.

(* ================= comparators used by the correspondence suite ================= *)
Fixpoint value_eqb (a b : value) {struct a} : bool :=
  match a, b with
  | VNull, VNull => true
  | VBool x, VBool y => Bool.eqb x y
  | VInt x, VInt y => Z.eqb x y
  | VFlt x, VFlt y => Z.eqb x y
  | VStr x, VStr y => str_eqb x y
  | VList x, VList y =>
      (fix go (x y : list value) : bool :=
         match x, y with
         | [], [] => true
         | a' :: x', b' :: y' => value_eqb a' b' && go x' y'
         | _, _ => false
         end) x y
  | VDict x, VDict y =>
      (fix go (x y : list (str * value)) : bool :=
         match x, y with
         | [], [] => true
         | (k, a') :: x', (k', b') :: y' => str_eqb k k' && value_eqb a' b' && go x' y'
         | _, _ => false
         end) x y
  | _, _ => false
  end.

Definition sobj_eqb (a b : sobj) : bool :=
  zlist_eqb (o_cls a) (o_cls b) && value_eqb (VDict (o_items a)) (VDict (o_items b)).

Definition err_eqb (a b : err) : bool :=
  match a, b with EValue, EValue | EAttr, EAttr => true | _, _ => false end.

Definition out_eqb (a b : out) : bool :=
  match a, b with
  | RVal x, RVal y => value_eqb x y
  | RRoot x, RRoot y | RState x, RState y => sobj_eqb x y
  | ROk, ROk | RNoSnap, RNoSnap | RUnmodelled, RUnmodelled => true
  | RErr x, RErr y => err_eqb x y
  | _, _ => false
  end.

(* 0 = equal; otherwise 1 + index of the first difference (length mismatch counts) *)
Fixpoint first_diff (a b : list out) (i : Z) : Z :=
  match a, b with
  | [], [] => 0
  | x :: a', y :: b' => if out_eqb x y then first_diff a' b' (i + 1) else i + 1
  | _, _ => i + 1
  end.

(* one correspondence case: the outputs observed on the two real stores, and the final stored state
   of each, against the models (and the models against the specification) *)
Definition check_case (copy_data : bool) (ct : ctable) (ty : list Z) (ops : list op)
           (obs_mem obs_sql : list out) (fin_mem fin_sql : sobj) : Z :=
  let sp := run (spec_step ct) (spec_init ct ty) ops in
  let d1 := first_diff (run (mem_step copy_data ct) (mem_init ct ty) ops) obs_mem 0 in
  if negb (d1 =? 0) then d1 else
  let d2 := first_diff (run (sql_step ct ty) sql_init ops) obs_sql 0 in
  if negb (d2 =? 0) then 1000 + d2 else
  let d3 := first_diff sp obs_mem 0 in
  if negb (d3 =? 0) then 2000 + d3 else
  let mf := exec (mem_step copy_data ct) (mem_init ct ty) ops in
  if negb (sobj_eqb (view (m_heap mf) (m_cur mf)) fin_mem) then 3000 else
  let qf := exec (sql_step ct ty) sql_init ops in
  if negb (sobj_eqb (fst (sql_load ct ty qf)) fin_sql) then 3001 else 0.
