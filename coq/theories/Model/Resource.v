(* Model/Resource.v — C22: ResourceManager (packages/llama-index-workflows/src/workflows/resource.py)
   and the resource part of `partial` (runtime/types/step_function.py), as coded.  No proofs here.

     partial(...):                                   -- one task per step invocation
         with manager.resolution_scope():            -- depth += 1 ... depth -= 1; if depth == 0: cache.clear()
             for rd in step_config.resources:
                 kwargs[rd.name] = await manager.get(rd.resource)     -- depth > 0: plain _get
     _get(resource):
         if name in self._resolving: raise ValueError("Circular resource dependency detected: ...")
         if resource.cache and name in self.resources: return self.resources[name]
         if name in self._resolution_cache: return self._resolution_cache[name]
         self._resolving.append(name)
         try:
             val = await resource.resolve(self)      -- dependencies in signature order (each `await manager.get`),
                                                        then the factory; an async factory may suspend
             if resource.cache: self.resources[name] = val
             self._resolution_cache[name] = val
             return val
         finally:
             if name in self._resolving: self._resolving.remove(name)

   A resource graph gives, per descriptor name: cache flag, number of times its (async) factory
   suspends before returning (0 = sync factory, or async without a real suspension), whether the
   factory raises instead of returning, and the dependency names in signature order.  One descriptor
   per name (modelling restriction: two factories with one __qualname__ collide in the real code).

   A task is the continuation of one `partial` call: the stack of `_get` frames it is inside of.
   [micro] is one sequential action of the task; [advance] runs a task up to its next suspension
   (= one atomic segment for the event loop); scheduler choices are [TStart tid params] (a step
   invocation begins: task created) and [TRun tid]. *)
From Coq Require Import List ZArith Bool.
Import ListNotations.
From WF Require Import Base.SchedRes.
Open Scope Z_scope.

Record node := mkNode { n_cache : bool; n_susp : nat; n_fails : bool; n_deps : list Z }.
Definition graph := list (Z * node).

Definition node_of (g : graph) (x : Z) : node :=
  match alookup x g with Some nd => nd | None => mkNode false 0 false [] end.

(* ResourceManager + observation log *)
Record mgr := mkMgr {
  m_resources : list (Z * Z);        (* self.resources: name -> object *)
  m_resolving : list Z;              (* self._resolving *)
  m_rcache : list (Z * Z);           (* self._resolution_cache *)
  m_depth : Z;                       (* self._resolution_depth *)
  m_next : Z;                        (* identity of the next object a factory returns *)
  m_created : list (Z * (Z * (Z * list Z)))   (* factory returns, oldest first: name, (object, (task, args)) *)
}.

Definition mgr0 : mgr := mkMgr [] [] [] 0 1 [].

Record frame := mkFrame { f_name : Z; f_todo : list Z; f_args : list Z; f_susp : nat }.

Inductive tstatus := TInit | TRunning | TDone | TFailed (kind : Z) (name : Z).
(* kind 1: ValueError circular dependency on [name];  kind 2: the factory of [name] raised *)

Record task := mkTask {
  t_params : list Z;            (* step resources still to resolve *)
  t_stack : list frame;         (* innermost first *)
  t_got : list (Z * Z);         (* injected so far (name, object), newest first *)
  t_status : tstatus
}.

Definition new_task (params : list Z) : task := mkTask params [] [] TInit.

(* list.remove(x): first occurrence *)
Fixpoint remove_first (x : Z) (l : list Z) : list Z :=
  match l with
  | [] => []
  | y :: t => if y =? x then t else y :: remove_first x t
  end.

Definition mem (x : Z) (l : list Z) : bool := existsb (Z.eqb x) l.

(* leave resolution_scope() *)
Definition scope_exit (m : mgr) : mgr :=
  let d := m_depth m - 1 in
  mkMgr (m_resources m) (m_resolving m) (if d =? 0 then [] else m_rcache m) d (m_next m) (m_created m).

(* an exception propagates out of every `_get` frame of the task (each finally removes its name)
   and out of the scope *)
Fixpoint unwind (stack : list frame) (rs : list Z) : list Z :=
  match stack with
  | [] => rs
  | f :: t => unwind t (remove_first (f_name f) rs)
  end.

Definition fail_task (kind name : Z) (m : mgr) (t : task) : mgr * task :=
  let m1 := mkMgr (m_resources m) (unwind (t_stack t) (m_resolving m)) (m_rcache m) (m_depth m)
                  (m_next m) (m_created m) in
  (scope_exit m1, mkTask (t_params t) [] (t_got t) (TFailed kind name)).

(* a `_get` returns v to its caller: the enclosing frame's next argument, or the step's kwarg *)
Definition deliver (x v : Z) (t : task) : task :=
  match t_stack t with
  | [] => mkTask (tl (t_params t)) [] ((x, v) :: t_got t) (t_status t)
  | f :: rest => mkTask (t_params t) (mkFrame (f_name f) (tl (f_todo f)) (f_args f ++ [v]) (f_susp f) :: rest)
                        (t_got t) (t_status t)
  end.

(* `_get(x)` up to the point where it returns, raises or starts resolving *)
Definition call (g : graph) (x : Z) (m : mgr) (t : task) : mgr * task :=
  if mem x (m_resolving m) then fail_task 1 x m t
  else
    let nd := node_of g x in
    match (if n_cache nd then alookup x (m_resources m) else None) with
    | Some v => (m, deliver x v t)
    | None =>
        match alookup x (m_rcache m) with
        | Some v => (m, deliver x v t)
        | None =>
            (mkMgr (m_resources m) (m_resolving m ++ [x]) (m_rcache m) (m_depth m) (m_next m) (m_created m),
             mkTask (t_params t) (mkFrame x (n_deps nd) [] (n_susp nd) :: t_stack t) (t_got t) (t_status t))
        end
    end.

(* the factory of the top frame returns: record, cache, finally: remove, hand the value down *)
Definition finish_frame (g : graph) (tid : Z) (f : frame) (rest : list frame) (m : mgr) (t : task) : mgr * task :=
  let x := f_name f in
  let nd := node_of g x in
  if n_fails nd then fail_task 2 x m t
  else
    let o := m_next m in
    let m' := mkMgr (if n_cache nd then aset x o (m_resources m) else m_resources m)
                    (remove_first x (m_resolving m))
                    (aset x o (m_rcache m)) (m_depth m) (o + 1)
                    (m_created m ++ [(x, (o, (tid, f_args f)))]) in
    (m', deliver x o (mkTask (t_params t) rest (t_got t) (t_status t))).

(* one sequential action; the boolean says: the task suspended (control returns to the loop) *)
Definition micro (g : graph) (tid : Z) (m : mgr) (t : task) : mgr * task * bool :=
  match t_status t with
  | TInit =>
      (mkMgr (m_resources m) (m_resolving m) (m_rcache m) (m_depth m + 1) (m_next m) (m_created m),
       mkTask (t_params t) (t_stack t) (t_got t) TRunning, false)
  | TRunning =>
      match t_stack t with
      | [] =>
          match t_params t with
          | [] => (scope_exit m, mkTask [] [] (t_got t) TDone, false)
          | p :: _ => (call g p m t, false)
          end
      | f :: rest =>
          match f_todo f with
          | d :: _ => (call g d m t, false)
          | [] =>
              match f_susp f with
              | S k => (m, mkTask (t_params t) (mkFrame (f_name f) [] (f_args f) k :: rest) (t_got t) (t_status t), true)
              | O => (finish_frame g tid f rest m t, false)
              end
          end
      end
  | _ => (m, t, true)
  end.

Definition terminal (t : task) : bool :=
  match t_status t with TDone | TFailed _ _ => true | _ => false end.

(* run the task until it suspends or ends; [fuel] bounds the number of sequential actions *)
Fixpoint advance (fuel : nat) (g : graph) (tid : Z) (m : mgr) (t : task) : mgr * task :=
  match fuel with
  | O => (m, t)
  | S k =>
      if terminal t then (m, t)
      else let '(m', t', y) := micro g tid m t in
           if y then (m', t') else advance k g tid m' t'
  end.

Record st := mkSt { s_mgr : mgr; s_tasks : list (Z * task) }.
Definition init : st := mkSt mgr0 [].

Inductive act := TStart (tid : Z) (params : list Z) | TRun (tid : Z).

Section Step.
  Variable g : graph.
  Variable fuel : nat.

  Definition step (s : st) (a : act) : st :=
    match a with
    | TStart tid params =>
        match alookup tid (s_tasks s) with
        | Some _ => s
        | None => mkSt (s_mgr s) (s_tasks s ++ [(tid, new_task params)])
        end
    | TRun tid =>
        match alookup tid (s_tasks s) with
        | None => s
        | Some t =>
            let '(m', t') := advance fuel g tid (s_mgr s) t in
            mkSt m' (aupd tid t' (s_tasks s))
        end
    end.

  Definition exec (s : st) (sched : list act) : st := run_sched step s sched.
End Step.

(* ---- canonical encodings and the trace comparator ------------------------------------------ *)

Definition enc_pairs (l : list (Z * Z)) : list Z :=
  Z.of_nat (length l) :: flat_map (fun kv => [fst kv; snd kv]) l.

Definition enc_mgr (m : mgr) : list Z :=
  enc_pairs (m_resources m) ++ (Z.of_nat (length (m_resolving m)) :: m_resolving m)
  ++ enc_pairs (m_rcache m) ++ [m_depth m; m_next m].

Definition enc_created (m : mgr) : list Z :=
  flat_map (fun e => [fst e; fst (snd e); fst (snd (snd e)); Z.of_nat (length (snd (snd (snd e))))]
                      ++ snd (snd (snd e))) (m_created m).

Definition enc_status (s : tstatus) : list Z :=
  match s with
  | TInit => [0; 0; 0] | TRunning => [1; 0; 0] | TDone => [2; 0; 0] | TFailed k x => [3; k; x]
  end.

Definition enc_task (o : option task) : list Z :=
  match o with
  | None => [-1]
  | Some t => enc_status (t_status t)
              ++ (match t_status t with TDone => enc_pairs (rev (t_got t)) | _ => [0] end)
  end.
(* (what a step invocation has been given so far is not observable from outside before `partial` returns) *)

Definition zlist_eqb (a b : list Z) : bool := if list_eq_dec Z.eq_dec a b then true else false.

(* after every scheduler choice: the manager and the acting task as the implementation showed them *)
Fixpoint check_trace (g : graph) (fuel : nat) (s : st) (i : Z) (tr : list (act * Z * list Z * list Z)) : Z * st :=
  match tr with
  | [] => (0, s)
  | (a, tid, em, et) :: rest =>
      let s' := step g fuel s a in
      if zlist_eqb (enc_mgr (s_mgr s')) em && zlist_eqb (enc_task (alookup tid (s_tasks s'))) et
      then check_trace g fuel s' (i + 1) rest else (i, s')
  end.

Definition check_case (g : graph) (fuel : nat) (tr : list (act * Z * list Z * list Z)) (created : list Z) : Z :=
  let '(z, s) := check_trace g fuel init 1 tr in
  if z =? 0 then (if zlist_eqb (enc_created (s_mgr s)) created then 0 else -1) else z.

Definition dump_case (g : graph) (fuel : nat) (tr : list (act * Z * list Z * list Z)) (tids : list Z) : list Z :=
  let '(z, s) := check_trace g fuel init 1 tr in
  z :: enc_mgr (s_mgr s) ++ (-7 :: enc_created (s_mgr s))
    ++ flat_map (fun t => -8 :: enc_task (alookup t (s_tasks s))) tids.
