(* M-StateSchedFifo (C20): the same interleaving semantics as Model/StateSched.v, but with
   asyncio.Lock's actual grant discipline: a locking task that finds the lock busy is appended to a
   FIFO queue and suspended; release hands the lock to the first waiter (which runs when it is
   scheduled next; nobody else can take the lock in between — asyncio.Lock.acquire refuses while
   there are waiters).  Proofs/StateSchedFifoProofs.v shows that every run of this semantics is a
   run of the guard semantics of StateSched.v (some steps become stutters), so the theorems proved
   for all schedules there hold here as well.  No proofs in this file. *)
From Coq Require Import List ZArith Bool.
Import ListNotations.
From WF Require Import Model.StateStore Model.StateSched.

Section Fifo.
  Variables St Lo : Type.

  Inductive fphase :=
  | FNotStarted
  | FWaiting                                     (* in the lock's queue, or just handed the lock *)
  | FRunning (rest : list (act St Lo)) (l : Lo)
  | FFinished.

  Record fsys := {
    fsh : St;
    fholder : option nat;
    fqueue : list nat;
    fph : nat -> fphase;
    forder : list nat
  }.

  Variable tasks : nat -> task St Lo.
  Variable n : nat.

  Definition set_fph (f : nat -> fphase) (i : nat) (p : fphase) : nat -> fphase :=
    fun j => if Nat.eqb j i then p else f j.

  Definition ffinish (i : nat) (s : St) (y : fsys) : fsys :=
    let locked := t_locked _ _ (tasks i) in
    {| fsh := s;
       fholder := if locked then hd_error (fqueue y) else fholder y;
       fqueue := if locked then tl (fqueue y) else fqueue y;
       fph := set_fph (fph y) i FFinished;
       forder := forder y ++ [i] |}.

  Definition fadvance (i : nat) (segs : list (act St Lo)) (l : Lo) (y : fsys) : fsys :=
    match segs with
    | [] => ffinish i (fsh y) y
    | a :: rest =>
        let '(s', l') := a (fsh y) l in
        match rest with
        | [] => ffinish i s' y
        | _ :: _ => {| fsh := s'; fholder := fholder y; fqueue := fqueue y;
                       fph := set_fph (fph y) i (FRunning rest l'); forder := forder y |}
        end
    end.

  Definition fstep (y : fsys) (i : nat) : fsys :=
    if Nat.ltb i n then
      let t := tasks i in
      match fph y i with
      | FNotStarted =>
          if t_locked _ _ t then
            match fholder y with
            | None => fadvance i (t_segs _ _ t) (t_init _ _ t)
                               {| fsh := fsh y; fholder := Some i; fqueue := fqueue y; fph := fph y;
                                  forder := forder y |}
            | Some _ => {| fsh := fsh y; fholder := fholder y; fqueue := fqueue y ++ [i];
                           fph := set_fph (fph y) i FWaiting; forder := forder y |}
            end
          else fadvance i (t_segs _ _ t) (t_init _ _ t) y
      | FWaiting =>
          match fholder y with
          | Some h => if Nat.eqb h i then fadvance i (t_segs _ _ t) (t_init _ _ t) y else y
          | None => y
          end
      | FRunning rest l => fadvance i rest l y
      | FFinished => y
      end
    else y.

  Definition finit (s0 : St) : fsys :=
    {| fsh := s0; fholder := None; fqueue := []; fph := fun _ => FNotStarted; forder := [] |}.

  Definition frun_sched (s0 : St) (sch : list nat) : fsys := fold_left fstep sch (finit s0).

  Fixpoint fall_finished (y : fsys) (k : nat) : bool :=
    match k with
    | O => true
    | S k' => match fph y k' with FFinished => fall_finished y k' | _ => false end
    end.
End Fifo.

Arguments FNotStarted {St Lo}.
Arguments FWaiting {St Lo}.
Arguments FRunning {St Lo} rest l.
Arguments FFinished {St Lo}.

(* correspondence check: [sch] = the driver's pokes, each followed by the segments the real lock's
   hand-over made run in the same loop iteration *)
Definition check_fifo_case (mk : cop -> T) (s0 : sobj) (ops : list cop) (sch : list nat) (fin : sobj) : Z :=
  let y := frun_sched _ _ (task_table mk ops) (length ops) s0 sch in
  if negb (fall_finished _ _ y (length ops)) then 1%Z
  else if negb (sobj_eqb (fsh _ _ y) fin) then 2%Z else 0%Z.
