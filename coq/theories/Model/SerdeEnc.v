(* Comparators and literal helpers for the `serde` correspondence suite.  No proofs. *)
From Coq Require Import List ZArith Bool.
Import ListNotations.
From WF Require Import Model.Serde.
Open Scope Z_scope.

Fixpoint json_eqb (a b : json) : bool :=
  match a, b with
  | JNull, JNull => true
  | JBool x, JBool y => Bool.eqb x y
  | JNum x, JNum y => Z.eqb x y
  | JFlt x, JFlt y => Z.eqb x y
  | JStr x, JStr y => Z.eqb x y
  | JArr la, JArr lb =>
    (fix go (la lb : list json) {struct la} : bool :=
       match la, lb with
       | [], [] => true
       | x :: ra, y :: rb => json_eqb x y && go ra rb
       | _, _ => false
       end) la lb
  | JObj la, JObj lb =>
    (fix go (la lb : list (Z * json)) {struct la} : bool :=
       match la, lb with
       | [], [] => true
       | (k, x) :: ra, (k', y) :: rb => Z.eqb k k' && json_eqb x y && go ra rb
       | _, _ => false
       end) la lb
  | _, _ => false
  end.
(* equality of wires up to the order of object keys (JSON objects are unordered) *)
Fixpoint json_equiv (a b : json) {struct a} : bool :=
  match a, b with
  | JArr la, JArr lb =>
    (fix go (la lb : list json) {struct la} : bool :=
       match la, lb with
       | [], [] => true
       | x :: ra, y :: rb => json_equiv x y && go ra rb
       | _, _ => false
       end) la lb
  | JObj la, JObj lb =>
    Nat.eqb (length la) (length lb) &&
    (fix go (la : list (Z * json)) : bool :=
       match la with
       | [] => true
       | (k, x) :: ra => match jget k lb with Some y => json_equiv x y | None => false end && go ra
       end) la
  | _, _ => json_eqb a b
  end.
Fixpoint kvj_eqb (la lb : list (Z * json)) : bool :=
  match la, lb with
  | [], [] => true
  | (k, x) :: ra, (k', y) :: rb => Z.eqb k k' && json_eqb x y && kvj_eqb ra rb
  | _, _ => false
  end.
Fixpoint tval_eqb (a b : tval) : bool :=
  match a, b with
  | TJ x, TJ y => json_eqb x y
  | TX c m, TX c' m' => Z.eqb c c' && Z.eqb m m'
  | TE c ty dy r, TE c' ty' dy' r' =>
    Z.eqb c c' && kvj_eqb dy dy' && json_eqb r r' &&
    (fix go (la lb : list (Z * tval)) {struct la} : bool :=
       match la, lb with
       | [], [] => true
       | (k, x) :: ra, (k', y) :: rb => Z.eqb k k' && tval_eqb x y && go ra rb
       | _, _ => false
       end) ty ty'
  | TArr la, TArr lb =>
    (fix go (la lb : list tval) {struct la} : bool :=
       match la, lb with
       | [], [] => true
       | x :: ra, y :: rb => tval_eqb x y && go ra rb
       | _, _ => false
       end) la lb
  | TObj la, TObj lb =>
    (fix go (la lb : list (Z * tval)) {struct la} : bool :=
       match la, lb with
       | [], [] => true
       | (k, x) :: ra, (k', y) :: rb => Z.eqb k k' && tval_eqb x y && go ra rb
       | _, _ => false
       end) la lb
  | _, _ => false
  end.
Definition otval_eqb (a b : option tval) : bool :=
  match a, b with
  | Some x, Some y => tval_eqb x y
  | None, None => true
  | _, _ => false
  end.

(* class table / exception table literals *)
Definition CI (stop : bool) (name : Z) (fs : list (Z * kind)) : cinfo :=
  {| c_stop := stop; c_name := name; c_fields := fs |}.
Definition mkct (tbl : list (Z * cinfo)) : Z -> option cinfo := fun c => jget c tbl.
(* (class, importable, [(msg, ctor code, ctor msg)], [(msg, new msg or -1)]) ; ctor code 0 ok, 1 lookup error, 2 other *)
Definition XI (imp : bool) (ctor : list (Z * (Z * Z))) (nw : list (Z * Z)) : xinfo :=
  {| x_importable := imp;
     x_ctor := fun m => match jget m ctor with
                        | Some (0, m') => CtorOk m'
                        | Some (1, _) => CtorLookupError
                        | Some _ => CtorOtherError
                        | None => CtorOk m end;
     x_new := fun m => match jget m nw with
                       | Some m' => if m' <? 0 then None else Some m'
                       | None => Some m end |}.
Definition mkxt (tbl : list (Z * xinfo)) : Z -> xinfo :=
  fun c => match jget c tbl with Some i => i | None => XI true [] [] end.

(* tick shapes with the harness' fixed string ids: field names 101.., type tags 121..; a name that
   is also a reserved codec key or another field keeps that id ("result" = k_result, tag "timeout" =
   field "timeout") — one string, one id *)
Definition shapes : kind :=
  tick_shapes 101 102 103 k_result 105 106 107 108 109 110 111 112 113 114 115 116 117 118
              121 122 123 124 125 110 127 128 k_result 130 131 132 133 134.

(* bit 0: model encoding differs from the wire the real code produced;
   bit 1: model decoding of that wire differs from what the real code read back;
   bit 2: the value is in the domain of the round-trip theorems (confb) but the real code did not
          read back the original;
   bit 3 (not an error): the value is outside that domain *)
Definition dom_bits (inb : bool) (orig : tval) (back : option tval) : Z :=
  if inb then (if otval_eqb back (Some orig) then 0 else 4) else 8.
Definition scase (ct : Z -> option cinfo) (xt : Z -> xinfo) (e : tval) (wire : json) (back : option tval) : Z :=
  (if json_equiv (json_encode ct true e) wire then 0 else 1)
  + (if otval_eqb (json_decode ct xt wire) back then 0 else 2)
  + dom_bits (confb ct xt e KEvent) e back.
Definition ecase (ct : Z -> option cinfo) (xt : Z -> xinfo) (e : tval) (registry : list Z) (wire : json)
  (back : option tval) : Z :=
  (if json_equiv (env_encode ct true e) wire then 0 else 1)
  + (if otval_eqb (env_decode ct xt registry wire) back then 0 else 2)
  + dom_bits (confb ct xt e KEvent) e back.
Definition tcase (ct : Z -> option cinfo) (xt : Z -> xinfo) (t : tval) (wire : json) (back : option tval) : Z :=
  (if json_equiv (tick_encode ct true t) wire then 0 else 1)
  + (if otval_eqb (tick_decode ct xt shapes wire) back then 0 else 2)
  + dom_bits (confb ct xt t shapes) t back.
(* decode only (envelope without qualified name) *)
Definition dcase (ct : Z -> option cinfo) (xt : Z -> xinfo) (registry : list Z) (e : tval) (wire : json)
  (back : option tval) : Z :=
  (if otval_eqb (env_decode ct xt registry wire) back then 0 else 2)
  + dom_bits (confb ct xt e KEvent) e back.
