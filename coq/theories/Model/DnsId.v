(* M-DnsId — executable model of deployment-id derivation (C32).

   Mirrors, statement by statement,
     packages/llama-agents-control-plane/src/llama_agents/control_plane/k8s_client.py
       find_deployment_id, _append_random_suffix, the call site in create_deployment
     packages/llama-agents-core/src/llama_agents/core/schema/deployments.py
       _DNS_1035_RE / validate_dns_1035_label
   Strings are lists of code points.  The input of the model is the display name AFTER
   `str.lower()` (trusted builtin).  Every constant, character class and the `to_take`
   expression come from Generated.v (harness/translate_dnsid.py, fail closed), so the
   definitions below are driven by what the source says now.  No proofs in this file. *)
From Coq Require Import List ZArith Bool.
Import ListNotations.
From WF Require Import Generated.
Open Scope Z_scope.

Definition str := list Z.

Definition in_ranges (rs : list (Z * Z)) (c : Z) : bool :=
  existsb (fun r => (fst r <=? c) && (c <=? snd r)) rs.
Definition in_chars (cs : list Z) (c : Z) : bool := existsb (Z.eqb c) cs.

(* s[:n] for a Python int n (negative n counts from the end) *)
Definition slice_to (n : Z) (s : str) : str :=
  if n <? 0 then firstn (length s - Z.to_nat (- n)) s else firstn (Z.to_nat n) s.

(* ---- find_deployment_id: the three re.sub steps ---- *)

(* re.sub(r"[^a-z0-9]", "-", s): every character outside the kept ranges is replaced *)
Definition keep (c : Z) : bool := in_ranges c32_keep_ranges c.
Definition subst (s : str) : str :=
  flat_map (fun c => if keep c then [c] else c32_subst_repl) s.

(* re.sub(r"-+", "-", s): every maximal run of the character is replaced (greedy +) *)
Fixpoint collapse (s : str) : str :=
  match s with
  | [] => []
  | c :: t =>
      if c =? c32_collapse_char then
        match t with
        | d :: _ => if d =? c32_collapse_char then collapse t else c32_collapse_repl ++ collapse t
        | [] => c32_collapse_repl
        end
      else c :: collapse t
  end.

(* re.sub(r"^-|-$", "", s) on a newline-free string: one occurrence at the beginning and one
   at the end (of what is left) are replaced *)
Definition strip_lead (s : str) : str :=
  match s with
  | c :: t => if c =? c32_strip_lead_char then c32_strip_repl ++ t else s
  | [] => []
  end.
Fixpoint strip_trail (s : str) : str :=
  match s with
  | [] => []
  | c :: t =>
      match t with
      | [] => if c =? c32_strip_trail_char then c32_strip_repl else [c]
      | _ => c :: strip_trail t
      end
  end.

Definition sanitize (s : str) : str := strip_trail (strip_lead (collapse (subst s))).

(* str.isalpha / str.isdigit on the characters that can occur where they are called (ASCII) *)
Definition alpha_ranges : list (Z * Z) := [(65, 90); (97, 122)].
Definition is_alpha (c : Z) : bool := in_ranges alpha_ranges c.
Definition is_digit (c : Z) : bool := (48 <=? c) && (c <=? 57).

(* if deployment_id and not deployment_id[0].isalpha(): deployment_id = "d-" + deployment_id *)
Definition add_prefix (s : str) : str :=
  match s with
  | [] => []
  | c :: _ => if is_alpha c then s else c32_prefix ++ s
  end.

(* str.rstrip(chars) *)
Fixpoint rstrip (cs : list Z) (s : str) : str :=
  match s with
  | [] => []
  | c :: t =>
      match rstrip cs t with
      | [] => if in_chars cs c then [] else [c]
      | r => c :: r
      end
  end.

(* base_deployment_id *)
Definition base (s : str) : str :=
  rstrip c32_rstrip_chars (slice_to c32_max_length (add_prefix (sanitize s))).

(* the "too short" test; c32_short_on_alnum tells which of the two recognised forms the source
   uses: len(sanitised.replace("-", "")) < 3 (true) or len(deployment_id) < 3 (false) *)
Definition too_short (s : str) : bool :=
  if c32_short_on_alnum
  then Z.of_nat (length (filter (fun c => negb (c =? c32_short_removed)) (sanitize s))) <? c32_short_limit
  else Z.of_nat (length (base s)) <? c32_short_limit.

(* ---- _append_random_suffix ---- *)

(* random.choice / each element of random.choices: some element of the population; the draw is
   an arbitrary integer reduced modulo the population size *)
Definition pick (alpha : list Z) (i : Z) : Z :=
  nth (Z.to_nat (i mod Z.of_nat (length alpha))) alpha 0.

(* "".join(random.choices("0123456789abcdef", k=randomness)); d j = draw for position j *)
Definition hex_of (d : nat -> Z) : str :=
  map (fun j => pick c32_hex_alphabet (d j)) (seq 0 (Z.to_nat c32_randomness)).

Definition append_suffix (b : str) (max_length : Z) (d : nat -> Z) (letter : Z) : str :=
  let hex := hex_of d in
  match b with
  | [] =>
      match hex with
      | h :: t => if is_digit h then pick c32_letter_alphabet letter :: t else hex
      | [] => hex
      end
  | _ => slice_to (c32_to_take max_length c32_randomness) b ++ c32_suffix_sep ++ hex
  end.

(* ---- the retry loop ----
   oracle i cand : answer of the i-th call (0-based) of validate_deployment_id, on cand
   dr n          : the draws of the n-th call (0-based) of _append_random_suffix
   result        : (returned id or None = ValueError, number of _append_random_suffix calls
                   made, number of validate_deployment_id calls made) *)
Definition draws := nat -> (nat -> Z) * Z.

Definition suffixed (b : str) (dr : draws) (n : nat) : str :=
  append_suffix b c32_max_length (fst (dr n)) (snd (dr n)).

Fixpoint try_ids (oracle : nat -> str -> bool) (dr : draws) (b : str)
         (fuel i n : nat) (cand : str) : option str * nat * nat :=
  match fuel with
  | O => (None, n, i)
  | S f =>
      if oracle i cand then (Some cand, n, S i)
      else try_ids oracle dr b f (S i) (S n) (suffixed b dr n)
  end.

Definition find_deployment_id (oracle : nat -> str -> bool) (dr : draws) (s : str) (force : bool)
  : option str * nat * nat :=
  let b := base s in
  if too_short s || force
  then try_ids oracle dr b (Z.to_nat c32_attempts) 0 1 (suffixed b dr 0)
  else try_ids oracle dr b (Z.to_nat c32_attempts) 0 0 b.

(* create_deployment (no explicit id):
     is_reserved = display_name.lower() in reserved_deployment_ids
     deployment_id = await find_deployment_id(display_name, force_suffix=is_reserved) *)
Definition str_eqb (a b : str) : bool := if list_eq_dec Z.eq_dec a b then true else false.
Definition is_reserved (s : str) : bool :=
  if c32_force_is_lower_name_in_reserved then existsb (str_eqb s) c32_reserved else false.
Definition derive_id (oracle : nat -> str -> bool) (dr : draws) (s : str) : option str * nat * nat :=
  find_deployment_id oracle dr s (is_reserved s).

(* ---- _DNS_1035_RE = ^[first]([mid]{lo,hi}[last])?$ ---- *)
Definition dns_full (s : str) : bool :=
  match s with
  | [] => false
  | c :: r =>
      in_ranges c32_dns_first c &&
      match r with
      | [] => true
      | _ =>
          let m := removelast r in
          (c32_dns_mid_min <=? Z.of_nat (length m)) && (Z.of_nat (length m) <=? c32_dns_mid_max)
          && forallb (in_ranges c32_dns_mid) m && in_ranges c32_dns_last (last r 0)
      end
  end.

(* `.match` with a pattern ending in `$`: also accepts one trailing newline *)
Definition dns_match (s : str) : bool :=
  dns_full s ||
  (if c32_dns_uses_fullmatch then false
   else match rev s with 10 :: t => dns_full (rev t) | _ => false end).

(* ---- comparators used by the correspondence suite (0 = agreement) ---- *)
Definition str_agree (a b : str) : Z := if list_eq_dec Z.eq_dec a b then 0 else 1.
Definition ostr_agree (a b : option str) : Z :=
  match a, b with
  | Some x, Some y => str_agree x y
  | None, None => 0
  | _, _ => 1
  end.
Definition res_agree (r : option str * nat * nat) (id : option str) (n k : Z) : Z :=
  match r with
  | (rid, rn, rk) =>
      if (ostr_agree rid id =? 0) && (Z.of_nat rn =? n) && (Z.of_nat rk =? k) then 0
      else if negb (ostr_agree rid id =? 0) then 1 else if negb (Z.of_nat rn =? n) then 2 else 3
  end.
Definition b_agree (a b : bool) : Z := if Bool.eqb a b then 0 else 1.

(* scripted draws / oracle from finite tables (missing entries: 0 / false) *)
Definition table_draws (t : list (list Z * Z)) : draws :=
  fun n => let e := nth n t ([], 0) in (fun j => nth j (fst e) 0, snd e).
Definition table_oracle (t : list bool) : nat -> str -> bool := fun i _ => nth i t false.
