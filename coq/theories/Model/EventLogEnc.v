(* Coarse operations of the `eventlog` correspondence suite, interpreted through the fine-grained
   actions of Model/EventLog.v (each harness op expands into a list of [action]s, so every execution
   compared with the real code is one of the schedules the theorems quantify over).  No proofs. *)
From Coq Require Import List ZArith Bool.
Import ListNotations.
From WF Require Import Model.EventLog.
Open Scope Z_scope.

Inductive op :=
| OAppend (e : evt)                                   (* await store.append_event *)
| OSub (base : bool) (k : Z)                          (* store.subscribe_events / the abstract default *)
| OResolve (after : option Z) (inc : bool) (h : hstate)   (* _resolve_event_stream *)
| ONext (i : nat)                                     (* ensure_future(gen.__anext__()) *)
| OTick                                               (* poll interval elapses *)
| OQuery (after : option Z) (limit : option Z).       (* store.query_events *)

(* harness state: the system + which subscribers have an outstanding __anext__ *)
Record hst := mkH { h_sys : sys ; h_req : list bool }.

Definition nthb (l : list bool) (i : nat) : bool := nth i l false.
Fixpoint setb (l : list bool) (i : nat) (v : bool) : list bool :=
  match l, i with
  | [], _ => []
  | _ :: t, O => v :: t
  | x :: t, S j => x :: setb t j v
  end.

Definition sub_at (s : sys) (i : nat) : option sub := nth_error (subs s) i.
Definition nsubs (h : hst) : nat := length (subs (h_sys h)).

(* after the loop settles: every outstanding request whose generator can run does run;
   deliveries are reported in subscriber order *)
Fixpoint collect (bk : backend) (n : nat) (i : nat) (h : hst) : hst * list Z :=
  match n with
  | O => (h, [])
  | S n' =>
      let '(h1, o1) :=
        match sub_at (h_sys h) i with
        | Some x =>
            if nthb (h_req h) i then
              match st x with
              | Ready =>
                  let s' := act bk (h_sys h) (AStep i) in
                  match sub_at s' i with
                  | Some x' =>
                      match st x' with
                      | Waiting => (mkH s' (h_req h), [])
                      | Stuck => (mkH s' (h_req h), [Z.of_nat i; -7; 0])
                      | _ =>
                          if (length (out x) <? length (out x'))%nat then
                            match last_opt (out x') with
                            | Some e => (mkH s' (setb (h_req h) i false),
                                         [Z.of_nat i; s_seq e; e_pid (s_ev e)])
                            | None => (mkH s' (h_req h), [Z.of_nat i; -8; 0])
                            end
                          else (mkH s' (setb (h_req h) i false), [Z.of_nat i; -2; 0])
                      end
                  | None => (h, [])
                  end
              | _ => (h, [])
              end
            else (h, [])
        | None => (h, [])
        end in
      let '(h2, o2) := collect bk n' (S i) h1 in
      (h2, o1 ++ o2)
  end.


Definition enc_events (l : list sev) : list Z :=
  Z.of_nat (length l) :: flat_map (fun e => [s_seq e; e_pid (s_ev e)]) l.

Definition timeouts (n : nat) : list action := map ATimeout (seq 0 n).

Definition do_op (bk : backend) (h : hst) (o : op) : hst * list Z :=
  let '(h1, o1) :=
    match o with
    | OAppend e => (mkH (run bk (h_sys h) [AWrite e; ANotify]) (h_req h), [])
    | OSub base k =>
        let x := if base then base_sub k else store_sub bk k true in
        (mkH (act bk (h_sys h) (ASubscribe x)) (h_req h ++ [false]), [])
    | OResolve after inc hs =>
        match resolve bk (log (h_sys h)) hs after with
        | RStream k => (mkH (act bk (h_sys h) (ASubscribe (store_sub bk k inc))) (h_req h ++ [false]), [1])
        | RCompleted => (h, [2])
        | RNotFound => (h, [3])
        | RNoRun => (h, [4])
        end
    | ONext j =>
        let i := Nat.modulo j (nsubs h) in     (* the harness addresses "the j-th of the current subscribers" *)
        match sub_at (h_sys h) i with
        | Some x =>
            match st x with
            | Done => (h, [Z.of_nat i; -2; 0])
            | _ => if nthb (h_req h) i then (h, [Z.of_nat i; -3; 0])
                   else (mkH (h_sys h) (setb (h_req h) i true), [])
            end
        | None => (h, [-9])
        end
    | OTick => (mkH (run bk (h_sys h) (timeouts (nsubs h))) (h_req h), [])
    | OQuery after limit => (h, enc_events (query bk after limit (log (h_sys h))))
    end in
  let '(h2, o2) := collect bk (nsubs h1) 0 h1 in
  (h2, o1 ++ o2).

Fixpoint do_ops (bk : backend) (h : hst) (l : list op) : list Z :=
  match l with
  | [] => []
  | o :: t => let '(h', obs) := do_op bk h o in (Z.of_nat (length obs) :: obs) ++ do_ops bk h' t
  end.

Definition h0 : hst := mkH sys0 [].

Fixpoint first_diff (a b : list Z) (i : Z) : Z :=
  match a, b with
  | [], [] => 0
  | x :: a', y :: b' => if x =? y then first_diff a' b' (i + 1) else i + 1
  | _, _ => i + 1
  end.

(* 0 = the model's observations equal the implementation's; else 1 + index of the first difference *)
Definition run_case (bk : backend) (l : list op) (expected : list Z) : Z :=
  first_diff (do_ops bk h0 l) expected 0.

(* final outputs of all subscribers and the log, for diagnostics *)
Definition final_obs (bk : backend) (l : list op) : list Z := do_ops bk h0 l.

(* _stream_events parameter handling: expected = -400 for HTTP 400, -1000 for "now", else the cursor + 0 *)
Definition cursor_code (r : option (option Z)) : list Z :=
  match r with None => [0] | Some None => [1] | Some (Some k) => [2; k] end.
Definition cursor_case (sse : bool) (a : aparam) (l : lparam) (expected : list Z) : Z :=
  first_diff (cursor_code (stream_cursor sse a l)) expected 0.
