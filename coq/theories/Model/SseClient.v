(* M-SseClient: executable model of the client's auto-reconnecting event stream (C17).

   Anchors:
     llama-agents-client/src/llama_agents/client/client.py
         _aiter_sse_lines (line splitter on "\n" over response.aiter_text()), the `reader` coroutine of
         WorkflowClient.get_workflow_events (current_id / last_sequence / attempts), EventStream._iterate
     llama-agents-server/src/llama_agents/server/_api.py
         _stream_events.format_stream (SSE framing "id: N\ndata: JSON\n\n", ": heartbeat\n\n") on top of
         _resolve_event_stream (Model/EventLog.v)
   Text is a list of code points.  [show] / [parse] stand for Python's str(int) / int(str) (section
   variables; a decimal instance is given for evaluation).  No proofs in this file. *)
From Coq Require Import List ZArith Bool.
Import ListNotations.
From WF Require Import Model.EventLog.
Open Scope Z_scope.

Definition text := list Z.
Definition LF : Z := 10.

(* ---------- str.strip(), str.startswith ---------- *)
(* the characters str.strip() removes (str.isspace) *)
Definition is_ws (c : Z) : bool :=
  ((9 <=? c) && (c <=? 13)) || ((28 <=? c) && (c <=? 32)) || (c =? 133) || (c =? 160) ||
  (c =? 5760) || ((8192 <=? c) && (c <=? 8202)) || (c =? 8232) || (c =? 8233) || (c =? 8239) ||
  (c =? 8287) || (c =? 12288).

Fixpoint lstrip (t : text) : text :=
  match t with [] => [] | c :: t' => if is_ws c then lstrip t' else t end.
Definition strip (t : text) : text := rev (lstrip (rev (lstrip t))).

Fixpoint starts (p t : text) : bool :=
  match p, t with
  | [], _ => true
  | a :: p', b :: t' => (a =? b) && starts p' t'
  | _ :: _, [] => false
  end.

Definition s_id : text := [105; 100; 58].                                        (* "id:" *)
Definition s_data : text := [100; 97; 116; 97; 58].                              (* "data:" *)
Definition s_beat : text := [58; 32; 104; 101; 97; 114; 116; 98; 101; 97; 116].  (* ": heartbeat" *)

(* ---------- _aiter_sse_lines ---------- *)
(* text.split("\n"): the complete lines and the unterminated rest *)
Fixpoint lines_of (t : text) (cur : text) : list text * text :=
  match t with
  | [] => ([], cur)
  | c :: t' => if c =? LF then let '(ls, r) := lines_of t' [] in (cur :: ls, r)
               else lines_of t' (cur ++ [c])
  end.

(* one chunk from aiter_text(): buffer += text; *lines, buffer = buffer.split("\n") *)
Definition feed (st : text * list text) (chunk : text) : text * list text :=
  let '(ls, r) := lines_of (fst st ++ chunk) [] in (r, snd st ++ ls).

(* how the transport cuts the received text into chunks: sizes (0 counts as 1), rest in one piece *)
Fixpoint chop (sizes : list nat) (t : text) : list text :=
  match t with
  | [] => []
  | _ :: _ =>
      match sizes with
      | [] => [t]
      | n :: ns => let m := match n with O => 1%nat | _ => n end in firstn m t :: chop ns (skipn m t)
      end
  end.

(* the lines the reader gets from one connection whose body is txt: all of it (normal end, the
   unterminated rest is flushed) or the complete lines among the first c code points (drop) *)
Definition conn_lines (txt : text) (cut : option nat) (sizes : list nat) : list text :=
  match cut with
  | None => let '(buf, ls) := fold_left feed (chop sizes txt) ([], []) in
            ls ++ match buf with [] => [] | _ => [buf] end
  | Some c => snd (fold_left feed (chop sizes (firstn c txt)) ([], []))
  end.

Section Wire.
Variable show : Z -> text.              (* f"{sequence}" *)
Variable parse : text -> option Z.      (* int(current_id); None = ValueError *)

(* ---------- format_stream ---------- *)
Inductive item := IFrame (n : Z) (p : text) | IBeat.

Definition id_line (n : Z) : text := s_id ++ [32] ++ show n.
Definition data_line (p : text) : text := s_data ++ [32] ++ p.
Definition item_lines (it : item) : list text :=
  match it with IFrame n p => [id_line n; data_line p; []] | IBeat => [s_beat; []] end.
Definition join (ls : list text) : text := flat_map (fun l => l ++ [LF]) ls.
Definition body (items : list item) : text := join (flat_map item_lines items).

(* heartbeats: beats[i] of them before the i-th frame, beats[len] after the last *)
Fixpoint weave (beats : list nat) (frames : list item) : list item :=
  match frames with
  | [] => repeat IBeat (hd O beats)
  | f :: fs => repeat IBeat (hd O beats) ++ f :: weave (tl beats) fs
  end.

(* ---------- the reader's per-connection state machine ---------- *)
Record rstate := mkR { r_id : option text ; r_last : Z ; r_out : list (Z * text) }.

Definition on_line (r : rstate) (line : text) : rstate :=
  let s := strip line in
  match s with
  | [] => r
  | _ =>
      if starts s_id s then mkR (Some (strip (skipn 3 s))) (r_last r) (r_out r)
      else if starts s_data s then
        let data := strip (skipn 5 s) in
        let last' := match r_id r with
                     | Some t => match parse t with Some n => n | None => r_last r end
                     | None => r_last r
                     end in
        mkR None last' (r_out r ++ [(last', data)])
      else r
  end.

(* ---------- the server as the client sees it ---------- *)
(* [closes]: the subscription behind the body ends by itself (a terminal event above the cursor is
   stored); otherwise the response stays open until the connection drops *)
Inductive sresp := S404 | S204 | SBody (frames : list item) (closes : bool).

Definition frame_of (ptext : Z -> text) (e : sev) : item := IFrame (s_seq e) (ptext (e_pid (s_ev e))).

(* The log grows while the client is at work: a connection is resolved against the first n1 stored
   events (_resolve_event_stream: 404 / 204 / cursor) and, while it is open, streams what the first
   n2 >= n1 events contain above the cursor. *)
Definition serve (ptext : Z -> text) (bk : backend) (L : list sev) (h : hstate) (inc : bool)
                 (n1 n2 : nat) (k : Z) : sresp :=
  match resolve bk (firstn n1 L) h (Some k) with
  | RNotFound | RNoRun => S404
  | RCompleted => S204
  | RStream a => SBody (map (frame_of ptext) (vis_spec a inc (firstn n2 L))) (ended a (firstn n2 L))
  end.

(* ---------- the reconnect loop ---------- *)
Inductive attempt :=
| AFail                                  (* httpx.RequestError before a response *)
| AServe (n1 n2 : nat)                   (* a response, for the log as stored at request / at close time *)
         (beats : list nat)              (* heartbeats woven into it *)
         (cut : option nat)              (* dropped after that many code points / not dropped *)
         (sizes : list nat).             (* how the transport chunks it *)
Inductive cstatus := Running | DoneOK | GaveUp | NotFound | Stalled.

Record cstate := mkC {
  c_last : Z ;               (* last_sequence *)
  c_att : nat ;              (* attempts *)
  c_out : list (Z * text) ;  (* (sequence, payload) handed to the consumer *)
  c_st : cstatus ;
  c_reqs : list Z            (* after_sequence of every request *)
}.

Definition client_step (maxr : nat) (srv : nat -> nat -> Z -> sresp) (c : cstate) (a : attempt) : cstate :=
  match c_st c with
  | Running =>
      let reqs := c_reqs c ++ [c_last c] in
      match a with
      | AFail =>
          let n := S (c_att c) in
          mkC (c_last c) n (c_out c) (if (maxr <? n)%nat then GaveUp else Running) reqs
      | AServe n1 n2 beats cut sizes =>
          match srv n1 n2 (c_last c) with
          | S404 => mkC (c_last c) (c_att c) (c_out c) NotFound reqs
          | S204 => mkC (c_last c) (c_att c) (c_out c) DoneOK reqs
          | SBody frames closes =>
              let txt := body (weave beats frames) in
              let r := fold_left on_line (conn_lines txt cut sizes) (mkR None (c_last c) []) in
              match cut with
              | None => mkC (r_last r) O (c_out c ++ r_out r) (if closes then DoneOK else Stalled) reqs
              | Some _ => mkC (r_last r) 1 (c_out c ++ r_out r)
                              (if (maxr <? 1)%nat then GaveUp else Running) reqs
              end
          end
      end
  | _ => c
  end.

Definition client_init (k0 : Z) : cstate := mkC k0 O [] Running [].
Definition client_run (maxr : nat) (srv : nat -> nat -> Z -> sresp) (k0 : Z) (l : list attempt) : cstate :=
  fold_left (client_step maxr srv) l (client_init k0).
End Wire.

(* ---------- a decimal instance of show / parse for evaluation ---------- *)
Fixpoint digits (fuel : nat) (n : Z) (acc : text) : text :=
  match fuel with
  | O => acc
  | S f => let acc' := (48 + n mod 10) :: acc in
           if n <? 10 then acc' else digits f (n / 10) acc'
  end.
Definition show_dec (n : Z) : text :=
  if n <? 0 then 45 :: digits 60 (- n) [] else digits 60 n [].

Fixpoint undigits (t : text) (acc : Z) : option Z :=
  match t with
  | [] => Some acc
  | c :: t' => if (48 <=? c) && (c <=? 57) then undigits t' (acc * 10 + (c - 48)) else None
  end.
Definition parse_dec (t : text) : option Z :=
  match t with
  | [] => None
  | 45 :: (_ :: _) as t' => option_map Z.opp (undigits (tl t) 0)
  | _ => undigits t 0
  end.
