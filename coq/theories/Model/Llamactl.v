(* M-Llamactl: executable model of llamactl's configuration state and of the operations that the
   CLI performs on it:
     packages/llamactl/src/llama_agents/cli/config/_config.py      (ConfigManager: the SQL)
     packages/llamactl/src/llama_agents/cli/config/env_service.py  (EnvService)
     packages/llamactl/src/llama_agents/cli/config/auth_service.py (AuthService)
   No proofs in this file.

   Strings are codes (Z): environment URLs (0 = DEFAULT_ENVIRONMENT.api_url), profile names,
   project ids (0 = blank), api keys (0 = None), key ids (0 = None), OIDC user ids (0 = no
   device_oidc), e-mails.  Profile ids (uuid4 in the code) are drawn from a counter.
   The `settings` row `current_environment_api_url` is seeded by migration 0001 and is never
   deleted, so it is a plain field; `current_profile` is an optional row.

   Three shape facts of the source are read by harness/translate.py into Generated.v on every
   run and drive the model (so that dropping one of the statements changes the model, breaks the
   proofs, and is found by the correspondence suite as a concrete history):
     llamactl_switch_clears_profile       EnvService.switch_environment calls set_settings_current_profile(None)
     llamactl_env_add_clears_profile      EnvService.create_or_update_environment does
     llamactl_env_delete_clears_profile   ConfigManager.delete_environment removes the current_profile row
                                          when the deleted environment was the current one. *)
From Coq Require Import List ZArith Bool.
Import ListNotations.
From WF Require Import Generated.
Open Scope Z_scope.

Record profile := mkP {
  p_id : Z; p_name : Z; p_url : Z; p_proj : Z; p_key : Z; p_keyid : Z; p_uid : Z; p_mail : Z }.

Record st := mkS {
  s_envs : list (Z * bool);     (* environments table: api_url, requires_auth *)
  s_profs : list profile;       (* profiles table, insertion order; PK (name, api_url), UNIQUE id *)
  s_env : Z;                    (* settings.current_environment_api_url *)
  s_cur : option Z;             (* settings.current_profile: a NAME only *)
  s_next : Z }.                 (* next fresh profile id *)

Definition default_url : Z := 0.

(* state after the migrations: default environment seeded (requires_auth = 1), setting seeded *)
Definition init : st := mkS [(default_url, true)] [] default_url None 1.

Definition set_envs e s := mkS e (s_profs s) (s_env s) (s_cur s) (s_next s).
Definition set_profs p s := mkS (s_envs s) p (s_env s) (s_cur s) (s_next s).

(* ---------------- ConfigManager ---------------- *)
Definition cm_set_current_profile (o : option Z) (s : st) : st :=
  mkS (s_envs s) (s_profs s) (s_env s) o (s_next s).
Definition cm_set_current_environment (u : Z) (s : st) : st :=
  mkS (s_envs s) (s_profs s) u (s_cur s) (s_next s).

Definition has_key (n u : Z) (p : profile) : bool := (p_name p =? n) && (p_url p =? u).

Definition cm_get_profile (n u : Z) (s : st) : option profile := find (has_key n u) (s_profs s).
Definition cm_get_profile_by_id (i : Z) (s : st) : option profile :=
  find (fun p => p_id p =? i) (s_profs s).
Definition cm_get_profile_by_uid (u uid : Z) (s : st) : option profile :=
  find (fun p => (p_url p =? u) && (p_uid p =? uid)) (s_profs s).

(* list_profiles(env_url) ORDER BY name; only its first element is ever used (select_any_profile) *)
Fixpoint min_name (l : list profile) : option profile :=
  match l with
  | [] => None
  | p :: t => match min_name t with
              | Some q => if p_name q <? p_name p then Some q else Some p
              | None => Some p
              end
  end.
Definition cm_first_profile (u : Z) (s : st) : option profile :=
  min_name (filter (fun p => p_url p =? u) (s_profs s)).

(* create_profile: ValueError on blank project id or (name, api_url) already present *)
Definition cm_create_profile (n u proj key uid mail : Z) (s : st) : option (st * profile) :=
  if proj =? 0 then None
  else match cm_get_profile n u s with
       | Some _ => None
       | None =>
         let p := mkP (s_next s) n u proj key 0 uid mail in
         Some (mkS (s_envs s) (s_profs s ++ [p]) (s_env s) (s_cur s) (s_next s + 1), p)
       end.

(* get_current_profile(env_url) *)
Definition cm_get_current_profile (u : Z) (s : st) : option profile :=
  match s_cur s with
  | Some n => cm_get_profile n u s
  | None => None
  end.

(* delete_profile(name, env_url): the pointer is cleared when its NAME equals `name` *)
Definition cm_delete_profile (n u : Z) (s : st) : st * bool :=
  let existed := existsb (has_key n u) (s_profs s) in
  let s1 := set_profs (filter (fun p => negb (has_key n u p)) (s_profs s)) s in
  let s2 := match s_cur s1 with
            | Some c => if c =? n then cm_set_current_profile None s1 else s1
            | None => s1
            end in
  (s2, existed).

Definition cm_set_project (n u proj : Z) (s : st) : st :=
  set_profs (map (fun p => if has_key n u p
                           then mkP (p_id p) (p_name p) (p_url p) proj (p_key p) (p_keyid p) (p_uid p) (p_mail p)
                           else p) (s_profs s)) s.

(* update_profile(profile): UPDATE ... WHERE id = ?; sqlite3.IntegrityError when the new
   (name, api_url) collides with another row's primary key *)
Definition cm_update_profile (q : profile) (s : st) : option st :=
  match cm_get_profile_by_id (p_id q) s with
  | None => Some s
  | Some _ =>
    if existsb (fun p => negb (p_id p =? p_id q) && has_key (p_name q) (p_url q) p) (s_profs s)
    then None
    else Some (set_profs (map (fun p => if p_id p =? p_id q then q else p) (s_profs s)) s)
  end.

Definition env_mem (u : Z) (s : st) : bool := existsb (fun e => fst e =? u) (s_envs s).

(* INSERT OR REPLACE INTO environments *)
Definition cm_upsert_environment (u : Z) (ra : bool) (s : st) : st :=
  set_envs (filter (fun e => negb (fst e =? u)) (s_envs s) ++ [(u, ra)]) s.

Definition cm_delete_environment (clears : bool) (u : Z) (s : st) : st * bool :=
  if negb (env_mem u s) then (s, false)
  else
    let s1 := set_profs (filter (fun p => negb (p_url p =? u)) (s_profs s)) s in
    let s2 := set_envs (filter (fun e => negb (fst e =? u)) (s_envs s1)) s1 in
    let s3 := if s_env s2 =? u
              then (let s' := cm_set_current_environment default_url s2 in
                    if clears then cm_set_current_profile None s' else s')
              else s2 in
    (s3, true).

(* ---------------- operations (EnvService / AuthService of the current environment) -------- *)
Inductive op :=
| OEnvAdd (u : Z) (ra : bool)            (* EnvService.create_or_update_environment *)
| OEnvUpsert (u : Z) (ra : bool)         (* ConfigManager.create_or_update_environment (auto_update_env) *)
| OEnvSwitch (u : Z)                     (* EnvService.switch_environment *)
| OEnvDelete (u : Z)                     (* EnvService.delete_environment *)
| OCreateTok (n key proj : Z)            (* AuthService.create_profile_from_token; n = name derived from key *)
| OOidc (uid mail proj : Z)              (* AuthService.create_or_update_profile_from_oidc *)
| OSelect (n : Z)                        (* AuthService.set_current_profile *)
| OSelectAny                             (* AuthService.select_any_profile *)
| OUpdate (n proj key keyid : Z)         (* get_profile(n); change credentials; update_profile *)
| OUpdateRaw (i n u : Z)                 (* update_profile with a changed (name, api_url): not a CLI operation *)
| OSetProject (n proj : Z)               (* AuthService.set_project *)
| ODelete (n : Z)                        (* AuthService.delete_profile *)
| ODestroy.                              (* ConfigManager.destroy_database *)

Inductive res := RNone | RBool (b : bool) | RValueError | RAuth (i : Z) | RIntegrityError.

Record flags := mkF { f_switch : bool; f_add : bool; f_delete : bool }.

Definition clear_if (b : bool) (s : st) : st := if b then cm_set_current_profile None s else s.

Definition step_gen (f : flags) (s : st) (o : op) : st * res :=
  let u := s_env s in               (* current_auth_service(): AuthService(cm, get_current_environment()) *)
  match o with
  | OEnvAdd e ra =>
    (clear_if (f_add f) (cm_set_current_environment e (cm_upsert_environment e ra s)), RNone)
  | OEnvUpsert e ra => (cm_upsert_environment e ra s, RNone)
  | OEnvSwitch e =>
    if env_mem e s then (clear_if (f_switch f) (cm_set_current_environment e s), RNone)
    else (s, RValueError)
  | OEnvDelete e => let (s', b) := cm_delete_environment (f_delete f) e s in (s', RBool b)
  | OCreateTok n key proj =>
    match cm_create_profile n u proj key 0 0 s with
    | None => (s, RValueError)
    | Some (s', p) => (cm_set_current_profile (Some (p_name p)) s', RAuth (p_id p))
    end
  | OOidc uid mail proj =>
    match cm_get_profile_by_uid u uid s with
    | Some ex =>
      let ex' := mkP (p_id ex) (p_name ex) (p_url ex) (p_proj ex) (p_key ex) (p_keyid ex) uid mail in
      match cm_update_profile ex' s with
      | Some s' => (cm_set_current_profile (Some (p_name ex')) s', RAuth (p_id ex'))
      | None => (s, RIntegrityError)
      end
    | None =>
      match cm_create_profile mail u proj 0 uid mail s with
      | None => (s, RValueError)
      | Some (s', p) => (cm_set_current_profile (Some (p_name p)) s', RAuth (p_id p))
      end
    end
  | OSelect n => (cm_set_current_profile (Some n) s, RNone)
  | OSelectAny =>
    match cm_first_profile u s with
    | Some p => (cm_set_current_profile (Some (p_name p)) s, RNone)
    | None => (s, RNone)
    end
  | OUpdate n proj key keyid =>
    match cm_get_profile n u s with
    | None => (s, RBool false)
    | Some p =>
      let p' := mkP (p_id p) (p_name p) (p_url p) proj key keyid (p_uid p) (p_mail p) in
      match cm_update_profile p' s with
      | Some s' => (s', RBool true)
      | None => (s, RIntegrityError)
      end
    end
  | OUpdateRaw i n e =>
    let q := match cm_get_profile_by_id i s with
             | Some p => mkP i n e (p_proj p) (p_key p) (p_keyid p) (p_uid p) (p_mail p)
             | None => mkP i n e 1 0 0 0 0
             end in
    match cm_update_profile q s with
    | Some s' => (s', RNone)
    | None => (s, RIntegrityError)
    end
  | OSetProject n proj => (cm_set_project n u proj s, RNone)
  | ODelete n => let (s', b) := cm_delete_profile n u s in (s', RBool b)
  | ODestroy => (mkS [(default_url, true)] [] default_url None (s_next s), RNone)
  end.

(* the code as it is now (flags re-read from the source on every run) *)
Definition flags_now : flags :=
  mkF llamactl_switch_clears_profile llamactl_env_add_clears_profile llamactl_env_delete_clears_profile.
Definition step : st -> op -> st * res := step_gen flags_now.

(* AuthService(cm, current env).get_current_profile() — the observation point of C37 *)
Definition active (s : st) : option profile := cm_get_current_profile (s_env s) s.

Fixpoint run_gen (f : flags) (s : st) (ops : list op) : st :=
  match ops with
  | [] => s
  | o :: t => run_gen f (fst (step_gen f s o)) t
  end.
Definition run : st -> list op -> st := run_gen flags_now.

(* ---------------- the property's own bookkeeping ("ghost" state) ----------------
   Which profiles has the user picked (selected or created) since the current environment became
   current?  Computed from what a user sees: the operation, its result, and the current
   environment before/after.  [strict] additionally starts a new tenure whenever an environment
   is (re-)entered by a successful add/switch, even if it is the same environment. *)
Definition picks (s : st) (o : op) (r : res) : list Z :=
  match o, r with
  | OCreateTok _ _ _, RAuth i => [i]
  | OOidc _ _ _, RAuth i => [i]
  | OSelect n, _ => match cm_get_profile n (s_env s) s with Some p => [p_id p] | None => [] end
  | OSelectAny, _ => match cm_first_profile (s_env s) s with Some p => [p_id p] | None => [] end
  | _, _ => []
  end.

Definition tenure_ends (strict : bool) (s : st) (o : op) (r : res) (s' : st) : bool :=
  negb (s_env s =? s_env s') ||
  (strict && match o, r with
             | OEnvAdd _ _, _ => true
             | OEnvSwitch _, RNone => true
             | _, _ => false
             end).

Definition gstep_gen (f : flags) (strict : bool) (sg : st * list Z) (o : op) : st * list Z :=
  let (s, g) := sg in
  let (s', r) := step_gen f s o in
  (s', picks s o r ++ (if tenure_ends strict s o r s' then [] else g)).

Fixpoint grun_gen (f : flags) (strict : bool) (sg : st * list Z) (ops : list op) : st * list Z :=
  match ops with
  | [] => sg
  | o :: t => grun_gen f strict (gstep_gen f strict sg o) t
  end.
Definition grun := grun_gen flags_now.

(* C37 on a state: *)
Definition env_known (s : st) : Prop := s_env s = default_url \/ In (s_env s) (map fst (s_envs s)).
Definition active_picked (s : st) (g : list Z) : Prop :=
  forall p, active s = Some p -> p_url p = s_env s /\ In (p_id p) g.
Definition c37_ok (sg : st * list Z) : Prop := env_known (fst sg) /\ active_picked (fst sg) (snd sg).

(* boolean versions (for witnesses and for the suite) *)
Definition env_known_b (s : st) : bool := (s_env s =? default_url) || env_mem (s_env s) s.
Definition active_picked_b (s : st) (g : list Z) : bool :=
  match active s with
  | None => true
  | Some p => (p_url p =? s_env s) && existsb (Z.eqb (p_id p)) g
  end.
Definition c37_ok_b (sg : st * list Z) : bool := env_known_b (fst sg) && active_picked_b (fst sg) (snd sg).

(* The CLI never renames or moves a profile: its update operations are OUpdate / OSetProject / OOidc *)
Definition cli_op (o : op) : bool := match o with OUpdateRaw _ _ _ => false | _ => true end.

(* exact abstract counterpart ("last pick"): None at the start of a tenure, Some id after a
   selection/creation that names an existing profile, None after selecting a name that names
   nothing *)
Definition last_pick (s : st) (o : op) (r : res) (old : option Z) : option Z :=
  match o, r with
  | OCreateTok _ _ _, RAuth i => Some i
  | OOidc _ _ _, RAuth i => Some i
  | OSelect n, _ => match cm_get_profile n (s_env s) s with Some p => Some (p_id p) | None => None end
  | OSelectAny, _ => match cm_first_profile (s_env s) s with Some p => Some (p_id p) | None => old end
  | _, _ => old
  end.

Definition astep (sa : st * option Z) (o : op) : st * option Z :=
  let (s, a) := sa in
  let (s', r) := step s o in
  (s', last_pick s o r (if tenure_ends true s o r s' then None else a)).

Fixpoint arun (sa : st * option Z) (ops : list op) : st * option Z :=
  match ops with
  | [] => sa
  | o :: t => arun (astep sa o) t
  end.

(* the abstract pick, as far as the picked profile still exists in the current environment *)
Definition surviving (s : st) (a : option Z) : option Z :=
  match a with
  | Some i => if existsb (fun p => (p_id p =? i) && (p_url p =? s_env s)) (s_profs s) then Some i else None
  | None => None
  end.

(* ---------------- canonical encoding (what the suite compares) ---------------- *)
Definition enc_res (r : res) : list Z :=
  match r with
  | RNone => [0; 0]
  | RBool true => [1; 0]
  | RBool false => [2; 0]
  | RValueError => [3; 0]
  | RAuth i => [4; i]
  | RIntegrityError => [5; 0]
  end.

Fixpoint zrange (n : nat) : list Z :=
  match n with O => [] | S k => zrange k ++ [Z.of_nat k] end.

Definition enc_profile (p : profile) : list Z :=
  [p_id p; p_name p; p_url p; p_proj p; p_key p; p_keyid p; p_uid p;
   if p_uid p =? 0 then 0 else p_mail p + 1].

Definition obs (ne nn : Z) (s : st) : list Z :=
  [s_env s;
   match s_cur s with Some n => n + 1 | None => 0 end;
   match active s with Some p => p_id p | None => 0 end]
  ++ map (fun u => match find (fun e => fst e =? u) (s_envs s) with
                   | Some (_, true) => 2 | Some (_, false) => 1 | None => 0 end)
         (zrange (Z.to_nat ne))
  ++ flat_map (fun u => flat_map (fun n => flat_map enc_profile (filter (has_key n u) (s_profs s)))
                                 (zrange (Z.to_nat nn)))
              (zrange (Z.to_nat ne))
  ++ [-1].

Fixpoint zlist_eqb (a b : list Z) : bool :=
  match a, b with
  | [], [] => true
  | x :: a', y :: b' => (x =? y) && zlist_eqb a' b'
  | _, _ => false
  end.

(* The suite sends, per operation, [result code; created id; current env; pointer; active id] exactly
   plus a 31-bit hash of the complete encoding (result + whole observation) — the complete
   encoding is compared exactly whenever one of these differs (run_trace), see suites/llamactl.py. *)
Definition hmod : Z := 2147483629.
Fixpoint zhash (l : list Z) (acc : Z) : Z :=
  match l with
  | [] => acc
  | x :: t => zhash t ((acc * 1000003 + x + 17) mod hmod)
  end.
Definition compact (full : list Z) : list Z := firstn 5 full ++ [zhash full 7].

Fixpoint run_check_from (ne nn : Z) (s : st) (k : Z) (ops : list op) (expected : list (list Z)) : Z :=
  match ops, expected with
  | [], [] => 0
  | o :: t, e :: te =>
    let (s', r) := step s o in
    if zlist_eqb (compact (enc_res r ++ obs ne nn s')) e then run_check_from ne nn s' (k + 1) t te else k
  | _, _ => -1
  end.
Definition run_check (ne nn : Z) (ops : list op) (expected : list (list Z)) : Z :=
  run_check_from ne nn init 1 ops expected.

(* diagnostics: the model's own complete trace, one -7 after each operation's encoding *)
Fixpoint run_trace (ne nn : Z) (s : st) (ops : list op) : list Z :=
  match ops with
  | [] => []
  | o :: t => let (s', r) := step s o in enc_res r ++ obs ne nn s' ++ [-7] ++ run_trace ne nn s' t
  end.

(* one transition from an explicitly given state (exhaustive exploration) *)
Definition edge_check (ne nn : Z) (s : st) (o : op) (expected : list Z) : Z :=
  let (s', r) := step s o in
  if zlist_eqb (compact (enc_res r ++ obs ne nn s')) expected then 0 else 1.
Definition edge_trace (ne nn : Z) (s : st) (o : op) : list Z :=
  let (s', r) := step s o in enc_res r ++ obs ne nn s'.
