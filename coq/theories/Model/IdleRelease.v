(* M-IdleRelease: executable model of the in-process idle-release state machine
   (llama_agents/server/_runtime/idle_release_runtime.py on top of persistence_runtime.py and
   workflows/plugins/basic.py) for ONE run_id.  No proofs here.

   What is modelled, and where it comes from:
   * store (persisted, survives a crash): handler.idle_since, handler.status == "running", the
     persisted TickAddEvent ids of events that came through the receive queue (`log`) and `busy`,
     the number of queued + in-progress inputs of the engine state that `context_from_ticks`
     rebuilds from the persisted ticks (every tick is persisted when it is reduced, so the persisted
     count and the live count coincide while a loop is alive);
   * runtime memory (lost at a crash): `_active_run_ids` membership, the live control loops of
     BasicRuntime (`_queues[run_id].complete` not done), each with its volatile parts: the receive
     queue (`mail`), the number of entries of `_ControlLoopRunner.scheduled_wakeups` that carry work
     (delayed retries, waiter timeouts: `sched`) and an idle announcement whose store write is still
     in flight (`idle_cap`); the asyncio tasks that are inside
     IdleReleaseExternalRunAdapter.send_event (senders -- these are fire-and-forget tasks of
     ExternalContext.send_event, so an exception in them is reported to nobody),
     IdleReleaseDecorator._deferred_release/_release_idle_handler (releasers) or
     PersistenceDecorator._on_server_start, each with a program counter at await-point granularity;
   * `_reload_lock(run_id)`: a task holds it exactly in the pcs for which `holds` is true; it can be
     acquired whenever no task holds it (any acquisition order, so asyncio's FIFO order is covered);
   * BasicRuntime.run_workflow refuses a run_id that still has a live loop (RuntimeError); the guard
     is modelled as the code has it and `guard_hits` counts how often it fired;
   * the environment: time, the engine (pulling from the receive queue, finishing a step, waking a
     timer, announcing idle -- which the engine does whenever no input is queued or in progress and
     no delayed retry is scheduled, whatever the receive queue and the waiter timeouts contain),
     concurrent senders, process crash, server start;
   * _IdleReleaseInternalRunAdapter: `_marked_idle` (`marked`) is set when the run announces idle and
     the first tick processed afterwards clears handler.idle_since again (on_tick).

   Times are integers (the harness uses 1/64 s).  The fields of `ghost` only record history; no
   transition reads them. *)
From Coq Require Import List ZArith Bool PeanoNat.
Import ListNotations.
Open Scope Z_scope.

Inductive pc :=
| SWant (e : Z)        (* send_event: waiting for _reload_lock *)
| SHold (e : Z)        (* lock held, run was active: awaiting update_handler_status(idle_since=None) *)
| SReloading (e : Z)   (* lock held, run was not active: awaiting store.query + context_from_ticks *)
| SReloaded (e : Z)    (* workflow.run(ctx, run_id) done: awaiting update_handler_status(idle_since=None) *)
| SCleared (e : Z)     (* idle_since cleared: about to put the tick into the inner adapter, then unlock *)
| RSleep (due : Z)     (* _deferred_release: asyncio.sleep(idle_timeout) until `due` *)
| RWant (due : Z)      (* _release_idle_handler: waiting for _reload_lock *)
| RHold (due : Z)      (* lock held: awaiting store.query; then the checks and the abort (no await) *)
| BReplay              (* _on_server_start: passed `run_id in _active_run_ids`, awaiting context_from_ticks *)
| Done.

Definition holds (p : pc) : bool :=
  match p with SHold _ | SReloading _ | SReloaded _ | SCleared _ | RHold _ => true | _ => false end.
Definition is_reloading (p : pc) : bool := match p with SReloading _ => true | _ => false end.
Definition is_breplay (p : pc) : bool := match p with BReplay => true | _ => false end.
Definition is_cleared (p : pc) : bool := match p with SCleared _ => true | _ => false end.

Record vol := { mail : list Z ; retries : nat ; sched : nat ; idle_cap : option Z ; marked : bool }.
Definition fresh : vol := {| mail := [] ; retries := 0 ; sched := 0 ; idle_cap := None ; marked := false |}.

Record ghost := {
  reloads : nat ;        (* successful workflow.run calls since the run was last dropped from memory *)
  lost : list Z ;        (* receive-queue contents of loops aborted by an idle release *)
  lost_timers : nat ;    (* waiter-timeout wakeups of loops aborted by an idle release *)
  lost_retries : nat ;   (* delayed-retry wakeups of loops aborted by an idle release *)
  rel_work : nat ;       (* idle releases performed while queued/running/scheduled/undelivered work existed *)
  rel_busy : nat ;       (* idle releases performed while an input was queued or running or a retry was pending *)
  guard_hits : nat ;     (* BasicRuntime "run_id already exists" *)
  undeliv : list Z ;     (* events whose sender task ended with an exception (nobody is told) *)
  misfailed : nat ;      (* handler marked failed by _on_server_start although a loop is live *)
  raced : bool ;         (* a sender's reload and the server-start resumption overlapped at some point *)
  released : bool ;      (* dropped from memory by an idle release and not reloaded since *)
  delivered : list Z ;   (* every event ever put into a receive queue *)
  dropped : list Z ;     (* receive-queue contents at a crash / at the end of the run *)
  t_sched : nat ; t_woke : nat ; t_dropped : nat }.

Record st := {
  now : Z ; started : bool ; resumed : bool ;
  idle_since : option Z ; running : bool ; log : list Z ; busy : nat ;
  active : bool ; loops : list vol ; tasks : list pc ;
  g : ghost }.

Definition ghost0 : ghost :=
  {| reloads := 0 ; lost := [] ; lost_timers := 0 ; lost_retries := 0 ; rel_work := 0 ; rel_busy := 0 ; guard_hits := 0 ; undeliv := [] ;
     misfailed := 0 ; raced := false ; released := false ; delivered := [] ; dropped := [] ;
     t_sched := 0 ; t_woke := 0 ; t_dropped := 0 |}.
Definition init : st :=
  {| now := 0 ; started := false ; resumed := false ; idle_since := None ; running := false ; log := [] ;
     busy := 0 ; active := false ; loops := [] ; tasks := [] ; g := ghost0 |}.

(* ---- setters (generated boilerplate) ---- *)
Definition set_now s v : st := {| now := v ; started := started s ; resumed := resumed s ; idle_since := idle_since s ; running := running s ; log := log s ; busy := busy s ; active := active s ; loops := loops s ; tasks := tasks s ; g := g s |}.
Definition set_started s v : st := {| now := now s ; started := v ; resumed := resumed s ; idle_since := idle_since s ; running := running s ; log := log s ; busy := busy s ; active := active s ; loops := loops s ; tasks := tasks s ; g := g s |}.
Definition set_resumed s v : st := {| now := now s ; started := started s ; resumed := v ; idle_since := idle_since s ; running := running s ; log := log s ; busy := busy s ; active := active s ; loops := loops s ; tasks := tasks s ; g := g s |}.
Definition set_idle_since s v : st := {| now := now s ; started := started s ; resumed := resumed s ; idle_since := v ; running := running s ; log := log s ; busy := busy s ; active := active s ; loops := loops s ; tasks := tasks s ; g := g s |}.
Definition set_running s v : st := {| now := now s ; started := started s ; resumed := resumed s ; idle_since := idle_since s ; running := v ; log := log s ; busy := busy s ; active := active s ; loops := loops s ; tasks := tasks s ; g := g s |}.
Definition set_log s v : st := {| now := now s ; started := started s ; resumed := resumed s ; idle_since := idle_since s ; running := running s ; log := v ; busy := busy s ; active := active s ; loops := loops s ; tasks := tasks s ; g := g s |}.
Definition set_busy s v : st := {| now := now s ; started := started s ; resumed := resumed s ; idle_since := idle_since s ; running := running s ; log := log s ; busy := v ; active := active s ; loops := loops s ; tasks := tasks s ; g := g s |}.
Definition set_active s v : st := {| now := now s ; started := started s ; resumed := resumed s ; idle_since := idle_since s ; running := running s ; log := log s ; busy := busy s ; active := v ; loops := loops s ; tasks := tasks s ; g := g s |}.
Definition set_loops s v : st := {| now := now s ; started := started s ; resumed := resumed s ; idle_since := idle_since s ; running := running s ; log := log s ; busy := busy s ; active := active s ; loops := v ; tasks := tasks s ; g := g s |}.
Definition set_tasks s v : st := {| now := now s ; started := started s ; resumed := resumed s ; idle_since := idle_since s ; running := running s ; log := log s ; busy := busy s ; active := active s ; loops := loops s ; tasks := v ; g := g s |}.
Definition set_g s v : st := {| now := now s ; started := started s ; resumed := resumed s ; idle_since := idle_since s ; running := running s ; log := log s ; busy := busy s ; active := active s ; loops := loops s ; tasks := tasks s ; g := v |}.
Definition gset_reloads g0 v : ghost := {| reloads := v ; lost := lost g0 ; lost_timers := lost_timers g0 ; lost_retries := lost_retries g0 ; rel_work := rel_work g0 ; rel_busy := rel_busy g0 ; guard_hits := guard_hits g0 ; undeliv := undeliv g0 ; misfailed := misfailed g0 ; raced := raced g0 ; released := released g0 ; delivered := delivered g0 ; dropped := dropped g0 ; t_sched := t_sched g0 ; t_woke := t_woke g0 ; t_dropped := t_dropped g0 |}.
Definition set_reloads s v : st := set_g s (gset_reloads (g s) v).
Definition gset_lost g0 v : ghost := {| reloads := reloads g0 ; lost := v ; lost_timers := lost_timers g0 ; lost_retries := lost_retries g0 ; rel_work := rel_work g0 ; rel_busy := rel_busy g0 ; guard_hits := guard_hits g0 ; undeliv := undeliv g0 ; misfailed := misfailed g0 ; raced := raced g0 ; released := released g0 ; delivered := delivered g0 ; dropped := dropped g0 ; t_sched := t_sched g0 ; t_woke := t_woke g0 ; t_dropped := t_dropped g0 |}.
Definition set_lost s v : st := set_g s (gset_lost (g s) v).
Definition gset_lost_timers g0 v : ghost := {| reloads := reloads g0 ; lost := lost g0 ; lost_timers := v ; lost_retries := lost_retries g0 ; rel_work := rel_work g0 ; rel_busy := rel_busy g0 ; guard_hits := guard_hits g0 ; undeliv := undeliv g0 ; misfailed := misfailed g0 ; raced := raced g0 ; released := released g0 ; delivered := delivered g0 ; dropped := dropped g0 ; t_sched := t_sched g0 ; t_woke := t_woke g0 ; t_dropped := t_dropped g0 |}.
Definition set_lost_timers s v : st := set_g s (gset_lost_timers (g s) v).
Definition gset_lost_retries g0 v : ghost := {| reloads := reloads g0 ; lost := lost g0 ; lost_timers := lost_timers g0 ; lost_retries := v ; rel_work := rel_work g0 ; rel_busy := rel_busy g0 ; guard_hits := guard_hits g0 ; undeliv := undeliv g0 ; misfailed := misfailed g0 ; raced := raced g0 ; released := released g0 ; delivered := delivered g0 ; dropped := dropped g0 ; t_sched := t_sched g0 ; t_woke := t_woke g0 ; t_dropped := t_dropped g0 |}.
Definition set_lost_retries s v : st := set_g s (gset_lost_retries (g s) v).
Definition gset_rel_work g0 v : ghost := {| reloads := reloads g0 ; lost := lost g0 ; lost_timers := lost_timers g0 ; lost_retries := lost_retries g0 ; rel_work := v ; rel_busy := rel_busy g0 ; guard_hits := guard_hits g0 ; undeliv := undeliv g0 ; misfailed := misfailed g0 ; raced := raced g0 ; released := released g0 ; delivered := delivered g0 ; dropped := dropped g0 ; t_sched := t_sched g0 ; t_woke := t_woke g0 ; t_dropped := t_dropped g0 |}.
Definition set_rel_work s v : st := set_g s (gset_rel_work (g s) v).
Definition gset_rel_busy g0 v : ghost := {| reloads := reloads g0 ; lost := lost g0 ; lost_timers := lost_timers g0 ; lost_retries := lost_retries g0 ; rel_work := rel_work g0 ; rel_busy := v ; guard_hits := guard_hits g0 ; undeliv := undeliv g0 ; misfailed := misfailed g0 ; raced := raced g0 ; released := released g0 ; delivered := delivered g0 ; dropped := dropped g0 ; t_sched := t_sched g0 ; t_woke := t_woke g0 ; t_dropped := t_dropped g0 |}.
Definition set_rel_busy s v : st := set_g s (gset_rel_busy (g s) v).
Definition gset_guard_hits g0 v : ghost := {| reloads := reloads g0 ; lost := lost g0 ; lost_timers := lost_timers g0 ; lost_retries := lost_retries g0 ; rel_work := rel_work g0 ; rel_busy := rel_busy g0 ; guard_hits := v ; undeliv := undeliv g0 ; misfailed := misfailed g0 ; raced := raced g0 ; released := released g0 ; delivered := delivered g0 ; dropped := dropped g0 ; t_sched := t_sched g0 ; t_woke := t_woke g0 ; t_dropped := t_dropped g0 |}.
Definition set_guard_hits s v : st := set_g s (gset_guard_hits (g s) v).
Definition gset_undeliv g0 v : ghost := {| reloads := reloads g0 ; lost := lost g0 ; lost_timers := lost_timers g0 ; lost_retries := lost_retries g0 ; rel_work := rel_work g0 ; rel_busy := rel_busy g0 ; guard_hits := guard_hits g0 ; undeliv := v ; misfailed := misfailed g0 ; raced := raced g0 ; released := released g0 ; delivered := delivered g0 ; dropped := dropped g0 ; t_sched := t_sched g0 ; t_woke := t_woke g0 ; t_dropped := t_dropped g0 |}.
Definition set_undeliv s v : st := set_g s (gset_undeliv (g s) v).
Definition gset_misfailed g0 v : ghost := {| reloads := reloads g0 ; lost := lost g0 ; lost_timers := lost_timers g0 ; lost_retries := lost_retries g0 ; rel_work := rel_work g0 ; rel_busy := rel_busy g0 ; guard_hits := guard_hits g0 ; undeliv := undeliv g0 ; misfailed := v ; raced := raced g0 ; released := released g0 ; delivered := delivered g0 ; dropped := dropped g0 ; t_sched := t_sched g0 ; t_woke := t_woke g0 ; t_dropped := t_dropped g0 |}.
Definition set_misfailed s v : st := set_g s (gset_misfailed (g s) v).
Definition gset_raced g0 v : ghost := {| reloads := reloads g0 ; lost := lost g0 ; lost_timers := lost_timers g0 ; lost_retries := lost_retries g0 ; rel_work := rel_work g0 ; rel_busy := rel_busy g0 ; guard_hits := guard_hits g0 ; undeliv := undeliv g0 ; misfailed := misfailed g0 ; raced := v ; released := released g0 ; delivered := delivered g0 ; dropped := dropped g0 ; t_sched := t_sched g0 ; t_woke := t_woke g0 ; t_dropped := t_dropped g0 |}.
Definition set_raced s v : st := set_g s (gset_raced (g s) v).
Definition gset_released g0 v : ghost := {| reloads := reloads g0 ; lost := lost g0 ; lost_timers := lost_timers g0 ; lost_retries := lost_retries g0 ; rel_work := rel_work g0 ; rel_busy := rel_busy g0 ; guard_hits := guard_hits g0 ; undeliv := undeliv g0 ; misfailed := misfailed g0 ; raced := raced g0 ; released := v ; delivered := delivered g0 ; dropped := dropped g0 ; t_sched := t_sched g0 ; t_woke := t_woke g0 ; t_dropped := t_dropped g0 |}.
Definition set_released s v : st := set_g s (gset_released (g s) v).
Definition gset_delivered g0 v : ghost := {| reloads := reloads g0 ; lost := lost g0 ; lost_timers := lost_timers g0 ; lost_retries := lost_retries g0 ; rel_work := rel_work g0 ; rel_busy := rel_busy g0 ; guard_hits := guard_hits g0 ; undeliv := undeliv g0 ; misfailed := misfailed g0 ; raced := raced g0 ; released := released g0 ; delivered := v ; dropped := dropped g0 ; t_sched := t_sched g0 ; t_woke := t_woke g0 ; t_dropped := t_dropped g0 |}.
Definition set_delivered s v : st := set_g s (gset_delivered (g s) v).
Definition gset_dropped g0 v : ghost := {| reloads := reloads g0 ; lost := lost g0 ; lost_timers := lost_timers g0 ; lost_retries := lost_retries g0 ; rel_work := rel_work g0 ; rel_busy := rel_busy g0 ; guard_hits := guard_hits g0 ; undeliv := undeliv g0 ; misfailed := misfailed g0 ; raced := raced g0 ; released := released g0 ; delivered := delivered g0 ; dropped := v ; t_sched := t_sched g0 ; t_woke := t_woke g0 ; t_dropped := t_dropped g0 |}.
Definition set_dropped s v : st := set_g s (gset_dropped (g s) v).
Definition gset_t_sched g0 v : ghost := {| reloads := reloads g0 ; lost := lost g0 ; lost_timers := lost_timers g0 ; lost_retries := lost_retries g0 ; rel_work := rel_work g0 ; rel_busy := rel_busy g0 ; guard_hits := guard_hits g0 ; undeliv := undeliv g0 ; misfailed := misfailed g0 ; raced := raced g0 ; released := released g0 ; delivered := delivered g0 ; dropped := dropped g0 ; t_sched := v ; t_woke := t_woke g0 ; t_dropped := t_dropped g0 |}.
Definition set_t_sched s v : st := set_g s (gset_t_sched (g s) v).
Definition gset_t_woke g0 v : ghost := {| reloads := reloads g0 ; lost := lost g0 ; lost_timers := lost_timers g0 ; lost_retries := lost_retries g0 ; rel_work := rel_work g0 ; rel_busy := rel_busy g0 ; guard_hits := guard_hits g0 ; undeliv := undeliv g0 ; misfailed := misfailed g0 ; raced := raced g0 ; released := released g0 ; delivered := delivered g0 ; dropped := dropped g0 ; t_sched := t_sched g0 ; t_woke := v ; t_dropped := t_dropped g0 |}.
Definition set_t_woke s v : st := set_g s (gset_t_woke (g s) v).
Definition gset_t_dropped g0 v : ghost := {| reloads := reloads g0 ; lost := lost g0 ; lost_timers := lost_timers g0 ; lost_retries := lost_retries g0 ; rel_work := rel_work g0 ; rel_busy := rel_busy g0 ; guard_hits := guard_hits g0 ; undeliv := undeliv g0 ; misfailed := misfailed g0 ; raced := raced g0 ; released := released g0 ; delivered := delivered g0 ; dropped := dropped g0 ; t_sched := t_sched g0 ; t_woke := t_woke g0 ; t_dropped := v |}.
Definition set_t_dropped s v : st := set_g s (gset_t_dropped (g s) v).

Fixpoint upd {A} (i : nat) (x : A) (l : list A) : list A :=
  match l, i with
  | [], _ => []
  | _ :: t, O => x :: t
  | h :: t, S k => h :: upd k x t
  end.
Definition set_task s i p := set_tasks s (upd i p (tasks s)).

Definition lock_free (s : st) : bool := forallb (fun p => negb (holds p)) (tasks s).

(* work the property speaks about: queued / running inputs, scheduled wakeups, undelivered mail *)
Definition vol_work (v : vol) : bool :=
  negb (match mail v with [] => true | _ => false end) || negb (Nat.eqb (sched v) 0)
  || negb (Nat.eqb (retries v) 0).
Definition has_work (s : st) : bool := negb (Nat.eqb (busy s) 0) || existsb vol_work (loops s).

Definition has_busy (s : st) : bool :=
  negb (Nat.eqb (busy s) 0) || existsb (fun v => negb (Nat.eqb (retries v) 0)) (loops s).

Definition sum_sched (l : list vol) : nat := fold_right (fun v n => (sched v + n)%nat) 0%nat l.
Definition sum_retries (l : list vol) : nat := fold_right (fun v n => (retries v + n)%nat) 0%nat l.
Definition all_mail (l : list vol) : list Z := flat_map mail l.

(* IdleReleaseDecorator._release_idle_handler after the query: the three checks *)
Definition release_check (tau : Z) (s : st) : bool :=
  match idle_since s with Some t => Z.leb tau (now s - t) | None => false end && active s.
(* _active_run_ids.discard + _abort_inner_run *)
Definition do_release (s : st) : st :=
  let s1 := set_rel_work (set_lost_retries (set_lost_timers (set_lost s (lost (g s) ++ all_mail (loops s)))
                                                            (lost_timers (g s) + sum_sched (loops s))%nat)
                                           (lost_retries (g s) + sum_retries (loops s))%nat)
                         (rel_work (g s) + (if has_work s then 1 else 0))%nat in
  let s1 := set_rel_busy s1 (rel_busy (g s) + (if has_busy s then 1 else 0))%nat in
  set_released (set_reloads (set_loops (set_active s1 false) []) 0%nat) true.

(* workflow.run(ctx=..., run_id=run_id) through the decorator chain: IdleReleaseDecorator.run_workflow
   adds the run to _active_run_ids BEFORE BasicRuntime.run_workflow may raise *)
Definition run_workflow (s : st) : st * bool :=
  match loops s with
  | [] => (set_released (set_reloads (set_loops (set_active s true) [fresh]) (S (reloads (g s)))) false, true)
  | _ :: _ => (set_guard_hits (set_active s true) (S (guard_hits (g s))), false)
  end.

Definition put (e : Z) (s : st) : st :=
  match loops s with
  | v :: r => set_delivered (set_loops s ({| mail := mail v ++ [e] ; retries := retries v ; sched := sched v ; idle_cap := idle_cap v ; marked := marked v |} :: r))
                            (delivered (g s) ++ [e])
  | [] => if running s then set_undeliv s (undeliv (g s) ++ [e]) else s   (* RuntimeError: no active workflow *)
  end.

Definition task_step (tau : Z) (s : st) (i : nat) : option st :=
  match nth_error (tasks s) i with
  | Some (SWant e) =>
      if lock_free s then Some (set_task s i (if active s then SHold e else SReloading e)) else None
  | Some (SHold e) => Some (set_task (set_idle_since s None) i (SCleared e))
  | Some (SReloading e) =>
      (* _ensure_active_run_locked: the `run_id in _active_run_ids` test was made before the awaits *)
      let '(s1, ok) := run_workflow s in
      if ok then Some (set_task s1 i (SReloaded e))
      else Some (set_task (set_undeliv s1 (undeliv (g s1) ++ [e])) i Done)
  | Some (SReloaded e) => Some (set_task (set_idle_since s None) i (SCleared e))
  | Some (SCleared e) => Some (set_task (put e s) i Done)
  | Some (RSleep due) => if Z.leb due (now s) then Some (set_task s i (RWant due)) else None
  | Some (RWant due) => if lock_free s then Some (set_task s i (RHold due)) else None
  | Some (RHold due) =>
      Some (set_task (if release_check tau s then do_release s else s) i Done)
  | Some BReplay =>
      let '(s1, ok) := run_workflow s in
      if ok then Some (set_task s1 i Done)
      else (* except Exception: update_handler_status(status="failed") although a loop is live *)
        Some (set_task (set_misfailed (set_running s1 false) (S (misfailed (g s1)))) i Done)
  | Some Done | None => None
  end.

Inductive act :=
| Advance (dt : Z)
| Start
| Send (e : Z)
| Task (i : nat)
| EPull
| EDone (sends : list Z) (emits : nat) (retry : bool) (wait : bool)
| EWake (is_retry : bool)
| EIdleDecide
| EIdleWrite
| EClear
| EFinish
| Crash
| Restart.

Definition with_head (s : st) (f : vol -> option (st -> st) * vol) : option st :=
  match loops s with
  | v :: r => match f v with
              | (Some k, v') => Some (k (set_loops s (v' :: r)))
              | (None, _) => None
              end
  | [] => None
  end.

(* The control loop processes one tick (its task is sequential: not while its own idle write is in
   flight).  _IdleReleaseInternalRunAdapter.on_tick: a run that announced idle and now processes
   any other tick clears the idle mark in the store first. *)
Definition tick (s : st) (f : vol -> option (st -> st) * vol) : option st :=
  match loops s with
  | v :: r =>
    match idle_cap v with
    | Some _ => None
    | None =>
      match f v with
      | (Some k, v') => Some (k (set_loops (if marked v then set_idle_since s None else s) (v' :: r)))
      | (None, _) => None
      end
    end
  | [] => None
  end.

Definition step0 (tau : Z) (s : st) (a : act) : option st :=
  match a with
  | Advance dt => if Z.leb 0 dt then Some (set_now s (now s + dt)) else None
  | Start =>
      (* _WorkflowService.start_workflow: handler row (running, idle_since NULL), then workflow.run *)
      if started s then None
      else Some (set_busy (set_loops (set_active (set_running (set_idle_since (set_started s true) None) true)
                                                 true) [fresh]) 1%nat)
  | Send e => if started s then Some (set_tasks s (tasks s ++ [SWant e])) else None
  | Task i => task_step tau s i
  | EPull =>
      tick s (fun v => match mail v with
                       | e :: m => (Some (fun s' => set_busy (set_log s' (log s' ++ [e])) (S (busy s'))),
                                    {| mail := m ; retries := retries v ; sched := sched v ; idle_cap := None ;
                                       marked := false |})
                       | [] => (None, v)
                       end)
  | EDone sends emits retry wait =>
      (* a step result tick: one input leaves in_progress; `emits` returned events are queued at
         once, `sends` went through ctx.send_event (receive queue), a failed attempt with a positive
         retry delay and a wait_for_event with a timeout each leave one scheduled wakeup *)
      match busy s with
      | O => None
      | S b =>
        tick s (fun v => (Some (fun s' => set_t_sched (set_delivered (set_busy s' (b + emits)%nat)
                                                                     (delivered (g s') ++ sends))
                                                      (t_sched (g s') + (if retry then 1 else 0)
                                                       + (if wait then 1 else 0))%nat),
                          {| mail := mail v ++ sends ; retries := (retries v + (if retry then 1 else 0))%nat ;
                             sched := (sched v + (if wait then 1 else 0))%nat ;
                             idle_cap := None ; marked := false |}))
      end
  | EWake true =>
      tick s (fun v => match retries v with
                       | S k => (Some (fun s' => set_t_woke (set_busy s' (S (busy s'))) (S (t_woke (g s')))),
                                 {| mail := mail v ; retries := k ; sched := sched v ; idle_cap := None ;
                                    marked := false |})
                       | O => (None, v)
                       end)
  | EWake false =>
      tick s (fun v => match sched v with
                       | S k => (Some (fun s' => set_t_woke (set_busy s' (S (busy s'))) (S (t_woke (g s')))),
                                 {| mail := mail v ; retries := retries v ; sched := k ; idle_cap := None ;
                                    marked := false |})
                       | O => (None, v)
                       end)
  | EIdleDecide =>
      (* _check_idle_state: is_running and no queue / in_progress anywhere; the runner skips the
         idle check while scheduled_wakeups holds a delayed retry (TickAddEvent); the receive queue
         and waiter timeouts are not consulted.  The adapter sets _marked_idle and captures the
         time before it awaits the store *)
      if Nat.eqb (busy s) 0 && running s then
        with_head s (fun v => match idle_cap v, retries v with
                              | None, O => (Some (fun s' => s'),
                                         {| mail := mail v ; retries := retries v ; sched := sched v ;
                                            idle_cap := Some (now s) ; marked := true |})
                              | _, _ => (None, v)
                              end)
      else None
  | EIdleWrite =>
      (* _IdleReleaseInternalRunAdapter.write_to_event_stream: store write with the captured time,
         then _spawn_task(_deferred_release) *)
      with_head s (fun v => match idle_cap v with
                            | Some t => (Some (fun s' => set_tasks (set_idle_since s' (Some t))
                                                                   (tasks s' ++ [RSleep (now s' + tau)])),
                                         {| mail := mail v ; retries := retries v ; sched := sched v ;
                                            idle_cap := None ; marked := marked v |})
                            | None => (None, v)
                            end)
  | EClear =>
      (* the clearing write of _IdleReleaseInternalRunAdapter.on_tick on its own (a store with latency
         completes it some time before the tick is persisted); the tick actions below do the same
         write when the loop is still marked, so both granularities are traces of the model *)
      with_head s (fun v => match idle_cap v, marked v with
                            | None, true => (Some (fun s' => set_idle_since s' None),
                                             {| mail := mail v ; retries := retries v ; sched := sched v ;
                                                idle_cap := None ; marked := false |})
                            | _, _ => (None, v)
                            end)
  | EFinish =>
      match busy s, loops s with
      | S _, v :: r =>
        if match idle_cap v with Some _ => true | None => false end then None else Some (set_t_dropped (set_dropped (set_busy (set_running (set_loops s r) false) 0%nat)
                                                        (dropped (g s) ++ mail v))
                                           (t_dropped (g s) + sched v + retries v)%nat)
      | _, _ => None
      end
  | Crash =>
      Some (set_resumed
              (set_released
                 (set_reloads
                    (set_t_dropped
                       (set_dropped (set_tasks (set_loops (set_active s false) []) (map (fun _ => Done) (tasks s)))
                                    (dropped (g s) ++ all_mail (loops s)))
                       (t_dropped (g s) + sum_sched (loops s) + sum_retries (loops s))%nat)
                    0%nat) false) false)
  | Restart =>
      (* PersistenceDecorator.launch -> _on_server_start, once per process life *)
      if resumed s then None
      else if running s && (match idle_since s with None => true | Some _ => false end) && negb (active s)
           then Some (set_tasks (set_resumed s true) (tasks s ++ [BReplay]))
           else Some (set_resumed s true)
  end.

Definition race_now (s : st) : bool := existsb is_reloading (tasks s) && existsb is_breplay (tasks s).
Definition step (tau : Z) (s : st) (a : act) : option st :=
  match step0 tau s a with
  | Some s' => Some (set_raced s' (raced (g s') || race_now s'))
  | None => None
  end.

Fixpoint run (tau : Z) (s : st) (tr : list act) : option st :=
  match tr with
  | [] => Some s
  | a :: r => match step tau s a with Some s' => run tau s' r | None => None end
  end.

(* An idle mark is written truthfully when, at that moment, the run has no queued, running,
   scheduled or undelivered work and no sender sits between clearing the mark and its put. *)
Definition truthful (s : st) (a : act) : bool :=
  match a with
  | EIdleWrite => negb (has_work s) && negb (existsb is_cleared (tasks s))
  | _ => true
  end.
Fixpoint run_truthful (tau : Z) (s : st) (tr : list act) : bool :=
  match tr with
  | [] => true
  | a :: r => truthful s a && match step tau s a with Some s' => run_truthful tau s' r | None => true end
  end.

(* ---- observation used by the correspondence suite ---- *)
Definition b2z (b : bool) : Z := if b then 1 else 0.
Definition obs (s : st) : list Z :=
  [ b2z (active s) ; Z.of_nat (length (loops s)) ;
    b2z (match idle_since s with Some _ => true | None => false end) ;
    b2z (running s) ; Z.of_nat (length (log s)) ; Z.of_nat (busy s) ;
    Z.of_nat (length (all_mail (loops s))) ; Z.of_nat (sum_sched (loops s)) ;
    Z.of_nat (sum_retries (loops s)) ].

Fixpoint zlist_eqb (a b : list Z) : bool :=
  match a, b with
  | [], [] => true
  | x :: a', y :: b' => Z.eqb x y && zlist_eqb a' b'
  | _, _ => false
  end.

(* replay a recorded implementation trace: every action must be enabled in the model and the
   model's observation after it must equal the recorded one; 0 = conforms, k = first position
   (1-based) whose observation differs, -k = action at position k not enabled in the model *)
Fixpoint conform (tau : Z) (s : st) (tr : list (act * list Z)) (k : Z) : Z :=
  match tr with
  | [] => 0
  | (a, o) :: r =>
    match step tau s a with
    | None => - k
    | Some s' => if zlist_eqb (obs s') o then conform tau s' r (k + 1) else k
    end
  end.

(* summary of the history ghosts, for the refutation witnesses evaluated by the harness *)
Definition verdicts (s : st) : list Z :=
  [ Z.of_nat (rel_work (g s)) ; Z.of_nat (length (lost (g s))) ; Z.of_nat (lost_timers (g s)) ;
    Z.of_nat (guard_hits (g s)) ; Z.of_nat (length (undeliv (g s))) ; Z.of_nat (misfailed (g s)) ;
    Z.of_nat (reloads (g s)) ; b2z (raced (g s)) ; Z.of_nat (lost_retries (g s)) ;
    Z.of_nat (rel_busy (g s)) ].
