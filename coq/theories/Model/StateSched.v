(* M-StateSched (C20): cooperative interleaving of state-store operations.

   Generic part.  A task (one store operation issued by one step) is a list of atomic segments:
   the code between two await points runs without interruption on the asyncio loop.  A task may
   be *locking*: it takes the store's asyncio.Lock before its first segment and releases it at the
   end of its last one (`async with self._lock:` around the whole body; acquiring a free lock and
   releasing do not suspend, so they belong to the first / last segment).  A schedule is a list of
   task ids: each entry lets that task run until its next await point.  The lock is a guard: a
   locking task that is scheduled while another task holds the lock does not move; whichever
   waiting task the schedule picks after the release gets the lock.  asyncio.Lock grants in FIFO
   order — one of the grant orders this semantics allows, so a statement over all schedules covers
   it (the FIFO discipline itself is a trusted primitive, DESIGN §9).

   Concrete part.  The operations of InMemoryStateStore and SqliteStateStore as tasks, with the
   locking discipline *as the code has it* (which operations are locking is read from the source
   into Generated.v).  The shared state is the stored state object (Model/StateStore.v; for the
   SQLite store a missing row is identified with the defaults of the declared type, which C19's
   refinement justifies).  No proofs here. *)
From Coq Require Import List ZArith Bool.
Import ListNotations.
From WF Require Import Model.StateStore.
Open Scope Z_scope.

Section Sched.
  Variables St Lo : Type.

  Definition act := St -> Lo -> St * Lo.          (* one atomic segment: shared state, task-local state *)

  Record task := { t_locked : bool; t_init : Lo; t_segs : list act }.

  Inductive phase :=
  | NotStarted
  | Running (rest : list act) (l : Lo)         (* suspended at an await point, [rest] non-empty *)
  | Finished.

  Record sys := {
    sh : St;
    holder : option nat;                      (* which task holds the lock *)
    ph : nat -> phase;
    order : list nat                          (* tasks in the order in which they finished *)
  }.

  Variable tasks : nat -> task.
  Variable n : nat.                           (* tasks 0 .. n-1 exist *)

  Definition set_ph (f : nat -> phase) (i : nat) (p : phase) : nat -> phase :=
    fun j => if Nat.eqb j i then p else f j.

  Definition finish (i : nat) (s : St) (y : sys) : sys :=
    {| sh := s;
       holder := if t_locked (tasks i) then None else holder y;
       ph := set_ph (ph y) i Finished;
       order := order y ++ [i] |}.

  (* run the next segment of task i *)
  Definition advance (i : nat) (segs : list act) (l : Lo) (y : sys) : sys :=
    match segs with
    | [] => finish i (sh y) y
    | a :: rest =>
        let '(s', l') := a (sh y) l in
        match rest with
        | [] => finish i s' y
        | _ :: _ => {| sh := s'; holder := holder y; ph := set_ph (ph y) i (Running rest l'); order := order y |}
        end
    end.

  Definition step (y : sys) (i : nat) : sys :=
    if Nat.ltb i n then
      match ph y i with
      | NotStarted =>
          let t := tasks i in
          if t_locked t then
            match holder y with
            | None => advance i (t_segs t) (t_init t)
                              {| sh := sh y; holder := Some i; ph := ph y; order := order y |}
            | Some _ => y                      (* lock busy: the task waits *)
            end
          else advance i (t_segs t) (t_init t) y
      | Running rest l => advance i rest l y
      | Finished => y
      end
    else y.

  Definition init (s0 : St) : sys :=
    {| sh := s0; holder := None; ph := fun _ => NotStarted; order := [] |}.

  Definition run_sched (s0 : St) (sch : list nat) : sys := fold_left step sch (init s0).

  (* serial execution *)
  Definition run_segs (segs : list act) (sl : St * Lo) : St * Lo :=
    fold_left (fun sl a => a (fst sl) (snd sl)) segs sl.
  Definition serial_run (i : nat) (s : St) : St :=
    fst (run_segs (t_segs (tasks i)) (s, t_init (tasks i))).
  Definition serial (ord : list nat) (s : St) : St := fold_left (fun s i => serial_run i s) ord s.

  Fixpoint all_finished (y : sys) (k : nat) : bool :=
    match k with
    | O => true
    | S k' => match ph y k' with Finished => all_finished y k' | _ => false end
    end.
End Sched.

Arguments NotStarted {St Lo}.
Arguments Running {St Lo} rest l.
Arguments Finished {St Lo}.

(* ---------- the store operations as tasks ---------- *)
(* an edit_state block whose body awaits between its parts: each part is a list of top-level edits *)
Inductive cop :=
| CSet (p : str) (v : value)
| CSetState (inc : sobj)
| CEdit (parts : list (list edit))            (* non-empty *)
| CGet (p : str).

(* locking discipline: [get; set; set_state; edit_state], as in Generated.statestore_*_locked *)
Definition lk (l : list bool) (k : nat) : bool := nth k l false.

Definition do_set (s : sobj) (p : str) (v : value) : sobj :=
  match set_by_path s p v with Ok s' => s' | Err _ => s end.
Definition do_set_state (s : sobj) (inc : sobj) : sobj :=
  match merge_state s inc with Ok s' => s' | Err _ => s end.

Definition T := task sobj (option sobj).

(* InMemoryStateStore: edit_state yields the live state object; the block mutates it in place *)
Definition mem_task (locks : list bool) (c : cop) : T :=
  match c with
  | CGet p => {| t_locked := lk locks 0; t_init := None; t_segs := [fun s l => (s, l)] |}
  | CSet p v => {| t_locked := lk locks 1; t_init := None; t_segs := [fun s l => (do_set s p v, l)] |}
  | CSetState inc => {| t_locked := lk locks 2; t_init := None; t_segs := [fun s l => (do_set_state s inc, l)] |}
  | CEdit parts => {| t_locked := lk locks 3; t_init := None;
                      t_segs := map (fun es => fun (s : sobj) (l : option sobj) => (apply_edits s es, l)) parts |}
  end.

(* SqliteStateStore: edit_state loads a copy at the start, the block edits the copy, the end saves it *)
Definition local (s : sobj) (l : option sobj) : sobj := match l with Some x => x | None => s end.

Fixpoint sql_edit_segs (parts : list (list edit)) : list (act sobj (option sobj)) :=
  match parts with
  | [] => []
  | [es] => [fun s l => let x := apply_edits (local s l) es in (x, Some x)]           (* last part, then save *)
  | es :: rest => (fun s l => (s, Some (apply_edits (local s l) es))) :: sql_edit_segs rest
  end.

Definition sql_task (locks : list bool) (c : cop) : T :=
  match c with
  | CGet p => {| t_locked := lk locks 0; t_init := None; t_segs := [fun s l => (s, l)] |}
  | CSet p v => {| t_locked := lk locks 1; t_init := None; t_segs := [fun s l => (do_set s p v, l)] |}
  | CSetState inc => {| t_locked := lk locks 2; t_init := None; t_segs := [fun s l => (do_set_state s inc, l)] |}
  | CEdit parts => {| t_locked := lk locks 3; t_init := None; t_segs := sql_edit_segs parts |}
  end.

Definition task_table (mk : cop -> T) (ops : list cop) : nat -> T :=
  fun i => nth i (map mk ops) {| t_locked := false; t_init := None; t_segs := [] |}.

(* what one operation does when nothing else runs: the same for both stores *)
Definition cop_serial (c : cop) (s : sobj) : sobj :=
  match c with
  | CGet _ => s
  | CSet p v => do_set s p v
  | CSetState inc => do_set_state s inc
  | CEdit parts => fold_left apply_edits parts s
  end.

(* ---------- correspondence check ---------- *)
(* [sch]: the observed sequence of executed segments (task ids) on the real store *)
Definition check_sched_case (mk : cop -> T) (s0 : sobj) (ops : list cop) (sch : list nat) (fin : sobj) : Z :=
  let y := run_sched _ _ (task_table mk ops) (length ops) s0 sch in
  if negb (all_finished _ _ y (length ops)) then 1
  else if negb (sobj_eqb (sh _ _ y) fin) then 2 else 0.
