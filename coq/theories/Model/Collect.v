(* M-Collect: executable model of InternalContext.collect_events (context/internal_context.py), the
   step-side half of collect_events; the reducer half (AddCollectedEvent / DeleteCollectedEvent with the
   stale-snapshot re-run) is in Model/Engine.v (one_result: RAddColl / RDelColl).  No proofs here. *)
From Coq Require Import List ZArith Bool.
Import ListNotations.
From WF Require Import Model.Engine.
Open Scope Z_scope.

(* Counter(expected) - Counter([type(e) for e in collected]) : remove one occurrence per collected event *)
Fixpoint remove_one (t : Z) (l : list Z) : list Z :=
  match l with [] => [] | h :: r => if Z.eqb h t then r else h :: remove_one t r end.
Definition remaining (expected : list Z) (buf : list event) : list Z :=
  fold_left (fun acc e => remove_one (ety e) acc) buf expected.

(* by_type[e_type].pop(0): the earliest pooled event of that exact type *)
Fixpoint take_first (t : Z) (pool : list event) : option (event * list event) :=
  match pool with
  | [] => None
  | e :: r => if Z.eqb (ety e) t then Some (e, r)
              else match take_first t r with Some (x, r') => Some (x, e :: r') | None => None end
  end.
Fixpoint pick (expected : list Z) (pool : list event) : option (list event) :=
  match expected with
  | [] => Some []
  | t :: ts => match take_first t pool with
               | None => None   (* IndexError: pop from empty list *)
               | Some (x, pool') => match pick ts pool' with Some l => Some (x :: l) | None => None end
               end
  end.

Inductive collect_out :=
| CReturn (l : list event) (rs : list result)   (* collect_events returned a list; results appended to the step's return values *)
| CNone (rs : list result)                      (* returned None *)
| CIndexError.

(* multiset equality with the singleton {t}: Counter == Counter([t]) *)
Definition is_singleton (t : Z) (l : list Z) : bool :=
  match l with [x] => Z.eqb x t | _ => false end.

Definition collect (buf_id : Z) (coll : list (Z * list event)) (ev : event) (expected : list Z) : collect_out :=
  match expected with
  | [] => CReturn [] []
  | _ =>
    let buf := match zlookup buf_id coll with Some l => l | None => [] end in
    let rem := remaining expected buf in
    if is_singleton (ety ev) rem then
      match pick expected (buf ++ [ev]) with
      | Some l => CReturn l [RDelColl buf_id]
      | None => CIndexError
      end
    else if zmem (ety ev) rem then CNone [RAddColl buf_id ev]
    else CNone []
  end.
