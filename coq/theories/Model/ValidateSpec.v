(* Declarative statement of C23 ("well-formed step graph", "uses human-in-the-loop"), written from
   the property text, not from the code: sets are predicates, reachability is the reflexive-
   transitive closure of the edge relation.  Definitions only. *)
From Coq Require Import List ZArith Bool Relations.
Import ListNotations.
From WF Require Import Model.Validate.
Open Scope Z_scope.

Section Spec.
Variable U : ty -> kinds.

Definition consumes (g : graph) (t : ty) : Prop := exists st, In st g /\ In t (s_acc st).
Definition returns (g : graph) (t : ty) : Prop := exists st, In st g /\ In t (s_ret st).
(* the start event is produced by the runtime, everything else by a step *)
Definition produces (g : graph) (s : ty) (t : ty) : Prop := t = s \/ returns g t.
Definition is_event (g : graph) (t : ty) : Prop := consumes g t \/ returns g t.
Definition is_step (g : graph) (n : Z) : Prop := exists st, In st g /\ s_name st = n.
Definition is_handler (g : graph) (n : Z) : Prop :=
  exists h, In h g /\ s_handler h = true /\ s_name h = n.

(* exactly one StartEvent type is consumed / exactly one StopEvent type is produced *)
Definition one_start (g : graph) (s : ty) : Prop :=
  consumes g s /\ is_start U s = true /\ forall t, consumes g t -> is_start U t = true -> t = s.
Definition one_stop (g : graph) (e : ty) : Prop :=
  returns g e /\ is_stop U e = true /\ forall t, returns g t -> is_stop U t = true -> t = e.

Definition no_stop_consumer (g : graph) : Prop := forall t, consumes g t -> is_stop U t = false.
(* every consumed event is produced or is a boundary event, and vice versa *)
Definition consumed_are_produced (g : graph) (s : ty) : Prop :=
  forall t, consumes g t -> produces g s t \/ boundary4 U t = true.
Definition produced_are_consumed (g : graph) (s : ty) : Prop :=
  forall t, produces g s t -> consumes g t \/ boundary3 U t = true.

(* the @catch_error handlers are consistent *)
Definition handlers_ok (g : graph) : Prop :=
  (forall h, In h g -> s_handler h = true -> exists m, s_maxrec h = Some m /\ 1 <= m) /\
  (forall h1 h2, In h1 g -> In h2 g -> s_handler h1 = true -> s_handler h2 = true ->
     s_for h1 = None -> s_for h2 = None -> s_name h1 = s_name h2) /\
  (forall h fs t, In h g -> s_handler h = true -> s_for h = Some fs -> In t fs ->
     is_step g t /\ ~ is_handler g t) /\
  (forall h fs, In h g -> s_handler h = true -> s_for h = Some fs -> NoDup fs) /\
  (forall h1 h2 f1 f2 t, In h1 g -> In h2 g -> s_handler h1 = true -> s_handler h2 = true ->
     s_name h1 <> s_name h2 -> s_for h1 = Some f1 -> s_for h2 = Some f2 ->
     In t f1 -> In t f2 -> False).

(* the step/event graph *)
Inductive gedge (g : graph) : node -> node -> Prop :=
| ge_acc st t : In st g -> In t (s_acc st) -> gedge g (NE t) (NS (s_name st))
| ge_ret st t : In st g -> In t (s_ret st) -> gedge g (NS (s_name st)) (NE t).
Definition path (g : graph) : node -> node -> Prop := clos_refl_trans node (gedge g).

(* inputs: the start event, HumanResponseEvent types, and handler steps (entered by the runtime's
   failure routing); outputs: StopEvent and InputRequiredEvent types *)
Definition input_node (g : graph) (s : ty) (n : node) : Prop :=
  n = NE s \/ (exists t, n = NE t /\ is_event g t /\ is_hr U t = true)
  \/ (exists h, n = NS h /\ is_handler g h).
Definition reachable (g : graph) (s : ty) (n : node) : Prop :=
  exists i, input_node g s i /\ path g i n.
Definition can_finish (g : graph) (n : node) : Prop :=
  exists t, is_event g t /\ is_output U t = true /\ path g n (NE t).

Definition all_reachable (g : graph) (s : ty) (sk : skips) : Prop :=
  sk_reach sk = false ->
  forall st, In st g -> s_skip_reach st = false -> reachable g s (NS (s_name st)).
Definition terminal_ok (g : graph) (sk : skips) : Prop :=
  sk_term sk = false -> forall t, is_event g t -> consumes g t \/ is_output U t = true.
Definition no_dead_end (g : graph) (sk : skips) : Prop :=
  sk_dead sk = false ->
  forall st, In st g -> s_ret st <> [] -> s_skip_dead st = false -> can_finish g (NS (s_name st)).

Definition well_formed_with (g : graph) (sk : skips) (s e : ty) : Prop :=
  g <> [] /\ one_start g s /\ one_stop g e /\ no_stop_consumer g /\
  consumed_are_produced g s /\ produced_are_consumed g s /\ handlers_ok g /\
  all_reachable g s sk /\ terminal_ok g sk /\ no_dead_end g sk.
Definition well_formed (g : graph) (sk : skips) : Prop := exists s e, well_formed_with g sk s e.

(* an InputRequiredEvent is produced or a HumanResponseEvent is consumed *)
Definition hitl_spec (g : graph) (s : ty) : Prop :=
  (exists t, produces g s t /\ is_ir U t = true) \/ (exists t, consumes g t /\ is_hr U t = true).

(* handler_for_step: the handler that covers step n *)
Definition covers (g : graph) (n h : Z) : Prop :=
  (exists hs fs, In hs g /\ s_handler hs = true /\ s_name hs = h /\ s_for hs = Some fs /\ In n fs)
  \/ (is_step g n /\ ~ is_handler g n /\
      (forall hs fs, In hs g -> s_handler hs = true -> s_for hs = Some fs -> ~ In n fs) /\
      exists w, In w g /\ s_handler w = true /\ s_for w = None /\ s_name w = h).
End Spec.
