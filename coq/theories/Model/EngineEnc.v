From Coq Require Import List ZArith Bool PeanoNat.
Import ListNotations.
From WF Require Import Model.Engine.
Open Scope Z_scope.

Definition zn (n : nat) : Z := Z.of_nat n.
Definition enc_list {A} (f : A -> list Z) (l : list A) : list Z := zn (length l) :: flat_map f l.
Definition enc_opt {A} (f : A -> list Z) (o : option A) : list Z :=
  match o with None => [0] | Some a => 1 :: f a end.
Definition enc_z (z : Z) : list Z := [z].
Definition enc_b (b : bool) : list Z := [if b then 1 else 0].
Definition enc_pair (p : Z * Z) : list Z := [fst p ; snd p].
Definition enc_event (e : event) : list Z := ety e :: eid e :: enc_list enc_pair (eattrs e).
Definition enc_exn (x : exn) : list Z := [xty x ; xmsg x].
Definition enc_attempt (a : attempt) : list Z :=
  enc_event (a_ev a) ++ enc_opt enc_z (a_att a) ++ enc_opt enc_z (a_first a) ++
  enc_opt enc_exn (a_exn a) ++ enc_opt enc_z (a_failed a) ++ enc_list enc_pair (a_rc a).
Definition enc_waiter (w : waiter) : list Z :=
  w_id w :: enc_event (w_ev w) ++ [w_ty w] ++ enc_list enc_pair (w_reqs w) ++ enc_b (w_hasreq w) ++
  enc_opt enc_event (w_resolved w) ++ enc_b (w_timedout w).
Definition enc_buf (p : Z * list event) : list Z := fst p :: enc_list enc_event (snd p).
Definition enc_snap (s : snapshot) : list Z := enc_list enc_buf (s_coll s) ++ enc_list enc_waiter (s_wait s).
Definition enc_ip (i : inprog) : list Z :=
  enc_event (i_ev i) ++ [zn (i_wid i)] ++ enc_snap (i_snap i) ++ [i_att i ; i_first i] ++
  enc_opt enc_exn (i_exn i) ++ enc_opt enc_z (i_failed i) ++ enc_list enc_pair (i_rc i).
Definition enc_w (p : Z * wstate) : list Z :=
  fst p :: enc_list enc_attempt (queue (snd p)) ++ enc_list enc_ip (inprogress (snd p)) ++
  enc_list enc_buf (collected (snd p)) ++ enc_list enc_waiter (waiters (snd p)).
Definition enc_state (s : state) : list Z := enc_b (running s) ++ enc_list enc_w (workers s).
Definition enc_ss (s : sstate) : Z := match s with Preparing => 0 | Running => 1 | NotRunning => 2 end.
Definition enc_out (o : outty) : list Z :=
  match o with NoOut => [0] | OutNone => [1] | OutTy t => [2 ; t] | OutOther => [3] end.
Definition enc_pub (p : pub) : list Z :=
  match p with
  | PStep st s w i o => [1 ; st ; enc_ss s] ++ enc_opt (fun n => [zn n]) w ++ [i] ++ enc_out o
  | PEvent e => 2 :: enc_event e
  | PUnhandled ty t idle => [3 ; ty] ++ enc_opt enc_z t ++ enc_b idle
  | PIdle => [4]
  | PFailed st x a el => [5 ; st] ++ enc_exn x ++ [a ; el]
  | PTimedOut t act => [6 ; t] ++ enc_list enc_z act
  | PCancelled => [7]
  end.
Definition enc_cmd (c : command) : list Z :=
  match c with
  | CRunWorker st e w => [1 ; st] ++ enc_event e ++ [zn w]
  | CQueue a t d => 2 :: enc_attempt a ++ enc_opt enc_z t ++ enc_opt enc_z d
  | CHalt HCancelled => [3 ; 0]
  | CHalt (HTimeout t act) => [3 ; 1 ; t] ++ enc_list enc_z act
  | CComplete e => 4 :: enc_event e
  | CCompleteIdleRelease => [5]
  | CFail st x => [6 ; st] ++ enc_exn x
  | CPublish p => 7 :: enc_pub p
  | CSchedIdle => [8]
  | CSchedWaiterTimeout st w t => [9 ; st ; w ; t]
  end.
Definition enc_res (r : res (state * list command)) : list Z :=
  match r with
  | Err c => [-1 ; c]
  | Ok (s, cs) => 0 :: enc_state s ++ enc_list enc_cmd cs
  end.
Fixpoint leq (a b : list Z) : bool :=
  match a, b with
  | [], [] => true | x :: a', y :: b' => Z.eqb x y && leq a' b' | _, _ => false
  end.
(* run a history; return index (1-based) of first mismatch, 0 when all agree *)
Fixpoint run_case (P : policy) (s : state) (steps : list (tick * Z * list Z)) (k : Z) : Z * list Z :=
  match steps with
  | [] => (0, [])
  | (t, now, expect) :: rest =>
    let r := reduce P t s now in
    if leq (enc_res r) expect then
      match r with Ok (s', _) => run_case P s' rest (k + 1) | Err _ => (0, []) end
    else (k, enc_res r)
  end.

(* ---------- operation sequences for the L1 correspondence suite ---------- *)
Definition enc_rehydrate (ts : list tick) : list Z :=
  enc_list (fun t => match t with
                     | TAdd a (Some st) => st :: enc_event (a_ev a)
                     | _ => [-1] end) ts.
Definition enc_sres (r : res state) : list Z :=
  match r with Err c => [-1 ; c] | Ok s => 0 :: enc_state s end.

Inductive op :=
| OTick (t : tick) (now : Z) (expect : list Z)
| ORewindPeek (now : Z) (expect : list Z)          (* rewind_in_progress, result not applied *)
| OSerde (expect : list Z)                         (* from_serialized (to_serialized s) + rehydrate ticks *)
| OResume (now : Z) (expect : list Z)              (* continue from rewind (from_ser (to_ser s)) *)
| ORebuild (now : Z) (expect : list Z)             (* rebuild_state_from_ticks s0 log *)
| OIdle (expect : bool).                           (* _check_idle_state *)

(* returns (1-based index of the first disagreeing op, model encoding) or (0, []) *)
Fixpoint run_ops (P : policy) (s0 s : state) (log : list tick) (ops : list op) (k : Z) : Z * list Z :=
  match ops with
  | [] => (0, [])
  | OTick t now expect :: rest =>
      let r := reduce P t s now in
      if leq (enc_res r) expect then
        match r with Ok (s', _) => run_ops P s0 s' (t :: log) rest (k + 1) | Err _ => (0, []) end
      else (k, enc_res r)
  | ORewindPeek now expect :: rest =>
      let r := rewind s now in
      if leq (enc_res r) expect then run_ops P s0 s log rest (k + 1) else (k, enc_res r)
  | OSerde expect :: rest =>
      let s' := from_ser s (to_ser s) in
      let e := enc_state s' ++ enc_rehydrate (rehydrate_ticks s') in
      if leq e expect then run_ops P s0 s log rest (k + 1) else (k, e)
  | OResume now expect :: rest =>
      let s' := from_ser s (to_ser s) in
      let r := rewind s' now in
      if leq (enc_res r) expect then
        match r with Ok (s'', _) => run_ops P s' s'' [] rest (k + 1) | Err _ => (0, []) end
      else (k, enc_res r)
  | ORebuild now expect :: rest =>
      let r := rebuild P s0 (rev log) now in
      if leq (enc_sres r) expect then run_ops P s0 s log rest (k + 1) else (k, enc_sres r)
  | OIdle expect :: rest =>
      if Bool.eqb (check_idle s) expect then run_ops P s0 s log rest (k + 1)
      else (k, enc_b (check_idle s))
  end.
