(* M-ConnStore (C21): the connection discipline of SqliteWorkflowStore / SqliteStateStore.

   Generic part.  A store operation is a *program* of connection sessions: each session obtains a
   connection (`_connect()`), runs SQL that reads the database and writes + commits an update, and
   releases the connection; what the operation does next may depend on what the session read.
   [closes] says whether releasing closes the connection it was given.  In per-call mode every
   session gets a connection of its own, so closing is harmless; in single-connection mode
   (`single_connection=True`, the AgentCore configuration) every session gets THE shared
   connection, and a session that finds it closed raises sqlite3.ProgrammingError.

   Concrete part.  The operations of the real store, compiled to such programs exactly as the code
   sequences its `_connect()` / `close()` calls, over a small database (handlers, events, ticks,
   one state row per run).  The state-row semantics reuses Model/StateStore.v.  No proofs here. *)
From Coq Require Import List ZArith Bool.
Import ListNotations.
From WF Require Import Model.StateStore.
Open Scope Z_scope.

Section Prog.
  Variables D R : Type.

  Inductive prog :=
  | Done (r : R)
  | Sess (closes : bool) (upd : D -> D) (k : D -> prog)    (* read d; write upd d; continue with k d *)
  | Reopen (k : prog).                                      (* the store object is closed and opened again *)

  Inductive conn := COpen | CClosed.
  Inductive pres := PDone (r : R) | PClosed.                (* PClosed: ProgrammingError *)

  Fixpoint run_percall (p : prog) (d : D) : D * pres :=
    match p with
    | Done r => (d, PDone r)
    | Sess _ upd k => run_percall (k d) (upd d)
    | Reopen k => run_percall k d
    end.

  Fixpoint run_single (p : prog) (d : D) (c : conn) : D * conn * pres :=
    match p with
    | Done r => (d, c, PDone r)
    | Sess closes upd k =>
        match c with
        | CClosed => (d, c, PClosed)
        | COpen => run_single (k d) (upd d) (if closes then CClosed else COpen)
        end
    | Reopen k => run_single k d COpen       (* only what was committed survives; every session commits *)
    end.

  Fixpoint runs_percall (ps : list prog) (d : D) : D * list pres :=
    match ps with
    | [] => (d, [])
    | p :: r => let '(d1, x) := run_percall p d in
                let '(d2, xs) := runs_percall r d1 in (d2, x :: xs)
    end.

  Fixpoint runs_single (ps : list prog) (d : D) (c : conn) : D * conn * list pres :=
    match ps with
    | [] => (d, c, [])
    | p :: r => let '(d1, c1, x) := run_single p d c in
                let '(d2, c2, xs) := runs_single r d1 c1 in (d2, c2, x :: xs)
    end.
End Prog.

Arguments Done {D R} r.
Arguments Sess {D R} closes upd k.
Arguments Reopen {D R} k.
Arguments PDone {R} r.
Arguments PClosed {R}.

(* ---------- the concrete store ---------- *)
Definition zmap (A : Type) := list (Z * A).

Fixpoint zget {A} (k : Z) (m : zmap A) : option A :=
  match m with
  | [] => None
  | (k', v) :: r => if Z.eqb k k' then Some v else zget k r
  end.

Fixpoint zput {A} (k : Z) (v : A) (m : zmap A) : zmap A :=
  match m with
  | [] => [(k, v)]
  | (k', v') :: r => if Z.eqb k k' then (k', v) :: r else (k', v') :: zput k v r
  end.

Definition zmem (k : Z) (l : list Z) : bool := existsb (Z.eqb k) l.

Record wdb := {
  w_handlers : zmap Z;          (* handler id -> status *)
  w_events : zmap (list Z);     (* run -> event payload ids; sequence number = position *)
  w_ticks : zmap (list Z);      (* run -> tick payload ids *)
  w_state : zmap sobj           (* run -> workflow_state row *)
}.

Definition wdb_empty : wdb := {| w_handlers := []; w_events := []; w_ticks := []; w_state := [] |}.

Definition set_handlers (d : wdb) (h : zmap Z) : wdb :=
  {| w_handlers := h; w_events := w_events d; w_ticks := w_ticks d; w_state := w_state d |}.
Definition set_events (d : wdb) (e : zmap (list Z)) : wdb :=
  {| w_handlers := w_handlers d; w_events := e; w_ticks := w_ticks d; w_state := w_state d |}.
Definition set_ticks (d : wdb) (t : zmap (list Z)) : wdb :=
  {| w_handlers := w_handlers d; w_events := w_events d; w_ticks := t; w_state := w_state d |}.
Definition put_row (d : wdb) (run : Z) (o : sobj) : wdb :=
  {| w_handlers := w_handlers d; w_events := w_events d; w_ticks := w_ticks d;
     w_state := zput run o (w_state d) |}.
Definition get_row (d : wdb) (run : Z) : option sobj := zget run (w_state d).

Inductive wop :=
| WUpdate (h st : Z)                    (* update(PersistentHandler(h, status=st)) *)
| WQuery (hs : list Z)                  (* query(handler_id_in=hs) *)
| WQueryStatus (st : Z)                 (* query(status_in=[st]) *)
| WDelete (hs : list Z)                 (* delete(handler_id_in=hs) *)
| WAppendEvent (run e : Z)
| WQueryEvents (run after : Z)
| WAppendTick (run k : Z)
| WGetTicks (run : Z)
| WSeed (run : Z) (o : sobj)            (* create_state_store(run, serialized_state=<in-memory payload of o>) *)
| WCopy (run src : Z)                   (* create_state_store(run, serialized_state={sqlite, run_id=src}) *)
| WState (run : Z) (ty : list Z) (o : op)    (* an operation of the run's SqliteStateStore *)
| WReopen.                              (* close the store (and its shared connection), open a new one on the file *)

Inductive wres :=
| WOk
| WHandlers (l : list (Z * Z))          (* (id, status), sorted by id *)
| WCount (n : Z)
| WSeq (l : list (Z * Z))               (* (sequence, payload id) *)
| WOut (o : out).

(* results are compared as sorted lists (SQLite may answer an IN query in index order) *)
Fixpoint insert_sorted (x : Z * Z) (l : list (Z * Z)) : list (Z * Z) :=
  match l with
  | [] => [x]
  | y :: r => if Z.leb (fst x) (fst y) then x :: l else y :: insert_sorted x r
  end.
Definition sort_pairs (l : list (Z * Z)) : list (Z * Z) := fold_right insert_sorted [] l.

Fixpoint enumerate_from (i : Z) (l : list Z) : list (Z * Z) :=
  match l with
  | [] => []
  | x :: r => (i, x) :: enumerate_from (i + 1) r
  end.

Definition seq_of (m : zmap (list Z)) (run : Z) : list Z :=
  match zget run m with Some l => l | None => [] end.

Section Compile.
  Variable ss_closes : bool.     (* does a SqliteStateStore session close the connection it was given? *)
  Variable ct : ctable.

  Definition P := prog wdb wres.

  (* SqliteWorkflowStore: `with self._connect() as conn` never closes the shared connection *)
  Definition ws (upd : wdb -> wdb) (res : wdb -> wres) : P :=
    Sess false upd (fun d => Done (res d)).

  Definition row_or_default (d : wdb) (run : Z) (ty : list Z) : sobj :=
    match get_row d run with Some o => o | None => default_state ct ty end.

  (* _load_state: one session; creates the row from state_type() when it is missing *)
  Definition load (run : Z) (ty : list Z) (k : sobj -> P) : P :=
    Sess ss_closes
         (fun d => match get_row d run with Some _ => d | None => put_row d run (default_state ct ty) end)
         (fun d => k (row_or_default d run ty)).

  (* _save_state(state) without a connection argument: its own session *)
  Definition save (run : Z) (st : sobj) (k : P) : P :=
    Sess ss_closes (fun d => put_row d run st) (fun _ => k).

  (* set_state: one session: SELECT, merge_state, save, commit *)
  Definition set_state_sess (run : Z) (ty : list Z) (inc : sobj) : P :=
    Sess ss_closes
         (fun d => match merge_state (row_or_default d run ty) inc with
                   | Ok o => put_row d run o
                   | Err _ => d
                   end)
         (fun d => Done (WOut (match merge_state (row_or_default d run ty) inc with
                               | Ok _ => ROk
                               | Err e => RErr e
                               end))).

  Definition compile_state (run : Z) (ty : list Z) (o : op) : P :=
    match o with
    | OGet p dflt => load run ty (fun st => Done (WOut (do_get st p dflt)))
    | OGetState => load run ty (fun st => Done (WOut (RState st)))
    | OSet p v => load run ty (fun st => match set_by_path st p v with
                                         | Ok st' => save run st' (Done (WOut ROk))
                                         | Err e => Done (WOut (RErr e))
                                         end)
    | OEdit es => load run ty (fun st => save run (apply_edits st es) (Done (WOut ROk)))
    | OSetState inc => set_state_sess run ty inc
    | OClear => load run ty (fun st => set_state_sess run ty (default_state ct (o_cls st)))
    | OSnapEdit _ | OSnapWrite => Done (WOut RNoSnap)      (* caller-side operations: no store call *)
    end.

  Definition compile (w : wop) : P :=
    match w with
    | WUpdate h st => ws (fun d => set_handlers d (zput h st (w_handlers d))) (fun _ => WOk)
    | WQuery [] => Done (WHandlers [])       (* an empty IN list answers without touching the database *)
    | WQuery hs => ws (fun d => d)
                      (fun d => WHandlers (sort_pairs (filter (fun kv => zmem (fst kv) hs) (w_handlers d))))
    | WQueryStatus st => ws (fun d => d)
                            (fun d => WHandlers (sort_pairs (filter (fun kv => Z.eqb (snd kv) st) (w_handlers d))))
    | WDelete [] => Done (WCount 0)
    | WDelete hs => ws (fun d => set_handlers d (filter (fun kv => negb (zmem (fst kv) hs)) (w_handlers d)))
                       (fun d => WCount (Z.of_nat (length (filter (fun kv => zmem (fst kv) hs) (w_handlers d)))))
    | WAppendEvent run e => ws (fun d => set_events d (zput run (seq_of (w_events d) run ++ [e]) (w_events d)))
                               (fun _ => WOk)
    | WQueryEvents run after => ws (fun d => d)
                                   (fun d => WSeq (filter (fun se => Z.ltb after (fst se))
                                                          (enumerate_from 0 (seq_of (w_events d) run))))
    | WAppendTick run k => ws (fun d => set_ticks d (zput run (seq_of (w_ticks d) run ++ [k]) (w_ticks d)))
                              (fun _ => WOk)
    | WGetTicks run => ws (fun d => d) (fun d => WSeq (enumerate_from 0 (seq_of (w_ticks d) run)))
    | WSeed run o => Sess ss_closes (fun d => put_row d run o) (fun _ => Done WOk)
    | WCopy run src =>
        if Z.eqb run src then Done WOk
        else Sess ss_closes (fun d => match get_row d src with Some o => put_row d run o | None => d end)
                  (fun _ => Done WOk)
    | WState run ty o => compile_state run ty o
    | WReopen => Reopen (Done WOk)
    end.
End Compile.

(* ---------- comparators for the correspondence suite ---------- *)
Fixpoint zpairs_eqb (a b : list (Z * Z)) : bool :=
  match a, b with
  | [], [] => true
  | (x1, y1) :: a', (x2, y2) :: b' => Z.eqb x1 x2 && Z.eqb y1 y2 && zpairs_eqb a' b'
  | _, _ => false
  end.

Definition wres_eqb (a b : wres) : bool :=
  match a, b with
  | WOk, WOk => true
  | WHandlers x, WHandlers y | WSeq x, WSeq y => zpairs_eqb x y
  | WCount x, WCount y => Z.eqb x y
  | WOut x, WOut y => out_eqb x y
  | _, _ => false
  end.

Definition pres_eqb (a b : pres wres) : bool :=
  match a, b with
  | PDone x, PDone y => wres_eqb x y
  | PClosed, PClosed => true
  | _, _ => false
  end.

Fixpoint first_pdiff (a b : list (pres wres)) (i : Z) : Z :=
  match a, b with
  | [], [] => 0
  | x :: a', y :: b' => if pres_eqb x y then first_pdiff a' b' (i + 1) else i + 1
  | _, _ => i + 1
  end.

(* one case: the results observed on the real store in single-connection mode and in per-call mode *)
Definition check_conn_case (ss_closes : bool) (ct : ctable) (ops : list wop)
           (obs_single obs_percall : list (pres wres)) : Z :=
  let ps := map (compile ss_closes ct) ops in
  let d1 := first_pdiff (snd (runs_single _ _ ps wdb_empty (COpen))) obs_single 0 in
  if negb (d1 =? 0) then d1 else
  let d2 := first_pdiff (snd (runs_percall _ _ ps wdb_empty)) obs_percall 0 in
  if negb (d2 =? 0) then 1000 + d2 else 0.
