(* M-Archive: executable model of
     packages/llama-agents-control-plane/src/llama_agents/control_plane/backup/archive.py
       create_backup_archive / read_backup_archive
     packages/llama-agents-control-plane/src/llama_agents/control_plane/backup/encryption.py
       encrypt / decrypt (wire format)
   No proofs in this file.

   An archive is the ordered list of its members (name, is-regular-file, content); tarfile/gzip
   are trusted to preserve that list.  The ORDERED suffix dispatch of read_backup_archive, the
   suffixes written by create_backup_archive, the manifest file name and the two password
   conditions come from Generated.v (rewritten from the source on every run).
   YAML, the two JSON payloads and the AEAD are Section variables. *)
From Coq Require Import List ZArith Bool Ascii String.
Import ListNotations.
From WF Require Import Generated.
Open Scope Z_scope.

Definition str := list ascii.
Definition lit (s : string) : str := list_ascii_of_string s.

Fixpoint str_eqb (a b : str) : bool :=
  match a, b with
  | [], [] => true
  | x :: a', y :: b' => Ascii.eqb x y && str_eqb a' b'
  | _, _ => false
  end.

Fixpoint prefix_b (p l : str) : bool :=
  match p, l with
  | [], _ => true
  | x :: p', y :: l' => Ascii.eqb x y && prefix_b p' l'
  | _ :: _, [] => false
  end.

(* str.endswith / str.removesuffix (the latter only used after a successful endswith) *)
Definition ends_with (l s : str) : bool := prefix_b (rev s) (rev l).
Definition remove_suffix (l s : str) : str := firstn (List.length l - List.length s) l.

Inductive kind := KCr | KSecretEnc | KSecretYaml | KMeta | KUnknown.

Definition kind_of (s : string) : kind :=
  if String.eqb s "cr" then KCr
  else if String.eqb s "secret_enc" then KSecretEnc
  else if String.eqb s "secret_yaml" then KSecretYaml
  else if String.eqb s "meta" then KMeta
  else KUnknown.

Definition dispatch_table : list (str * kind) :=
  map (fun p => (lit (fst p), kind_of (snd p))) archive_read_dispatch.

(* the if/elif chain: the first suffix (in source order) the name ends with *)
Fixpoint classify_with (test : str -> bool) (t : list (str * kind)) : option (str * kind) :=
  match t with
  | [] => None
  | (s, k) :: r => if test s then Some (s, k) else classify_with test r
  end.
Definition classify (name : str) : option (str * kind) := classify_with (ends_with name) dispatch_table.

(* suffix appended by create_backup_archive for a payload kind *)
Definition wsuf (k : string) : str :=
  match find (fun p => String.eqb (fst p) k) archive_written with
  | Some p => lit (snd p)
  | None => lit "/?"
  end.

Definition manifest_name_read : str := lit archive_manifest_name_read.
Definition manifest_name_written : str := lit archive_manifest_name_written.

Record manifest := mkM { m_version : Z; m_ts : Z; m_ns : Z; m_count : Z; m_enc : bool }.

Inductive err := ENoPassword | EInvalidTag | EShort | EMissingManifest | EBadVersion | EParse.
Inductive result (X : Type) := Ok (x : X) | Err (e : err).
Arguments Ok {X} x.
Arguments Err {X} e.

Inductive dres (B : Type) := DOk (b : B) | DTag | DShort.
Arguments DOk {B} b.
Arguments DTag {B}.
Arguments DShort {B}.

(* Python dict with string keys: assignment to an existing key keeps its position *)
Fixpoint aset {X : Type} (k : str) (v : X) (l : list (str * X)) : list (str * X) :=
  match l with
  | [] => [(k, v)]
  | (k', v') :: r => if str_eqb k k' then (k, v) :: r else (k', v') :: aset k v r
  end.
Fixpoint aget {X : Type} (k : str) (l : list (str * X)) : option X :=
  match l with
  | [] => None
  | (k', v') :: r => if str_eqb k k' then Some v' else aget k r
  end.

Section Codec.
Variables bytes doc pwd rand : Type.
Variable doc_name : doc -> str.                 (* cr.get("metadata", {}).get("name", "unknown") *)
Variable ydump : doc -> bytes.                  (* yaml.dump(., default_flow_style=False).encode() *)
Variable yload : bytes -> option doc.           (* yaml.safe_load; None = raises *)
Variable mdump : manifest -> bytes.             (* json.dumps(manifest, indent=2).encode() *)
Variable mload : bytes -> option manifest.
Variable gdump : Z -> bytes.                    (* json.dumps({"generation": g}).encode() *)
Variable gload : bytes -> option (option Z).    (* json.loads(.) then .get("generation") *)
Variable enc : pwd -> rand -> bytes -> bytes.   (* encryption.encrypt (salt+nonce drawn from rand) *)
Variable dec : pwd -> bytes -> dres bytes.      (* encryption.decrypt *)
Variable pw_nonempty : pwd -> bool.             (* truthiness of the password string *)

Definition member : Type := str * bool * bytes.
Definition entry : Type := str * doc * option doc * option Z.

(* `if encryption_password:` and `"encrypted": encryption_password is not None` *)
Definition cond (which : string) (pw : option pwd) : bool :=
  match pw with
  | None => false
  | Some p => if String.eqb which "truthy" then pw_nonempty p
              else if String.eqb which "is_not_none" then true else false
  end.
Definition encrypts (pw : option pwd) : bool := cond archive_encrypt_condition pw.
Definition flag_encrypted (pw : option pwd) : bool := cond archive_manifest_encrypted_flag pw.

(* `if generations and name in generations` *)
Definition gen_lookup (gens : option (list (str * Z))) (n : str) : option Z :=
  match gens with
  | None => None
  | Some g => aget n g
  end.

Definition secret_file (pw : option pwd) (rnd : str -> rand) (n : str) (sd : doc) : member :=
  match pw with
  | Some p => if encrypts pw then (app n (wsuf "secret_enc"), true, enc p (rnd n) (ydump sd))
              else (app n (wsuf "secret_yaml"), true, ydump sd)
  | None => (app n (wsuf "secret_yaml"), true, ydump sd)
  end.

Definition files_of (secrets : list (str * doc)) (gens : option (list (str * Z))) (pw : option pwd)
           (rnd : str -> rand) (cr : doc) : list member :=
  let n := doc_name cr in
  ([(app n (wsuf "cr"), true, ydump cr)]
   ++ match aget n secrets with Some sd => [secret_file pw rnd n sd] | None => [] end
   ++ match gen_lookup gens n with Some g => [(app n (wsuf "meta"), true, gdump g)] | None => [] end)%list.

Definition create (deps : list doc) (secrets : list (str * doc)) (gens : option (list (str * Z)))
           (ns ts : Z) (pw : option pwd) (rnd : str -> rand) : list member :=
  (manifest_name_written, true, mdump (mkM 1 ts ns (Z.of_nat (List.length deps)) (flag_encrypted pw)))
  :: flat_map (files_of secrets gens pw rnd) deps.

Record rstate := mkR {
  r_manifest : option manifest;
  r_crs : list (str * doc);
  r_secs : list (str * doc);
  r_metas : list (str * option Z) }.

Definition rempty : rstate := mkR None [] [] [].

Definition read_member (pw : option pwd) (st : rstate) (m : member) : result rstate :=
  let '(name, isfile, content) := m in
  if negb isfile then Ok st
  else if str_eqb name manifest_name_read then
    match mload content with
    | Some mf => Ok (mkR (Some mf) (r_crs st) (r_secs st) (r_metas st))
    | None => Err EParse
    end
  else match classify name with
  | Some (s, KSecretEnc) =>
    let dn := remove_suffix name s in
    match pw with
    | None => Err ENoPassword
    | Some p =>
      match dec p content with
      | DOk pt => match yload pt with
                  | Some d => Ok (mkR (r_manifest st) (r_crs st) (aset dn d (r_secs st)) (r_metas st))
                  | None => Err EParse
                  end
      | DTag => Err EInvalidTag
      | DShort => Err EShort
      end
    end
  | Some (s, KMeta) =>
    match gload content with
    | Some g => Ok (mkR (r_manifest st) (r_crs st) (r_secs st) (aset (remove_suffix name s) g (r_metas st)))
    | None => Err EParse
    end
  | Some (s, KSecretYaml) =>
    match yload content with
    | Some d => Ok (mkR (r_manifest st) (r_crs st) (aset (remove_suffix name s) d (r_secs st)) (r_metas st))
    | None => Err EParse
    end
  | Some (s, KCr) =>
    match yload content with
    | Some d => Ok (mkR (r_manifest st) (aset (remove_suffix name s) d (r_crs st)) (r_secs st) (r_metas st))
    | None => Err EParse
    end
  | Some (_, KUnknown) => Ok st
  | None => Ok st
  end.

Definition read_step (pw : option pwd) (acc : result rstate) (m : member) : result rstate :=
  match acc with
  | Ok st => read_member pw st m
  | Err e => Err e
  end.

Definition entries_of (st : rstate) : list entry :=
  map (fun nc => (fst nc, snd nc, aget (fst nc) (r_secs st),
                  match aget (fst nc) (r_metas st) with Some g => g | None => None end))
      (r_crs st).

Definition read (pw : option pwd) (ms : list member) : result (manifest * list entry) :=
  match fold_left (read_step pw) ms (Ok rempty) with
  | Err e => Err e
  | Ok st =>
    match r_manifest st with
    | None => Err EMissingManifest
    | Some mf => if m_version mf =? 1 then Ok (mf, entries_of st) else Err EBadVersion
    end
  end.

(* what a backup is expected to give back *)
Definition expected_entries (deps : list doc) (secrets : list (str * doc)) (gens : option (list (str * Z)))
  : list entry :=
  map (fun cr => (doc_name cr, cr, aget (doc_name cr) secrets, gen_lookup gens (doc_name cr))) deps.

End Codec.

(* ---------------- encryption.py wire format ---------------- *)
Section Wire.
Variables key byte : Type.
Variable kdf : list byte -> list byte -> key.                   (* _derive_key(password, salt) *)
Variable aes_enc : key -> list byte -> list byte -> list byte.  (* AESGCM(key).encrypt(nonce, pt, None) *)
Variable aes_dec : key -> list byte -> list byte -> option (list byte).   (* None = InvalidTag *)

Definition salt_len : nat := Z.to_nat backup_salt_length.
Definition nonce_len : nat := Z.to_nat backup_nonce_length.
Definition tag_len : nat := Z.to_nat backup_tag_length.

Definition wire_encrypt (pw salt nonce pt : list byte) : list byte :=
  (salt ++ nonce ++ aes_enc (kdf pw salt) nonce pt)%list.

Definition wire_decrypt (pw data : list byte) : dres (list byte) :=
  if Nat.ltb (List.length data) (salt_len + nonce_len + tag_len) then DShort
  else
    let salt := firstn salt_len data in
    let nonce := firstn nonce_len (skipn salt_len data) in
    let ct := skipn (salt_len + nonce_len) data in
    match aes_dec (kdf pw salt) nonce ct with
    | Some pt => DOk pt
    | None => DTag
    end.
End Wire.

(* ---------------- symbolic instance used by the correspondence suite ---------------- *)
Inductive blob :=
| BYaml (d : Z)                  (* yaml.dump of document number d *)
| BManifest (m : manifest)
| BGen (g : option Z)            (* {"generation": g} or {} *)
| BEnc (p r : Z) (b : blob)      (* encrypt(b, password p) *)
| BRawShort | BRawLong.          (* unparsable bytes, shorter / longer than the AEAD header *)

Definition s_yload (b : blob) : option Z := match b with BYaml d => Some d | _ => None end.
Definition s_mload (b : blob) : option manifest := match b with BManifest m => Some m | _ => None end.
Definition s_gload (b : blob) : option (option Z) := match b with BGen g => Some g | _ => None end.
Definition s_dec (p : Z) (b : blob) : dres blob :=
  match b with
  | BEnc p' _ b' => if p =? p' then DOk b' else DTag
  | BRawShort => DShort
  | _ => DTag
  end.
Definition s_name (tbl : list (Z * str)) (d : Z) : str :=
  match find (fun p => fst p =? d) tbl with Some p => snd p | None => lit "unknown" end.
Definition s_nonempty (p : Z) : bool := negb (p =? 0).

Definition s_create (tbl : list (Z * str)) deps secrets gens ns ts pw : list (str * bool * blob) :=
  create blob Z Z Z (s_name tbl) BYaml BManifest (fun g => BGen (Some g)) (fun p r b => BEnc p r b)
         s_nonempty deps secrets gens ns ts pw (fun _ => 0).
Definition s_read (pw : option Z) (ms : list (str * bool * blob)) : result (manifest * list (str * Z * option Z * option Z)) :=
  read blob Z Z s_yload s_mload s_gload s_dec pw ms.

(* canonical encodings *)
Definition enc_str (s : str) : list Z := Z.of_nat (List.length s) :: map (fun c => Z.of_nat (nat_of_ascii c)) s.
Definition enc_opt (o : option Z) : list Z := match o with Some z => [1; z] | None => [0; 0] end.
Definition enc_manifest (m : manifest) : list Z :=
  [m_version m; m_ts m; m_ns m; m_count m; if m_enc m then 1 else 0].
Fixpoint enc_blob (b : blob) : list Z :=
  match b with
  | BYaml d => [1; d]
  | BManifest m => 2 :: enc_manifest m
  | BGen g => 3 :: enc_opt g
  | BEnc p r b' => 4 :: p :: enc_blob b'
  | BRawShort => [5]
  | BRawLong => [6]
  end.
Definition enc_member (m : str * bool * blob) : list Z :=
  let '(n, f, b) := m in (enc_str n ++ [if f then 1 else 0] ++ enc_blob b)%list.
Definition enc_err (e : err) : Z :=
  match e with
  | ENoPassword => 1 | EInvalidTag => 2 | EShort => 3 | EMissingManifest => 4 | EBadVersion => 5 | EParse => 6
  end.
Definition enc_entry (e : str * Z * option Z * option Z) : list Z :=
  let '(n, cr, s, g) := e in (enc_str n ++ [cr] ++ enc_opt s ++ enc_opt g)%list.
Definition enc_read (r : result (manifest * list (str * Z * option Z * option Z))) : list Z :=
  match r with
  | Err e => [-1; enc_err e]
  | Ok (m, es) => 0 :: (enc_manifest m ++ flat_map enc_entry es)%list
  end.

Fixpoint zl_eqb (a b : list Z) : bool :=
  match a, b with
  | [], [] => true
  | x :: a', y :: b' => (x =? y) && zl_eqb a' b'
  | _, _ => false
  end.

(* 0 = the model's archive for these inputs is the expected member list *)
Definition create_check tbl deps secrets gens ns ts pw (expected : list Z) : Z :=
  if zl_eqb (flat_map enc_member (s_create tbl deps secrets gens ns ts pw)) expected then 0 else 1.
(* 0 = the model reads the members to the expected result *)
Definition read_check (pw : option Z) (ms : list (str * bool * blob)) (expected : list Z) : Z :=
  if zl_eqb (enc_read (s_read pw ms)) expected then 0 else 1.

(* The suite sends the result of a read as [first two numbers of its encoding exactly; 31-bit hash
   of the complete encoding]; the complete encodings are compared whenever these differ
   (read_trace), see suites/archive.py. *)
Definition hmod : Z := 2147483629.
Fixpoint zhash (l : list Z) (acc : Z) : Z :=
  match l with
  | [] => acc
  | x :: t => zhash t ((acc * 1000003 + x + 17) mod hmod)
  end.
Definition compact (full : list Z) : list Z := firstn 2 full ++ [zhash full 7].

(* one archive: the model's create gives exactly the (abstracted) members of the real archive
   (result 1 otherwise), and reading those members with each listed password gives the listed
   result (otherwise 2 + index of the first differing read) *)
Fixpoint reads_check (k : Z) (ms : list (str * bool * blob)) (reads : list (option Z * list Z)) : Z :=
  match reads with
  | [] => 0
  | (p, e) :: r => if zl_eqb (compact (enc_read (s_read p ms))) e then reads_check (k + 1) ms r else k
  end.
Definition archive_check tbl deps secrets gens ns ts pw (ms : list (str * bool * blob))
           (reads : list (option Z * list Z)) : Z :=
  if zl_eqb (flat_map enc_member (s_create tbl deps secrets gens ns ts pw)) (flat_map enc_member ms)
  then reads_check 2 ms reads else 1.
Definition members_check (ms : list (str * bool * blob)) (reads : list (option Z * list Z)) : Z :=
  reads_check 2 ms reads.
(* diagnostics *)
Definition create_trace tbl deps secrets gens ns ts pw : list Z :=
  flat_map enc_member (s_create tbl deps secrets gens ns ts pw).
Definition read_trace (pw : option Z) (ms : list (str * bool * blob)) : list Z := enc_read (s_read pw ms).
