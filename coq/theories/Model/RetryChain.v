(* M-RetryChain: the retry feedback loop of one event of one step, as the runner and the reducer drive it:
   a failed execution with retry number `att` is reported as failures = att + 1 and
   elapsed = failed_at - first_attempt_at to policy.next; a delay d re-queues the same event with
   attempts = failures after d seconds; None ends the chain (the failure is exhausted).
   The body fails instantly (failed_at = start of the execution) with the exceptions of `xs` in turn and
   succeeds once `xs` is used up.  No proofs here. *)
From Coq Require Import List ZArith QArith Qminmax Bool.
Import ListNotations.
From WF Require Import Model.Retry.
Open Scope Q_scope.

Record exec := { e_retry_no : Z ; e_prev : option exn ; e_start : Q }.
Inductive chain_end :=
| CStopped (attempts : Z) (elapsed : Q) (x : exn)     (* retries exhausted: what StepFailedEvent / WorkflowFailedEvent report *)
| CSucceeded.

Section Chain.
Variable upred : Z -> exn -> bool.
Variable rng : option Z -> Q.
Variable seedof : Z -> option Z.       (* jitter seed as a function of the failure count *)
Variable p : policy.
Variable first : Q.                    (* first_attempt_at *)

Fixpoint chain (att : Z) (prev : option exn) (start : Q) (xs : list exn) : list exec * chain_end :=
  let this := {| e_retry_no := att ; e_prev := prev ; e_start := start |} in
  match xs with
  | [] => ([this], CSucceeded)
  | x :: rest =>
    let failures := (att + 1)%Z in
    let elapsed := start - first in
    match next upred rng p elapsed failures x (seedof failures) with
    | None => ([this], CStopped failures elapsed x)
    | Some d =>
      (* CommandQueueEvent.delay: scheduled at now + d when d > 0, otherwise processed at once *)
      let (l, e) := chain failures (Some x) (start + Qmax 0 d) rest in (this :: l, e)
    end
  end.
End Chain.

(* the delay the module documents for the k-th retry (k = 1, 2, ...): strategies are indexed from 0,
   "the first retry uses the first strategy of wait_chain / the initial delay" (tenacity semantics) *)
Definition doc_delay (rng : option Z -> Q) (seed : option Z) (w : wait) (k : Z) : Q := wait_eval rng seed w (k - 1).

(* ---------- encoders for the correspondence suite ---------- *)
Definition enc_q (q : Q) : list Z := [Qnum (Qred q) ; Zpos (Qden (Qred q))].
Definition enc_chain (r : list exec * chain_end) : list Z :=
  ((Z.of_nat (length (fst r)) :: flat_map (fun e => e_retry_no e :: enc_q (e_start e)) (fst r)) ++
  match snd r with
  | CSucceeded => [0%Z]
  | CStopped a el _ => 1%Z :: a :: enc_q el
  end)%list.
Fixpoint zl_eq (a b : list Z) : bool :=
  match a, b with [], [] => true | x :: a', y :: b' => Z.eqb x y && zl_eq a' b' | _, _ => false end.
Definition chain_case (upred : Z -> exn -> bool) (p : policy) (xs : list exn) (expect : list Z) : Z :=
  if zl_eq (enc_chain (chain upred (fun _ => 0) (fun _ => None) p 0 0 None 0 xs)) expect then 0%Z else 1%Z.
