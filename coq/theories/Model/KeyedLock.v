(* Model/KeyedLock.v — executable model of llama_agents/server/_keyed_lock.py (KeyedLock.__call__)
   run by n cooperative tasks, each doing   `async with kl(key_i): <body>`   once.

   Task program counters = the places where a task can be suspended:
     PInit        created, first step not run yet
     PWaitMain1   suspended in `async with self._get_main_lock()` of the register block
     PWaitKey     suspended in `async with self._locks[key]`  (registered, queued on the key lock)
     PInCS        inside the critical section (the body awaits something: its "gate")
     PWaitMain2 e suspended in `async with self._get_main_lock()` of the `finally` block
                  (e: a CancelledError is in flight)
     PDone c      finished (c: with CancelledError)
   One scheduler choice = one event-loop action:
     CRun i     run the next atomic segment of task i (only if it is ready)
     COpen i    the awaitable the body of i waits for completes (body will finish normally)
     CCancel i  task_i.cancel()
   No proofs in this file. *)
From Coq Require Import List Bool Arith ZArith Lia.
Import ListNotations.
From WF Require Import Base.SchedKL.

Inductive pc := PInit | PWaitMain1 | PWaitKey | PInCS | PWaitMain2 (exc : bool) | PDone (cancelled : bool).

Record task := mkTask { t_key : nat; t_pc : pc; t_fut : fstate; t_mc : bool }.

Record st := mkSt {
  s_tasks : list task;            (* index = task id *)
  s_main : lock;                  (* self._main_lock *)
  s_locks : list (nat * lock);    (* self._locks, insertion order *)
  s_refs : list (nat * Z);        (* self._refs *)
  s_err : bool                    (* a KeyError / RuntimeError was raised inside KeyedLock *)
}.

Inductive choice := CRun (i : nat) | COpen (i : nat) | CCancel (i : nat).

Definition dflt : task := mkTask 0 (PDone false) FPending false.
Definition get (s : st) (i : nat) : task := nth i (s_tasks s) dflt.
Definition futs (s : st) : nat -> fstate := fun i => t_fut (get s i).

Definition init (keys : list nat) : st :=
  mkSt (map (fun k => mkTask k PInit FPending false) keys) lock_new [] [] false.

Definition set_task (s : st) (i : nat) (t : task) : st :=
  mkSt (upd i t (s_tasks s)) (s_main s) (s_locks s) (s_refs s) (s_err s).
Definition set_main (s : st) (l : lock) : st :=
  mkSt (s_tasks s) l (s_locks s) (s_refs s) (s_err s).
Definition set_locks (s : st) (ls : list (nat * lock)) : st :=
  mkSt (s_tasks s) (s_main s) ls (s_refs s) (s_err s).
Definition set_refs (s : st) (rs : list (nat * Z)) : st :=
  mkSt (s_tasks s) (s_main s) (s_locks s) rs (s_err s).
Definition set_err (s : st) : st :=
  mkSt (s_tasks s) (s_main s) (s_locks s) (s_refs s) true.

Definition set_pc (s : st) (i : nat) (p : pc) : st :=
  let t := get s i in set_task s i (mkTask (t_key t) p FPending false).

(* fut.set_result(True) for the task chosen by _wake_up_first *)
Definition wake (s : st) (o : option nat) : st :=
  match o with
  | None => s
  | Some w => let t := get s w in set_task s w (mkTask (t_key t) (t_pc t) FResult (t_mc t))
  end.

(* an exception that the code does not expect escaped: record it, the task is over *)
Definition crash (s : st) (i : nat) : st := set_err (set_pc s i (PDone false)).

Definition release_main (s : st) : st :=
  if l_locked (s_main s)
  then let '(l, w) := lk_release (futs s) (s_main s) in wake (set_main s l) w
  else set_err s.

(* `async with self._locks[key]:` — entered with the register block done *)
Definition acquire_key (s : st) (i : nat) : st :=
  let k := t_key (get s i) in
  match alookup k (s_locks s) with
  | None => crash s i
  | Some l =>
      if lk_can_take (futs s) l
      then set_pc (set_locks s (aset k (lk_take l) (s_locks s))) i PInCS
      else set_pc (set_locks s (aset k (lk_enqueue l i) (s_locks s))) i PWaitKey
  end.

(* body of the register block, main lock held by task i; then release main, go for the key lock *)
Definition after_main1 (s : st) (i : nat) : st :=
  let k := t_key (get s i) in
  let s1 := match alookup k (s_locks s) with
            | None => set_refs (set_locks s (aset k lock_new (s_locks s))) (aset k 0%Z (s_refs s))
            | Some _ => s
            end in
  match alookup k (s_refs s1) with
  | None => crash (release_main s1) i
  | Some r => acquire_key (release_main (set_refs s1 (aset k (r + 1)%Z (s_refs s1)))) i
  end.

Definition register (s : st) (i : nat) : st :=
  if lk_can_take (futs s) (s_main s)
  then after_main1 (set_main s (lk_take (s_main s))) i
  else set_pc (set_main s (lk_enqueue (s_main s) i)) i PWaitMain1.

(* body of the `finally` block, main lock held by task i *)
Definition after_main2 (s : st) (i : nat) (exc : bool) : st :=
  let k := t_key (get s i) in
  match alookup k (s_refs s) with
  | None => crash (release_main s) i
  | Some r =>
      let r' := (r - 1)%Z in
      let s1 := if (r' =? 0)%Z
                then set_refs (set_locks s (adel k (s_locks s))) (adel k (s_refs s))
                else set_refs s (aset k r' (s_refs s)) in
      set_pc (release_main s1) i (PDone exc)
  end.

Definition deregister (s : st) (i : nat) (exc : bool) : st :=
  if lk_can_take (futs s) (s_main s)
  then after_main2 (set_main s (lk_take (s_main s))) i exc
  else set_pc (set_main s (lk_enqueue (s_main s) i)) i (PWaitMain2 exc).

Definition resume_cancel (t : task) : bool := is_cancelled (t_fut t) || t_mc t.

Definition ready (t : task) : bool :=
  match t_pc t with
  | PInit => true
  | PDone _ => false
  | _ => negb (is_pending (t_fut t))
  end.

Definition run (s : st) (i : nat) : st :=
  let t := get s i in
  let k := t_key t in
  if negb (i <? length (s_tasks s)) || negb (ready t) then s else
  match t_pc t with
  | PInit =>
      if t_mc t then set_pc s i (PDone true)        (* cancelled before its first step *)
      else register s i
  | PWaitMain1 =>
      if resume_cancel t
      then let '(l, w) := lk_resume_cancel (futs s) (s_main s) i in
           set_pc (wake (set_main s l) w) i (PDone true)
      else after_main1 (set_main s (lk_resume_ok (s_main s) i)) i
  | PWaitKey =>
      match alookup k (s_locks s) with
      | None => crash s i
      | Some l =>
          if resume_cancel t
          then let '(l', w) := lk_resume_cancel (futs s) l i in
               deregister (wake (set_locks s (aset k l' (s_locks s))) w) i true
          else set_pc (set_locks s (aset k (lk_resume_ok l i) (s_locks s))) i PInCS
      end
  | PInCS =>
      (* the body ended (normally or by CancelledError): __aexit__ of the key lock, then finally *)
      match alookup k (s_locks s) with
      | None => crash s i
      | Some l =>
          if l_locked l
          then let '(l', w) := lk_release (futs s) l in
               deregister (wake (set_locks s (aset k l' (s_locks s))) w) i (resume_cancel t)
          else crash s i
      end
  | PWaitMain2 exc =>
      if resume_cancel t
      then let '(l, w) := lk_resume_cancel (futs s) (s_main s) i in
           set_pc (wake (set_main s l) w) i (PDone true)      (* refs NOT decremented *)
      else after_main2 (set_main s (lk_resume_ok (s_main s) i)) i exc
  | PDone _ => s
  end.

Definition open_gate (s : st) (i : nat) : st :=
  let t := get s i in
  match t_pc t with
  | PInCS => if is_pending (t_fut t) && (i <? length (s_tasks s))
             then set_task s i (mkTask (t_key t) PInCS FResult (t_mc t)) else s
  | _ => s
  end.

(* Task.cancel() *)
Definition cancel (s : st) (i : nat) : st :=
  let t := get s i in
  if negb (i <? length (s_tasks s)) then s else
  match t_pc t with
  | PDone _ => s
  | PInit => set_task s i (mkTask (t_key t) PInit (t_fut t) true)
  | p => if is_pending (t_fut t)
         then set_task s i (mkTask (t_key t) p FCancelled (t_mc t))
         else set_task s i (mkTask (t_key t) p (t_fut t) true)
  end.

Definition step (s : st) (c : choice) : st :=
  match c with
  | CRun i => run s i
  | COpen i => open_gate s i
  | CCancel i => cancel s i
  end.

Definition exec (s : st) (sched : list choice) : st := fold_left step sched s.

(* ---------- observations used by the theorems ---------- *)
Definition in_cs (s : st) (i : nat) : bool :=
  (i <? length (s_tasks s)) && match t_pc (get s i) with PInCS => true | _ => false end.

(* between `refs += 1` and `refs -= 1` *)
Definition registered (t : task) : bool :=
  match t_pc t with PWaitKey | PInCS | PWaitMain2 _ => true | _ => false end.

Definition done (t : task) : bool := match t_pc t with PDone _ => true | _ => false end.

(* the tasks of key k that have executed `refs[k] += 1` and not yet `refs[k] -= 1` *)
Definition registered_ids (s : st) (k : nat) : list nat :=
  filter (fun j => (t_key (get s j) =? k) && registered (get s j)) (seq 0 (length (s_tasks s))).

Definition all_done (s : st) : bool := forallb done (s_tasks s).

(* choices that do something (other than cancelling) in state s *)
Definition enabled (s : st) (c : choice) : bool :=
  match c with
  | CRun i => (i <? length (s_tasks s)) && ready (get s i)
  | COpen i => (i <? length (s_tasks s)) &&
               match t_pc (get s i) with PInCS => is_pending (t_fut (get s i)) | _ => false end
  | CCancel _ => false
  end.

(* ---------- canonical encoding for the correspondence suite (harness/suites/keyedlock.py) ---------- *)
Local Open Scope Z_scope.
Definition enc_pc (p : pc) : Z :=
  match p with
  | PInit => 0 | PWaitMain1 => 1 | PWaitKey => 2 | PInCS => 3
  | PWaitMain2 false => 4 | PWaitMain2 true => 5 | PDone false => 6 | PDone true => 7
  end.
Definition enc_fut (f : fstate) : Z := match f with FPending => 0 | FResult => 1 | FCancelled => 2 end.
Definition suspended (p : pc) : bool :=
  match p with PInit | PDone _ => false | _ => true end.
Definition zb (b : bool) : Z := if b then 1 else 0.
Definition enc_task (t : task) : list Z :=
  [enc_pc (t_pc t); if suspended (t_pc t) then enc_fut (t_fut t) else 0; zb (t_mc t); zb (ready t)].
Definition enc_lock (l : lock) : list Z :=
  zb (l_locked l) :: Z.of_nat (length (l_waiters l)) :: map Z.of_nat (l_waiters l).
Definition enc (s : st) : list Z :=
  flat_map enc_task (s_tasks s) ++ [-1] ++ enc_lock (s_main s) ++ [-1]
  ++ flat_map (fun kl => Z.of_nat (fst kl) :: enc_lock (snd kl)) (s_locks s) ++ [-1]
  ++ flat_map (fun kr => [Z.of_nat (fst kr); snd kr]) (s_refs s) ++ [-1; zb (s_err s)].

Definition dec_choice (z : Z) : choice :=
  let i := Z.to_nat (z / 3) in
  match z mod 3 with 0 => CRun i | 1 => COpen i | _ => CCancel i end.

Fixpoint zlist_eqb (a b : list Z) : bool :=
  match a, b with
  | [], [] => true
  | x :: a', y :: b' => (x =? y) && zlist_eqb a' b'
  | _, _ => false
  end.

(* Intermediate observations travel as a 61-bit polynomial fingerprint (coqc parses literals
   slowly: ~20k small numbers/s); the LAST observation of every case is compared exactly. *)
Fixpoint pack (l : list Z) : Z :=
  match l with
  | [] => 1
  | x :: r => (x + 8) + 256 * pack r
  end.
Definition fp (l : list Z) : Z := pack l mod 2305843009213693951.

(* segments: (choices run since the previous observation, fingerprint of the observation after them);
   result 0 = all observations equal the model's, else 1-based index of the first differing one *)
Fixpoint check_segs (s : st) (segs : list (list Z * Z)) (n : Z) : Z :=
  match segs with
  | [] => 0
  | (cs, o) :: r =>
      let s' := exec s (map dec_choice cs) in
      if fp (enc s') =? o then check_segs s' r (n + 1) else n
  end.
Definition check (keys : list Z) (segs : list (list Z * Z)) (final : list Z) : Z :=
  let s0 := init (map Z.to_nat keys) in
  match check_segs s0 segs 1 with
  | 0 => if zlist_eqb (enc (exec s0 (map dec_choice (flat_map fst segs)))) final then 0 else -1
  | n => n
  end.
(* exhaustive exploration: the state reached by [path] (compared exactly when [here] is given) and
   the fingerprint of the successor under each listed choice *)
Fixpoint check_fans (s : st) (fans : list (Z * Z)) (n : Z) : Z :=
  match fans with
  | [] => 0
  | (c, h) :: r => if fp (enc (step s (dec_choice c))) =? h then check_fans s r (n + 1) else n
  end.
Definition check_fan (keys : list Z) (path : list Z) (here : list Z) (fans : list (Z * Z)) : Z :=
  let s := exec (init (map Z.to_nat keys)) (map dec_choice path) in
  if match here with [] => true | _ => zlist_eqb (enc s) here end
  then check_fans s fans 1 else -1.
Definition final_enc (keys : list Z) (cs : list Z) : list Z :=
  enc (exec (init (map Z.to_nat keys)) (map dec_choice cs)).

(* the same for the reference program over plain asyncio.Lock objects (suite `asynciolock`) *)
Import PlainLock.
Definition penc_pc (p : ppc) : Z :=
  match p with LInit => 0 | LWait => 2 | LHeld => 3 | LDone false => 6 | LDone true => 7 end.
Definition penc_task (t : ptask) : list Z :=
  [penc_pc (p_pc t); match p_pc t with LWait | LHeld => enc_fut (p_fut t) | _ => 0 end;
   zb (p_mc t); zb (pready t)].
Definition penc (s : pst) : list Z :=
  flat_map penc_task (ps_tasks s) ++ [-1] ++ flat_map enc_lock (ps_locks s) ++ [-1; zb (ps_err s)].
Definition pstep (s : pst) (z : Z) : pst :=
  let i := Z.to_nat (z / 3) in
  match z mod 3 with 0 => prun s i | 1 => popen s i | _ => pcancel s i end.
Fixpoint pcheck_segs (s : pst) (segs : list (list Z * Z)) (n : Z) : Z :=
  match segs with
  | [] => 0
  | (cs, o) :: r =>
      let s' := fold_left pstep cs s in
      if fp (penc s') =? o then pcheck_segs s' r (n + 1) else n
  end.
Definition pcheck (keys : list Z) (nlocks : Z) (segs : list (list Z * Z)) (final : list Z) : Z :=
  let s0 := pinit (map Z.to_nat keys) (Z.to_nat nlocks) in
  match pcheck_segs s0 segs 1 with
  | 0 => if zlist_eqb (penc (fold_left pstep (flat_map fst segs) s0)) final then 0 else -1
  | n => n
  end.
