(* M-Serde: executable model of the three event codecs
     - workflows/events.py: DictLikeModel/StopEvent custom_model_dump + DictLikeModel.__init__ field
       routing (model_dump(mode="json") / model_validate), _serialize_exception/_deserialize_exception
     - workflows/context/serializers.py: JsonSerializer.serialize_value / deserialize_value tagging
     - llama_agents/client/protocol/serializable_events.py: EventEnvelopeWithMetadata.from_event /
       load_event (registry by type name, fallback qualified name)
     - workflows/runtime/types/ticks.py + results.py: pydantic models whose event / exception
       positions use the tagging codec / the exception codec (SerializableEvent, …)
   No proofs in this file.

   Strings are interned by the harness: a string is a Z id.  Reserved keys of the codecs are the
   negative constants below; the qualified name "module.Class" of class id c is the string id c
   itself (so `import` is a lookup of the class table), its bare __name__ is c_name.
   JSON text (json.dumps/json.loads) and pydantic's handling of plain JSON-typed fields are the
   identity on JSON values (trusted, exercised by the correspondence suite). *)
From Coq Require Import List ZArith Bool.
Import ListNotations.
Open Scope Z_scope.

Inductive json :=
| JNull | JBool (b : bool) | JNum (z : Z) | JFlt (id : Z) | JStr (s : Z)
| JArr (l : list json) | JObj (kv : list (Z * json)).

Definition k_data := -1.        (* "_data" *)
Definition k_result := -2.      (* "result" *)
Definition k_ispyd := -3.       (* "__is_pydantic" *)
Definition k_value := -4.       (* "value" *)
Definition k_qname := -5.       (* "qualified_name" *)
Definition k_exc_type := -6.    (* "exception_type" *)
Definition k_exc_msg := -7.     (* "exception_message" *)
Definition k_type := -8.        (* "type" *)
Definition k_iscomp := -9.      (* "__is_component" *)

Fixpoint jget {A} (k : Z) (kv : list (Z * A)) : option A :=
  match kv with [] => None | (k', v) :: r => if Z.eqb k k' then Some v else jget k r end.
Definition zin (k : Z) (l : list Z) : bool := existsb (Z.eqb k) l.

(* Python truthiness of a JSON value (data.get("__is_pydantic") and …) *)
Definition truthy (j : json) : bool :=
  match j with
  | JNull => false | JBool b => b | JNum z => negb (Z.eqb z 0) | JFlt _ => true
  | JStr s => negb (Z.eqb s 0)            (* string id 0 is the empty string *)
  | JArr l => match l with [] => false | _ => true end
  | JObj kv => match kv with [] => false | _ => true end
  end.

(* what sits at a typed position of a pydantic model *)
Inductive kind :=
| KJson                      (* any plain JSON-typed field, nested plain models included *)
| KExn | KOptExn             (* SerializableException / SerializableOptionalException *)
| KEvent | KOptEvent         (* SerializableEvent / SerializableOptionalEvent *)
| KArr (k : kind)            (* list[...] *)
| KObj (fs : list (Z * kind))                    (* a non-event pydantic model *)
| KUnion (alts : list (Z * list (Z * kind))).    (* Discriminator("type") *)

(* values: an event is TE; ticks and step results are TObj trees with TE / TX leaves *)
Inductive tval :=
| TJ (j : json)
| TX (c m : Z)                                   (* exception: class id, message id *)
| TE (c : Z) (typed : list (Z * tval)) (dyn : list (Z * json)) (res : json)
| TArr (l : list tval)
| TObj (kv : list (Z * tval)).

Record cinfo := { c_stop : bool; c_name : Z; c_fields : list (Z * kind) }.

(* behaviour of an exception class under `cls(message)` and under `cls.__new__(cls); .args = (message,)` *)
Inductive ctor_result := CtorOk (m' : Z) | CtorLookupError | CtorOtherError.
Record xinfo := {
  x_importable : bool;                (* module-level Exception subclass *)
  x_ctor : Z -> ctor_result;          (* str(cls(m)), or how the call fails *)
  x_new : Z -> option Z               (* str of the __new__-built instance, None if that raises *)
}.
Definition exc_base := 1.             (* builtins.Exception; string id 0 is "" *)

Section Codecs.
Variable ct : Z -> option cinfo.      (* importable event classes, by qualified-name id *)
Variable xt : Z -> xinfo.

(* ---------- exceptions ---------- *)
Definition enc_exn (c m : Z) : json := JObj [(k_exc_type, JStr c); (k_exc_msg, JStr m)].
(* _deserialize_exception as repaired by the fix: commit *)
Definition dec_exn (j : json) : option tval :=
  match j with
  | JObj kv =>
    match jget k_exc_type kv, jget k_exc_msg kv with
    | Some (JStr c), Some (JStr m) =>
      if x_importable (xt c) then
        match x_ctor (xt c) m with
        | CtorOk m' => Some (TX c m')
        | CtorLookupError => Some (TX exc_base m)
        | CtorOtherError =>
          match x_new (xt c) m with
          | Some m2 => if Z.eqb m2 m then Some (TX c m) else Some (TX exc_base m)
          | None => Some (TX exc_base m)
          end
        end
      else Some (TX exc_base m)
    | _, _ => None
    end
  | _ => None
  end.
(* the same function before the fix: a constructor that rejects the message escapes as TypeError *)
Definition dec_exn_unfixed (j : json) : option tval :=
  match j with
  | JObj kv =>
    match jget k_exc_type kv, jget k_exc_msg kv with
    | Some (JStr c), Some (JStr m) =>
      if x_importable (xt c) then
        match x_ctor (xt c) m with
        | CtorOk m' => Some (TX c m')
        | CtorLookupError => Some (TX exc_base m)
        | CtorOtherError => None
        end
      else Some (TX exc_base m)
    | _, _ => None
    end
  | _ => None
  end.

(* ---------- model_dump(mode="json") ---------- *)
Definition tag (c : Z) (v : json) : json :=
  JObj [(k_ispyd, JBool true); (k_value, v); (k_qname, JStr c)].

(* `fixed` = true: StopEvent.custom_model_dump includes _data (after the fix: commit);
   false: the unchanged code, where it shadowed DictLikeModel.custom_model_dump *)
Definition data_entry (fixed : bool) (c : Z) (dyn : list (Z * json)) : list (Z * json) :=
  match dyn with
  | [] => []
  | _ => if fixed || negb (match ct c with Some i => c_stop i | None => false end)
         then [(k_data, JObj dyn)] else []
  end.
Definition result_entry (res : json) : list (Z * json) :=
  match res with JNull => [] | _ => [(k_result, res)] end.
Section Dump.
Variable fixed : bool.
Fixpoint dump (v : tval) : json :=
  match v with
  | TJ j => j
  | TX c m => enc_exn c m
  | TE c typed dyn res =>
    tag c (JObj (map (fun kx => (fst kx, dump (snd kx))) typed ++ data_entry fixed c dyn ++ result_entry res))
  | TArr l => JArr (map dump l)
  | TObj kv => JObj (map (fun kx => (fst kx, dump (snd kx))) kv)
  end.
End Dump.

(* the body of an event without the tag = event.model_dump(mode="json") *)
Definition untag_value (j : json) : json :=
  match j with JObj kv => match jget k_value kv with Some v => v | None => JNull end | _ => JNull end.

(* ---------- model_validate ---------- *)
Definition opt_bind {A B} (o : option A) (f : A -> option B) : option B :=
  match o with Some a => f a | None => None end.

(* dict.update: existing key keeps its position, new keys are appended *)
Fixpoint dict_set (k : Z) (v : json) (d : list (Z * json)) : list (Z * json) :=
  match d with
  | [] => [(k, v)]
  | (k', v') :: r => if Z.eqb k k' then (k, v) :: r else (k', v') :: dict_set k v r
  end.

(* DictLikeModel.__init__ routing of the keys of the validated dict: declared fields, the private
   attributes (_data; for stop classes the `result` parameter), everything else -> dynamic *)
Definition extras (fields : list Z) (stop : bool) (kv : list (Z * json)) : list (Z * json) :=
  filter (fun e => negb (zin (fst e) fields) && negb (Z.eqb (fst e) k_data)
                   && negb (stop && Z.eqb (fst e) k_result)) kv.

(* helpers parameterised by the recursive decoder (so that lemmas can be stated about them) *)
Section DecHelpers.
Variable dec : json -> kind -> option tval.
Fixpoint dec_fields (kv : list (Z * json)) (fs : list (Z * kind)) : option (list (Z * tval)) :=
  match kv with
  | [] => Some []
  | (key, v) :: r =>
    match jget key fs with
    | Some kk => opt_bind (dec v kk)
                   (fun tv => opt_bind (dec_fields r fs) (fun rest => Some ((key, tv) :: rest)))
    | None => dec_fields r fs
    end
  end.
Fixpoint dec_list (l : list json) (kk : kind) : option (list tval) :=
  match l with
  | [] => Some []
  | x :: r => opt_bind (dec x kk) (fun tv => opt_bind (dec_list r kk) (fun rest => Some (tv :: rest)))
  end.
End DecHelpers.
(* data["value"]: first entry with that key (continuation outside the fix, for the guard checker) *)
Section WithValue.
Context {B : Type}.
Variable f : json -> option B.
Fixpoint with_value (kv : list (Z * json)) : option B :=
  match kv with
  | [] => None
  | (key, v) :: r => if Z.eqb key k_value then f v else with_value r
  end.
End WithValue.


(* cls.model_validate(body) for an event class: DictLikeModel.__init__ / StopEvent.__init__ *)
Definition build_event (c : Z) (ci : cinfo) (kvb : list (Z * json)) (ty : list (Z * tval)) : option tval :=
  if forallb (fun f => zin (fst f) (map fst kvb)) (c_fields ci) then
    match (match jget k_data kvb with Some (JObj d) => Some d | Some _ => None | None => Some [] end) with
    | Some d =>
      Some (TE c ty
              (fold_left (fun acc e => dict_set (fst e) (snd e) acc)
                         (extras (map fst (c_fields ci)) (c_stop ci) kvb) d)
              (if c_stop ci then match jget k_result kvb with Some r => r | None => JNull end else JNull))
    | None => None
    end
  else None.

Fixpoint decode (j : json) (k : kind) {struct j} : option tval :=
  match k with
  | KJson => Some (TJ j)
  | KExn => dec_exn j
  | KOptExn => match j with JNull => Some (TJ JNull) | _ => dec_exn j end
  | KEvent | KOptEvent =>
    match j with
    | JNull => match k with KOptEvent => Some (TJ JNull) | _ => None end
    | JObj kv =>
      (* deserialize_value: dict with truthy __is_pydantic and qualified_name -> import, model_validate(value) *)
      match jget k_ispyd kv, jget k_qname kv with
      | Some p, Some (JStr c) =>
        if truthy p && negb (Z.eqb c 0) then
          match ct c with
          | Some ci =>
            with_value (fun v =>
              match v with
              | JObj kvb => opt_bind (dec_fields decode kvb (c_fields ci)) (build_event c ci kvb)
              | _ => None
              end) kv
          | None => None
          end
        else None
      | _, _ => None
      end
    | _ => None
    end
  | KArr kk =>
    match j with
    | JArr l => opt_bind (dec_list decode l kk) (fun l' => Some (TArr l'))
    | _ => None
    end
  | KObj fs =>
    match j with
    | JObj kv => opt_bind (dec_fields decode kv fs) (fun l => Some (TObj l))
    | _ => None
    end
  | KUnion alts =>
    match j with
    | JObj kv =>
      match jget k_type kv with
      | Some (JStr t) =>
        match jget t alts with
        | Some fs => opt_bind (dec_fields decode kv fs) (fun l => Some (TObj l))
        | None => None
        end
      | _ => None
      end
    | _ => None
    end
  end.

(* ---------- codec 1: JsonSerializer ---------- *)
Definition json_encode (fixed : bool) (e : tval) : json := dump fixed e.
Definition json_decode (j : json) : option tval := decode j KEvent.

(* ---------- codec 2: client envelope ---------- *)
(* from_event: value = event.model_dump(mode="json"), qualified_name, type = __name__
   (the `types` list is metadata only and is not read by load_event) *)
Definition env_encode (fixed : bool) (e : tval) : json :=
  match e with
  | TE c _ _ _ =>
    JObj [(k_value, untag_value (dump fixed e)); (k_qname, JStr c);
          (k_type, JStr (match ct c with Some i => c_name i | None => 0 end))]
  | _ => JNull
  end.
(* load_event(registry): type name found in the registry -> that class, else the qualified name *)
Definition reg_lookup (registry : list Z) (name : Z) : option Z :=
  (* {e.__name__: e for e in registry}: the last class with that name wins *)
  fold_left (fun acc c => match ct c with
                          | Some i => if Z.eqb (c_name i) name then Some c else acc
                          | None => acc end) registry None.
Definition env_decode (registry : list Z) (j : json) : option tval :=
  match j with
  | JObj kv =>
    match jget k_value kv with
    | Some v =>
      let by_q := match jget k_qname kv with
                  | Some (JStr q) => if Z.eqb q 0 then None else decode (tag q v) KEvent
                  | _ => None end in
      match jget k_type kv with
      | Some (JStr t) =>
        if Z.eqb t 0 then by_q else
        match reg_lookup registry t with
        | Some c => decode (tag c v) KEvent
        | None => by_q
        end
      | _ => by_q
      end
    | None => None
    end
  | _ => None
  end.

(* ---------- codec 3: persisted ticks (WorkflowTickAdapter) ---------- *)
Definition tick_encode (fixed : bool) (t : tval) : json := dump fixed t.
Definition tick_decode (shape : kind) (j : json) : option tval := decode j shape.
End Codecs.

(* boolean check that a value lies in the domain of the round-trip theorems (Proofs/SerdeProofs.v:
   confb_sound); used for concrete examples and by the suite to recognise in-domain cases *)
Section Checker.
Variable ct : Z -> option cinfo.
Variable xt : Z -> xinfo.
Definition faithfulb (c m : Z) : bool :=
  x_importable (xt c) &&
  match x_ctor (xt c) m with
  | CtorOk m' => Z.eqb m' m
  | CtorOtherError => match x_new (xt c) m with Some m2 => Z.eqb m2 m | None => false end
  | CtorLookupError => false
  end.
Definition is_null (j : json) : bool := match j with JNull => true | _ => false end.

Fixpoint confb (v : tval) (k : kind) {struct v} : bool :=
  match v with
  | TJ j => match k with KJson => true | KOptExn | KOptEvent => is_null j | _ => false end
  | TX c m => match k with KExn | KOptExn => faithfulb c m | _ => false end
  | TE c ty dy r =>
    match k with
    | KEvent | KOptEvent =>
      negb (Z.eqb c 0) &&
      match ct c with
      | Some ci =>
        (c_stop ci || is_null r) && negb (zin k_data (map fst ty))
        && (negb (c_stop ci) || negb (zin k_result (map fst ty)))
        && forallb (fun n => zin n (map fst ty)) (map fst (c_fields ci))
        && (fix all (l : list (Z * tval)) : bool :=
              match l with
              | [] => true
              | (n, x) :: rest =>
                match jget n (c_fields ci) with Some kk => confb x kk | None => false end && all rest
              end) ty
      | None => false
      end
    | _ => false
    end
  | TArr l =>
    match k with
    | KArr kk => (fix all (l : list tval) : bool :=
                    match l with [] => true | x :: rest => confb x kk && all rest end) l
    | _ => false
    end
  | TObj kv =>
    match k with
    | KObj fs =>
      (fix all (l : list (Z * tval)) : bool :=
         match l with
         | [] => true
         | (n, x) :: rest => match jget n fs with Some kk => confb x kk | None => false end && all rest
         end) kv
    | KUnion alts =>
      match jget k_type kv with
      | Some (TJ (JStr t)) =>
        match jget t alts with
        | Some fs =>
          (fix all (l : list (Z * tval)) : bool :=
             match l with
             | [] => true
             | (n, x) :: rest => match jget n fs with Some kk => confb x kk | None => false end && all rest
             end) kv
        | None => false
        end
      | _ => false
      end
    | _ => false
    end
  end.

End Checker.

(* the shapes of ticks.py / results.py: field name ids are interned by the harness in this order *)
Section TickShapes.
Variables (f_step_name f_worker_id f_event f_result f_attempts f_first_attempt_at f_last_exception
           f_last_failed_at f_recovery_counts f_timeout f_waiter_id f_exception f_failed_at f_event_id
           f_waiter_event f_requirements f_event_type f_has_requirements : Z).
Variables (t_step_result t_add_event t_cancel_run t_idle_release t_publish_event t_timeout
           t_waiter_timeout t_idle_check t_result t_failed t_delete_waiter t_delete_collected
           t_add_collected t_add_waiter : Z).
Definition step_result_shapes : kind :=
  KUnion [
    (t_result, [(k_type, KJson); (f_result, KOptEvent)]);
    (t_failed, [(k_type, KJson); (f_exception, KExn); (f_failed_at, KJson)]);
    (t_add_collected, [(k_type, KJson); (f_event_id, KJson); (f_event, KEvent)]);
    (t_delete_collected, [(k_type, KJson); (f_event_id, KJson)]);
    (t_add_waiter, [(k_type, KJson); (f_waiter_id, KJson); (f_waiter_event, KOptEvent);
                    (f_requirements, KJson); (f_timeout, KJson); (f_event_type, KJson);
                    (f_has_requirements, KJson)]);
    (t_delete_waiter, [(k_type, KJson); (f_waiter_id, KJson)])].
Definition tick_shapes : kind :=
  KUnion [
    (t_step_result, [(k_type, KJson); (f_step_name, KJson); (f_worker_id, KJson); (f_event, KEvent);
                     (f_result, KArr step_result_shapes)]);
    (t_add_event, [(k_type, KJson); (f_event, KEvent); (f_step_name, KJson); (f_attempts, KJson);
                   (f_first_attempt_at, KJson); (f_last_exception, KOptExn); (f_last_failed_at, KJson);
                   (f_recovery_counts, KJson)]);
    (t_cancel_run, [(k_type, KJson)]);
    (t_publish_event, [(k_type, KJson); (f_event, KEvent)]);
    (t_timeout, [(k_type, KJson); (f_timeout, KJson)]);
    (t_waiter_timeout, [(k_type, KJson); (f_step_name, KJson); (f_waiter_id, KJson)]);
    (t_idle_check, [(k_type, KJson)]);
    (t_idle_release, [(k_type, KJson)])].
End TickShapes.
