(* M-Runner: executable model of _ControlLoopRunner.run (control_loop.py) as "drain the tick buffer; wait for one
   task" iterations on top of the reducer model.  No proofs here.
   Environment actions: a started worker finishes (with the events its body sent and its result list),
   an external tick is delivered to the run's mailbox, time advances.  Fuel bounds the number of loop
   iterations / ticks per action; exhaustion is reported as OOutOfFuel, never as a normal outcome. *)
From Coq Require Import List ZArith Bool PeanoNat.
Import ListNotations.
From WF Require Import Model.Engine.
Open Scope Z_scope.

Inductive outcome_t := ORunning | OResult (e : event) | OFailed (x : exn) | OCancelled | OTimedOut | OIdleReleased | OCrashed (c : Z) | OOutOfFuel.

Record rstate := {
  st : state ;
  tbuf : list tick ;
  wakeups : list (Z * Z * tick) ;     (* (time, seq, tick), kept sorted by (time, seq) *)
  wseq : Z ;
  idle_pending : bool ;
  mailbox : list tick ;
  pending : list (Z * nat * event) ;  (* CommandRunWorker not yet started *)
  runningw : list (Z * nat * event) ; (* started worker tasks *)
  donew : list (Z * nat * event * list result) ; (* finished, not yet harvested *)
  published : list pub ;
  ticklog : list tick ;
  outcome : outcome_t ;
  clock : Z ;
  tlog : list (tick * Z) ;     (* ghost: every processed tick with the clock reading passed to the reducer *)
  idlelog : list (bool * nat) ; (* ghost: at each WorkflowIdleEvent publication: (a delayed retry is scheduled, #ticks delivered to the mailbox and not yet pulled) *)
  envlog : list tick ;          (* ghost: every tick the environment put into the mailbox (worker send_event calls, external deliveries) *)
  firelog : list (Z * tick * Z) (* ghost: every wake-up that fired: (the time it was scheduled for, its tick, the clock reading when it was moved to the tick buffer) *)
}.

Fixpoint insert_wakeup (w : Z * Z * tick) (l : list (Z * Z * tick)) :=
  match l with
  | [] => [w]
  | h :: t =>
    let '(tw, sw, _) := w in let '(th, sh, _) := h in
    if Z.ltb tw th || (Z.eqb tw th && Z.ltb sw sh) then w :: l else h :: insert_wakeup w t
  end.

Definition upd (r : rstate) st' tbuf' wk' wseq' ip' pend' pubs' out' : rstate :=
  {| st := st' ; tbuf := tbuf' ; wakeups := wk' ; wseq := wseq' ; idle_pending := ip' ;
     mailbox := mailbox r ; pending := pend' ; runningw := runningw r ; donew := donew r ;
     published := pubs' ; ticklog := ticklog r ; outcome := out' ; clock := clock r ; tlog := tlog r ; idlelog := idlelog r ; envlog := envlog r ; firelog := firelog r |}.

(* process_command *)
Definition do_command (r : rstate) (c : command) : rstate :=
  match outcome r with
  | ORunning =>
    match c with
    | CQueue a target delay =>
      let t := TAdd a target in
      match delay with
      | Some d => if Z.ltb 0 d
                  then upd r (st r) (tbuf r) (insert_wakeup (clock r + d, wseq r, t) (wakeups r)) (wseq r + 1) (idle_pending r) (pending r) (published r) ORunning
                  else upd r (st r) (tbuf r ++ [t]) (wakeups r) (wseq r) (idle_pending r) (pending r) (published r) ORunning
      | None => upd r (st r) (tbuf r ++ [t]) (wakeups r) (wseq r) (idle_pending r) (pending r) (published r) ORunning
      end
    | CRunWorker s e w => upd r (st r) (tbuf r) (wakeups r) (wseq r) (idle_pending r) (pending r ++ [(s, w, e)]) (published r) ORunning
    | CPublish p => upd r (st r) (tbuf r) (wakeups r) (wseq r) (idle_pending r) (pending r) (published r ++ [p]) ORunning
    | CSchedIdle => if idle_pending r then r
                    else upd r (st r) (tbuf r ++ [TIdleCheck]) (wakeups r) (wseq r) true (pending r) (published r) ORunning
    | CSchedWaiterTimeout s w t =>
        upd r (st r) (tbuf r) (insert_wakeup (clock r + t, wseq r, TWaiterTimeout s w) (wakeups r)) (wseq r + 1) (idle_pending r) (pending r) (published r) ORunning
    | CComplete e => upd r (st r) (tbuf r) (wakeups r) (wseq r) (idle_pending r) [] (published r) (OResult e)
    | CCompleteIdleRelease => upd r (st r) (tbuf r) (wakeups r) (wseq r) (idle_pending r) [] (published r) OIdleReleased
    | CFail _ x => upd r (st r) (tbuf r) (wakeups r) (wseq r) (idle_pending r) [] (published r) (OFailed x)
    | CHalt HCancelled => upd r (st r) (tbuf r) (wakeups r) (wseq r) (idle_pending r) [] (published r) OCancelled
    | CHalt (HTimeout _ _) => upd r (st r) (tbuf r) (wakeups r) (wseq r) (idle_pending r) [] (published r) OTimedOut
    end
  | _ => r (* after an exit command the remaining commands are not executed *)
  end.

Definition log_tick (r : rstate) (t : tick) : rstate :=
  {| st := st r ; tbuf := tbuf r ; wakeups := wakeups r ; wseq := wseq r ; idle_pending := idle_pending r ;
     mailbox := mailbox r ; pending := pending r ; runningw := runningw r ; donew := donew r ;
     published := published r ; ticklog := ticklog r ++ [t] ; outcome := outcome r ; clock := clock r ;
     tlog := tlog r ++ [(t, clock r)] ; idlelog := idlelog r ; envlog := envlog r ; firelog := firelog r |}.

Definition publishes_idle (cs : list command) : bool :=
  existsb (fun c => match c with CPublish PIdle => true | _ => false end) cs.
Definition has_retry_wakeup (l : list (Z * Z * tick)) : bool :=
  existsb (fun w => match w with (_, _, TAdd _ _) => true | _ => false end) l.

Definition log_idle (r : rstate) (cs : list command) : rstate :=
  if publishes_idle cs then
    {| st := st r ; tbuf := tbuf r ; wakeups := wakeups r ; wseq := wseq r ; idle_pending := idle_pending r ;
       mailbox := mailbox r ; pending := pending r ; runningw := runningw r ; donew := donew r ;
       published := published r ; ticklog := ticklog r ; outcome := outcome r ; clock := clock r ;
       tlog := tlog r ;
       idlelog := idlelog r ++ [(has_retry_wakeup (wakeups r), length (mailbox r))] ; envlog := envlog r ; firelog := firelog r |}
  else r.

(* drain the tick buffer (fuel bounds the number of ticks processed) *)
Fixpoint drain_ticks (P : policy) (r : rstate) (fuel : nat) : rstate :=
  match fuel with
  | O => match outcome r, tbuf r with
         | ORunning, _ :: _ => upd r (st r) (tbuf r) (wakeups r) (wseq r) (idle_pending r) (pending r) (published r) OOutOfFuel
         | _, _ => r end
  | S f =>
    match outcome r, tbuf r with
    | ORunning, t :: rest =>
      let r0 := upd r (st r) rest (wakeups r) (wseq r)
                    (match t with TIdleCheck => false | _ => idle_pending r end)
                    (pending r) (published r) ORunning in
      if (match t with TIdleCheck => true | _ => false end) && has_retry_wakeup (wakeups r)
      then drain_ticks P r0 f   (* a retry waiting out its delay is pending step work: the idle check is dropped *)
      else
      match reduce P t (st r0) (clock r0) with
      | Err c => upd r0 (st r0) (tbuf r0) (wakeups r0) (wseq r0) (idle_pending r0) [] (published r0) (OCrashed c)
      | Ok (s', cs) =>
        let r1 := log_idle (log_tick (upd r0 s' (tbuf r0) (wakeups r0) (wseq r0) (idle_pending r0) (pending r0) (published r0) ORunning) t) cs in
        drain_ticks P (fold_left do_command cs r1) f
      end
    | _, _ => r
    end
  end.

(* the "wait" half of an iteration: start pending workers, then harvest one completion *)
Definition set_wait (r : rstate) tbuf' wk' mb' run' done' : rstate :=
  {| st := st r ; tbuf := tbuf' ; wakeups := wk' ; wseq := wseq r ; idle_pending := idle_pending r ;
     mailbox := mb' ; pending := [] ; runningw := run' ; donew := done' ;
     published := published r ; ticklog := ticklog r ; outcome := outcome r ; clock := clock r ; tlog := tlog r ; idlelog := idlelog r ; envlog := envlog r ; firelog := firelog r |}.

Definition log_fire (r : rstate) (fired : list (Z * Z * tick)) : rstate :=
  {| st := st r ; tbuf := tbuf r ; wakeups := wakeups r ; wseq := wseq r ; idle_pending := idle_pending r ;
     mailbox := mailbox r ; pending := pending r ; runningw := runningw r ; donew := donew r ;
     published := published r ; ticklog := ticklog r ; outcome := outcome r ; clock := clock r ; tlog := tlog r ;
     idlelog := idlelog r ; envlog := envlog r ;
     firelog := firelog r ++ map (fun w : Z * Z * tick => (fst (fst w), snd w, clock r)) fired |}.

Fixpoint due (now : Z) (l : list (Z * Z * tick)) : list tick * list (Z * Z * tick) :=
  match l with
  | [] => ([], [])
  | ((t, s, k) as h) :: rest =>
    if Z.leb t now then let '(d, r) := due now rest in (k :: d, r) else ([], l)
  end.

Definition has_stop (c : config) (rs : list result) : bool :=
  existsb (fun r => match r with RResult (OEvent e) => zmem (ety e) (c_stop c) | _ => false end) rs.

(* returns None when the loop would block (needs an environment action) *)
Definition wait_step (r : rstate) (choice : nat) : option rstate :=
  let run' := runningw r ++ pending r in
  match nth_error (donew r) choice with
  | Some (s, w, e, rs) =>
    let done' := firstn choice (donew r) ++ skipn (S choice) (donew r) in
    (* a StopEvent result cancels all other workers immediately (cleanup_tasks) *)
    let '(run'', done'') := if has_stop (cfg (st r)) rs then ([], []) else (run', done') in
    Some (set_wait r (tbuf r ++ [TStep s w e rs]) (wakeups r) (mailbox r) run'' done'')
  | None =>
    match donew r with
    | _ :: _ => None (* bad choice index *)
    | [] =>
      match mailbox r with
      | t :: mb => Some (set_wait r (tbuf r ++ [t]) (wakeups r) mb run' [])
      | [] =>
        let '(d, rest) := due (clock r) (wakeups r) in
        match d with
        | [] => if match pending r with [] => true | _ => false end then None
                else Some (set_wait r (tbuf r) (wakeups r) [] run' [])  (* only started workers *)
        | _ => Some (log_fire (set_wait r (tbuf r ++ d) rest [] run' []) (firstn (length d) (wakeups r)))
        end
      end
    end
  end.

Definition tick_fuel : nat := 2000.
Definition loop_fuel : nat := 400.
Fixpoint run_until_blocked (P : policy) (r : rstate) (fuel : nat) : rstate :=
  match fuel with
  | O => match outcome r with
         | ORunning => upd r (st r) (tbuf r) (wakeups r) (wseq r) (idle_pending r) (pending r) (published r) OOutOfFuel
         | _ => r end
  | S f =>
    let r1 := drain_ticks P r tick_fuel in
    match outcome r1 with
    | ORunning => match wait_step r1 0 with Some r2 => run_until_blocked P r2 f | None => r1 end
    | _ => r1
    end
  end.

(* environment actions *)
Inductive action :=
| AWorkerDone (step : Z) (wid : nat) (sends : list tick) (rs : list result)
| ADeliver (t : tick)
| AAdvance (dt : Z).

Fixpoint take_worker (s : Z) (w : nat) (l : list (Z * nat * event)) : option (event * list (Z * nat * event)) :=
  match l with
  | [] => None
  | (s', w', e) :: t =>
    if Z.eqb s s' && Nat.eqb w w' then Some (e, t)
    else match take_worker s w t with Some (e', t') => Some (e', (s', w', e) :: t') | None => None end
  end.

Definition act (P : policy) (r : rstate) (a : action) : rstate :=
  match outcome r with
  | ORunning =>
    let r' :=
      match a with
      | AWorkerDone s w sends rs =>
        match take_worker s w (runningw r) with
        | Some (e, run') =>
          {| st := st r ; tbuf := tbuf r ; wakeups := wakeups r ; wseq := wseq r ; idle_pending := idle_pending r ;
             mailbox := mailbox r ++ sends ; pending := pending r ; runningw := run' ;
             donew := donew r ++ [(s, w, e, rs)] ; published := published r ; ticklog := ticklog r ;
             outcome := outcome r ; clock := clock r ; tlog := tlog r ; idlelog := idlelog r ; envlog := envlog r ++ sends ; firelog := firelog r |}
        | None => r
        end
      | ADeliver t =>
          {| st := st r ; tbuf := tbuf r ; wakeups := wakeups r ; wseq := wseq r ; idle_pending := idle_pending r ;
             mailbox := mailbox r ++ [t] ; pending := pending r ; runningw := runningw r ; donew := donew r ;
             published := published r ; ticklog := ticklog r ; outcome := outcome r ; clock := clock r ; tlog := tlog r ; idlelog := idlelog r ; envlog := envlog r ++ [t] ; firelog := firelog r |}
      | AAdvance dt =>
          {| st := st r ; tbuf := tbuf r ; wakeups := wakeups r ; wseq := wseq r ; idle_pending := idle_pending r ;
             mailbox := mailbox r ; pending := pending r ; runningw := runningw r ; donew := donew r ;
             published := published r ; ticklog := ticklog r ; outcome := outcome r ; clock := clock r + dt ; tlog := tlog r ; idlelog := idlelog r ; envlog := envlog r ; firelog := firelog r |}
      end in
    run_until_blocked P r' loop_fuel
  | _ => r
  end.

Definition start (s : state) (e : event) (now : Z) : rstate :=
  {| st := s ; tbuf := [TAdd (blank e) None] ; wakeups := [] ; wseq := 0 ; idle_pending := false ;
     mailbox := [] ; pending := [] ; runningw := [] ; donew := [] ; published := [] ; ticklog := [] ;
     outcome := ORunning ; clock := now ; tlog := [] ; idlelog := [] ; envlog := [] ; firelog := [] |}.
Definition run_at (P : policy) (s : state) (e : event) (now : Z) (acts : list action) : rstate :=
  fold_left (act P) acts (run_until_blocked P (start s e now) loop_fuel).
Definition run (P : policy) (s : state) (e : event) (acts : list action) : rstate := run_at P s e 100 acts.
