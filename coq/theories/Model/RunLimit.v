(* Model/RunLimit.v — C30: BasicRuntime.run_workflow + _maybe_acquire_max_concurrent_runs
   (packages/llama-index-workflows/src/workflows/plugins/basic.py) and asyncio.Semaphore
   (CPython 3.12 Lib/asyncio/locks.py — the trusted primitive, transcribed and differentially
   tested against the real class by harness/suites/runlimit.py).

   No proofs in this file.

     run_workflow(run_id, workflow, ...):
         task = asyncio.create_task(run_with_concurrency_limit())           -- AStart r w
     run_with_concurrency_limit():
         async with self._maybe_acquire_max_concurrent_runs(workflow, run_id):
             return await registered.workflow_run_fn(...)                   -- steps run in here
     _maybe_acquire_max_concurrent_runs:
         if workflow._num_concurrent_runs is None: yield                     -- limit w = None
         else: sem = self._max_concurrent_runs[id(workflow)]  (WeakValueDictionary; created on miss
                     as asyncio.Semaphore(workflow._num_concurrent_runs))
               async with sem: yield

   A run's task is a small state machine; [ARun r] is "the event loop runs the next atomic segment
   of r's task" (from task start to the first await, or from the resumption of `await fut` inside
   Semaphore.acquire to the next await).  [AEnter]/[AExit] are step executions of the run's control
   loop (only possible inside the `async with`), [AFinish] is the control loop returning (result,
   failure, timeout or cancellation — cleanup_tasks has awaited every cancelled step worker before
   that) followed by Semaphore.release, [ACancel] is Task.cancel() on the run's task (adapter.abort).
   [AGc w]: the weak dictionary forgets w's semaphore; the collector may do that at any moment at
   which no coroutine frame refers to the object (immediately under reference counting, later when a
   traceback keeps a finished frame alive) — so it is a scheduler choice. *)
From Coq Require Import List ZArith Bool.
Import ListNotations.
From WF Require Import Base.SchedRes.
Open Scope Z_scope.

(* an asyncio.Future used as a semaphore waiter *)
Inductive futst := FPending | FWoken | FCancelled.

Definition fut_is_pending (f : futst) : bool := match f with FPending => true | _ => false end.
Definition fut_is_woken (f : futst) : bool := match f with FWoken => true | _ => false end.
Definition fut_is_cancelled (f : futst) : bool := match f with FCancelled => true | _ => false end.

(* asyncio.Semaphore: _value and the _waiters deque (owner run id, future state) *)
Record sem := mkSem { s_value : Z; s_waiters : list (Z * futst) }.

Definition fresh_sem (n : Z) : sem := mkSem n [].

(* locked(): self._value == 0 or any(not w.cancelled() for w in self._waiters) *)
Definition sem_locked (s : sem) : bool :=
  (s_value s =? 0) || existsb (fun w => negb (fut_is_cancelled (snd w))) (s_waiters s).

(* _wake_up_next(): first waiter that is not done gets the permit (value -= 1; set_result) *)
Fixpoint wake_first (ws : list (Z * futst)) : option (list (Z * futst)) :=
  match ws with
  | [] => None
  | (r, FPending) :: t => Some ((r, FWoken) :: t)
  | x :: t => match wake_first t with Some t' => Some (x :: t') | None => None end
  end.

Definition wake_up_next (s : sem) : sem :=
  match wake_first (s_waiters s) with
  | Some ws' => mkSem (s_value s - 1) ws'
  | None => s
  end.

(* self._waiters.remove(fut) *)
Fixpoint w_remove (r : Z) (ws : list (Z * futst)) : list (Z * futst) :=
  match ws with
  | [] => []
  | (r', f) :: t => if r' =? r then t else (r', f) :: w_remove r t
  end.

(* fut.cancel() on the (pending) future of r *)
Fixpoint w_cancel (r : Z) (ws : list (Z * futst)) : list (Z * futst) :=
  match ws with
  | [] => []
  | (r', f) :: t => if r' =? r then (r', FCancelled) :: t else (r', f) :: w_cancel r t
  end.

(* acquire(), first segment: fast path, or append a future and suspend *)
Definition sem_acquire (r : Z) (s : sem) : sem * bool :=
  if sem_locked s then (mkSem (s_value s) (s_waiters s ++ [(r, FPending)]), false)
  else (mkSem (s_value s - 1) (s_waiters s), true).

(* acquire(), resumption after `await fut` returned normally:
   finally: self._waiters.remove(fut);  if self._value > 0: self._wake_up_next() *)
Definition sem_resume_ok (r : Z) (s : sem) : sem :=
  let s1 := mkSem (s_value s) (w_remove r (s_waiters s)) in
  if 0 <? s_value s1 then wake_up_next s1 else s1.

(* acquire(), resumption with CancelledError although the future already has its result:
   finally: remove;  except CancelledError: if not fut.cancelled(): value += 1; _wake_up_next() *)
Definition sem_resume_cancel_woken (r : Z) (s : sem) : sem :=
  wake_up_next (mkSem (s_value s + 1) (w_remove r (s_waiters s))).

(* acquire(), resumption because the future was cancelled: finally: remove; raise *)
Definition sem_resume_cancelled (r : Z) (s : sem) : sem :=
  mkSem (s_value s) (w_remove r (s_waiters s)).

(* release(): value += 1; _wake_up_next() *)
Definition sem_release (s : sem) : sem := wake_up_next (mkSem (s_value s + 1) (s_waiters s)).

(* ---- runs ------------------------------------------------------------------------------ *)

Inductive pc :=
| PCreated                  (* task created by run_workflow, not started yet *)
| PWaiting                  (* suspended in `await fut` inside Semaphore.acquire *)
| PHolding (active : nat)   (* inside the `async with`: the control loop runs; [active] steps executing *)
| PDone.

Record run := mkRun { r_wf : Z; r_pc : pc; r_mc : bool (* Task._must_cancel *) }.

Record st := mkSt {
  sems : list (Z * sem);    (* BasicRuntime._max_concurrent_runs : id(workflow) -> Semaphore (weak values) *)
  runs : list (Z * run)     (* run id -> task *)
}.

Definition init : st := mkSt [] [].

Inductive act :=
| AStart (r w : Z) | ARun (r : Z) | AEnter (r : Z) | AExit (r : Z) | AFinish (r : Z) | ACancel (r : Z)
| AGc (w : Z)      (* the WeakValueDictionary drops w's semaphore — possible whenever no frame refers to it *)
| ANop.

Definition pc_holding (p : pc) : bool := match p with PHolding _ => true | _ => false end.
Definition pc_waiting (p : pc) : bool := match p with PWaiting => true | _ => false end.
Definition pc_executing (p : pc) : bool := match p with PHolding (S _) => true | _ => false end.

(* a coroutine frame of a run of w holds a strong reference to w's semaphore: between the dict
   lookup and the end of `async with sem` *)
Definition run_refs (w : Z) (ru : run) : bool :=
  (r_wf ru =? w) && (pc_waiting (r_pc ru) || pc_holding (r_pc ru)).

Definition refs (w : Z) (rs : list (Z * run)) : bool := existsb (fun kv => run_refs w (snd kv)) rs.

(* write back run r and w's semaphore *)
Definition commit (w : Z) (sm : sem) (r : Z) (ru : run) (s : st) : st :=
  mkSt (aset w sm (sems s)) (aupd r ru (runs s)).

Definition set_run (r : Z) (ru : run) (s : st) : st := mkSt (sems s) (aupd r ru (runs s)).

Definition w_find (r : Z) (ws : list (Z * futst)) : option futst := alookup r ws.

Section Step.
  (* workflow._num_concurrent_runs per workflow instance; None = unlimited *)
  Variable limit : Z -> option Z.

  Definition step (s : st) (a : act) : st :=
    match a with
    | AStart r w =>
        match alookup r (runs s) with
        | Some _ => s                         (* RuntimeError: run_id already exists *)
        | None => mkSt (sems s) (runs s ++ [(r, mkRun w PCreated false)])
        end
    | ARun r =>
        match alookup r (runs s) with
        | None => s
        | Some ru =>
            let w := r_wf ru in
            match r_pc ru with
            | PCreated =>
                if r_mc ru then set_run r (mkRun w PDone true) s      (* cancelled before its first step *)
                else match limit w with
                     | None => set_run r (mkRun w (PHolding 0) false) s
                     | Some n =>
                         let sm := match alookup w (sems s) with Some x => x | None => fresh_sem n end in
                         let '(sm', got) := sem_acquire r sm in
                         commit w sm' r (mkRun w (if got then PHolding 0 else PWaiting) false) s
                     end
            | PWaiting =>
                match alookup w (sems s) with
                | None => s
                | Some sm =>
                    match w_find r (s_waiters sm) with
                    | Some FWoken =>
                        if r_mc ru then commit w (sem_resume_cancel_woken r sm) r (mkRun w PDone true) s
                        else commit w (sem_resume_ok r sm) r (mkRun w (PHolding 0) false) s
                    | Some FCancelled => commit w (sem_resume_cancelled r sm) r (mkRun w PDone (r_mc ru)) s
                    | _ => s                  (* future still pending: the task is not ready *)
                    end
                end
            | _ => s
            end
        end
    | AEnter r =>
        match alookup r (runs s) with
        | Some ru => match r_pc ru with
                     | PHolding a => set_run r (mkRun (r_wf ru) (PHolding (S a)) (r_mc ru)) s
                     | _ => s end
        | None => s
        end
    | AExit r =>
        match alookup r (runs s) with
        | Some ru => match r_pc ru with
                     | PHolding (S a) => set_run r (mkRun (r_wf ru) (PHolding a) (r_mc ru)) s
                     | _ => s end
        | None => s
        end
    | AFinish r =>
        match alookup r (runs s) with
        | Some ru =>
            let w := r_wf ru in
            match r_pc ru with
            | PHolding _ =>
                match limit w with
                | None => set_run r (mkRun w PDone (r_mc ru)) s
                | Some _ =>
                    match alookup w (sems s) with
                    | Some sm => commit w (sem_release sm) r (mkRun w PDone (r_mc ru)) s
                    | None => set_run r (mkRun w PDone (r_mc ru)) s
                    end
                end
            | _ => s
            end
        | None => s
        end
    | ACancel r =>
        match alookup r (runs s) with
        | Some ru =>
            let w := r_wf ru in
            match r_pc ru with
            | PCreated => set_run r (mkRun w PCreated true) s
            | PWaiting =>
                match alookup w (sems s) with
                | None => s
                | Some sm =>
                    match w_find r (s_waiters sm) with
                    | Some FPending => mkSt (aset w (mkSem (s_value sm) (w_cancel r (s_waiters sm))) (sems s)) (runs s)
                    | Some FWoken => set_run r (mkRun w PWaiting true) s
                    | _ => s
                    end
                end
            | _ => s      (* inside the `async with`: the cancellation surfaces as a later AFinish *)
            end
        | None => s
        end
    | AGc w => if refs w (runs s) then s else mkSt (adel w (sems s)) (runs s)
    | ANop => s
    end.

  Definition exec (s : st) (sched : list act) : st := run_sched step s sched.
End Step.

(* ---- observations used by the theorems and by the correspondence suite ------------------- *)

Definition holders (w : Z) (s : st) : nat :=
  acount (fun ru => (r_wf ru =? w) && pc_holding (r_pc ru)) (runs s).

Definition executing (w : Z) (s : st) : nat :=
  acount (fun ru => (r_wf ru =? w) && pc_executing (r_pc ru)) (runs s).

Definition n_woken (ws : list (Z * futst)) : nat := acount fut_is_woken ws.
Definition n_pending (ws : list (Z * futst)) : nat := acount fut_is_pending ws.

(* number of pending (not yet woken, not cancelled) waiters queued before r, when r is pending *)
Fixpoint ahead (r : Z) (ws : list (Z * futst)) : option nat :=
  match ws with
  | [] => None
  | (r', f) :: t =>
      if r' =? r then (if fut_is_pending f then Some 0%nat else None)
      else match ahead r t with
           | Some k => Some (if fut_is_pending f then S k else k)
           | None => None
           end
  end.

(* canonical encodings *)
Definition enc_fut (f : futst) : Z := match f with FPending => 0 | FWoken => 1 | FCancelled => 2 end.

Definition enc_sem (o : option sem) : list Z :=
  match o with
  | None => [-1]
  | Some sm => s_value sm :: Z.of_nat (length (s_waiters sm))
               :: flat_map (fun w => [fst w; enc_fut (snd w)]) (s_waiters sm)
  end.

Definition enc_pc (p : pc) : list Z :=
  match p with
  | PCreated => [0; 0] | PWaiting => [1; 0] | PHolding a => [2; Z.of_nat a] | PDone => [3; 0]
  end.

Definition enc_run (o : option run) : list Z :=
  match o with
  | None => [-1]
  | Some ru => r_wf ru :: enc_pc (r_pc ru)
  end.

(* ---- trace comparator (correspondence suite `runlimit`) ---------------------------------- *)

Definition zlist_eqb (a b : list Z) : bool := if list_eq_dec Z.eq_dec a b then true else false.

Definition limit_of (lims : list (Z * option Z)) (w : Z) : option Z :=
  match alookup w lims with Some x => x | None => None end.

(* what the implementation showed after an atomic segment:
   XNone — nothing recorded;  XSem w l — the Semaphore object of w as seen from inside one of its own
   methods (it exists there even if the weak dict is about to drop it: compared up to the drop);
   XDict w l — the weak dict entry of w at a quiescent point (exact, [-1] = absent) *)
Inductive expect := XNone | XSem (w : Z) (l : list Z) | XDict (w : Z) (l : list Z).

Definition expect_ok (lims : list (Z * option Z)) (s : st) (e : expect) : bool :=
  match e with
  | XNone => true
  | XDict w l => zlist_eqb (enc_sem (alookup w (sems s))) l
  | XSem w l =>
      let o := alookup w (sems s) in
      let sm := match o, limit_of lims w with
                | Some x, _ => Some x
                | None, Some n => Some (fresh_sem n)
                | None, None => None
                end in
      zlist_eqb (enc_sem sm) l
  end.

Fixpoint check_trace (lims : list (Z * option Z)) (s : st) (i : Z) (tr : list (act * expect)) : Z * st :=
  match tr with
  | [] => (0, s)
  | (a, e) :: t =>
      let s' := step (limit_of lims) s a in
      if expect_ok lims s' e then check_trace lims s' (i + 1) t else (i, s')
  end.

(* 0 = every recorded observation and the final run table agree; k > 0 = first differing segment;
   -1 = final run table differs *)
Definition check_case (lims : list (Z * option Z)) (tr : list (act * expect))
                      (final : list (Z * list Z)) : Z :=
  let '(z, s) := check_trace lims init 1 tr in
  if z =? 0
  then (if forallb (fun kv => zlist_eqb (enc_run (alookup (fst kv) (runs s))) (snd kv)) final then 0 else -1)
  else z.

(* diagnostics: the model's view after a trace *)
Definition dump_case (lims : list (Z * option Z)) (tr : list (act * expect)) (ws rs : list Z) : list Z :=
  let '(z, s) := check_trace lims init 1 tr in
  z :: flat_map (fun w => -7 :: enc_sem (alookup w (sems s))) ws
    ++ flat_map (fun r => -8 :: enc_run (alookup r (runs s))) rs.
