(* M-Handlers: executable model of representation/validate.py _collect_catch_error_handlers +
   validate_catch_error_handlers: which @catch_error handler owns which step.  No proofs here.
   A step declaration is (name, None) for an ordinary step or (name, Some (for_steps, max_recoveries))
   for a @catch_error handler; for_steps = None is the wildcard handler. *)
From Coq Require Import List ZArith Bool.
Import ListNotations.
From WF Require Import Model.Engine.
Open Scope Z_scope.

Definition decl := (Z * option (option (list Z) * Z))%type.
Definition hdesc := (Z * option (list Z) * Z)%type.          (* handler step name, for_steps, max_recoveries *)
Definition hname (h : hdesc) : Z := fst (fst h).
Definition hfor (h : hdesc) : option (list Z) := snd (fst h).
Definition hmax (h : hdesc) : Z := snd h.

Definition handlers_of (steps : list decl) : list hdesc :=
  flat_map (fun d => match snd d with Some (f, m) => [(fst d, f, m)] | None => [] end) steps.
Definition is_step (steps : list decl) (n : Z) : bool := existsb (fun d => Z.eqb (fst d) n) steps.
Definition is_handler (steps : list decl) (n : Z) : bool := existsb (fun h => Z.eqb (hname h) n) (handlers_of steps).
Definition is_wild (h : hdesc) : bool := match hfor h with None => true | Some _ => false end.
Definition lists (n : Z) (h : hdesc) : bool := match hfor h with Some l => zmem n l | None => false end.

(* all (handler, target) claims of the scoped handlers, in declaration order *)
Definition claims (hs : list hdesc) : list Z := flat_map (fun h => match hfor h with Some l => l | None => [] end) hs.
Fixpoint znodup (l : list Z) : bool :=
  match l with [] => true | x :: t => negb (zmem x t) && znodup t end.

(* validate_catch_error_handlers + the max_recoveries check: any error raises WorkflowValidationError *)
Definition handlers_valid (steps : list decl) : bool :=
  let hs := handlers_of steps in
  forallb (fun h => Z.leb 1 (hmax h)) hs &&
  Nat.leb (length (filter is_wild hs)) 1 &&
  forallb (fun t => is_step steps t && negb (is_handler steps t)) (claims hs) &&
  znodup (claims hs).

Definition scoped_owner (hs : list hdesc) (n : Z) : option Z :=
  match find (lists n) hs with Some h => Some (hname h) | None => None end.
Definition wildcard (hs : list hdesc) : option Z :=
  match filter is_wild hs with h :: _ => Some (hname h) | [] => None end.
(* handler_for_step: scoped claims first, then the wildcard fills every step that is neither a
   handler step nor claimed *)
Definition owner (steps : list decl) (n : Z) : option Z :=
  match scoped_owner (handlers_of steps) n with
  | Some h => Some h
  | None => if is_step steps n && negb (is_handler steps n) then wildcard (handlers_of steps) else None
  end.

Definition handler_table (steps : list decl) : list (Z * Z) :=
  flat_map (fun d => match owner steps (fst d) with Some h => [(fst d, h)] | None => [] end) steps.

(* result of _collect_catch_error_handlers: None = WorkflowValidationError *)
Definition collect_handlers (steps : list decl) : option (list hdesc * list (Z * Z)) :=
  if handlers_valid steps then Some (handlers_of steps, handler_table steps) else None.

(* the part of the run configuration BrokerState.from_workflow takes from it *)
Definition config_handlers (steps : list decl) : list (Z * handler) :=
  map (fun h => (hname h, {| h_step := hname h ; h_max := hmax h |})) (handlers_of steps).

Definition enc_collect_handlers (steps : list decl) : list Z :=
  match collect_handlers steps with
  | None => [-1]
  | Some (hs, tbl) =>
    0 :: Z.of_nat (length hs) ::
      flat_map (fun h => hname h :: (match hfor h with None => [-1] | Some l => Z.of_nat (length l) :: l end) ++ [hmax h]) hs
      ++ Z.of_nat (length tbl) :: flat_map (fun p => [fst p ; snd p]) tbl
  end.
Fixpoint zleq (a b : list Z) : bool :=
  match a, b with [], [] => true | x :: a', y :: b' => Z.eqb x y && zleq a' b' | _, _ => false end.
Definition handlers_case (steps : list decl) (expect : list Z) : Z :=
  if zleq (enc_collect_handlers steps) expect then 0 else 1.
