(* M-EventLog: executable model of the stored event log of one run (C16, used by C17).

   Anchors (llama-agents-server/src/llama_agents/server):
     _store/memory_workflow_store.py   append_event, query_events, subscribe_events
     _store/sqlite/sqlite_workflow_store.py   the same three (SQL: COALESCE(MAX(sequence),-1)+1,
                                       WHERE sequence > ? ORDER BY sequence [LIMIT ?])
     _store/abstract_workflow_store.py _is_terminal_event, the polling default subscribe_events
     _api.py                           _WorkflowAPI._resolve_event_stream (now / cursor / 204) and the
                                       internal-event filter of its event_gen
   No proofs in this file.

   Atomicity: asyncio tasks are not preempted, so a subscriber generator runs from one suspension
   point (a `yield` handed to its consumer, `condition.wait()`, `asyncio.sleep`) to the next as one
   action [AStep]; `append_event` is split into the write and the later `notify_all` (between the
   two the writer may have to wait for the condition's lock) — [AWrite] / [ANotify]. *)
From Coq Require Import List ZArith Bool Lia.
Import ListNotations.
Open Scope Z_scope.

(* ---------- events ---------- *)
(* the envelope metadata the code looks at + an identity for the payload *)
Record evt := mkE { e_type : Z ; e_types : option (list Z) ; e_pid : Z }.
(* StoredEvent *)
Record sev := mkS { s_seq : Z ; s_ev : evt }.

Definition STOP : Z := 0.        (* StopEvent.__name__ *)
Definition INTERNAL : Z := 1.    (* InternalDispatchEvent.__name__ *)

Definition zmem (x : Z) (l : list Z) : bool := existsb (Z.eqb x) l.

(* (event.types or []) + [event.type] *)
Definition type_names (e : evt) : list Z :=
  (match e_types e with Some l => l | None => [] end) ++ [e_type e].

(* AbstractWorkflowStore._is_terminal_event *)
Definition is_terminal (s : sev) : bool := zmem STOP (type_names (s_ev s)).
(* event_gen: `_INTERNAL_EVENT_TYPE in types` *)
Definition is_internal (s : sev) : bool := zmem INTERNAL (type_names (s_ev s)).
(* what a stream created with include_internal = incl hands on *)
Definition visible (incl : bool) (s : sev) : bool := incl || negb (is_internal s).

(* ---------- the two stores ---------- *)
Inductive backend := BMem | BSql.

Fixpoint last_opt {A} (l : list A) : option A :=
  match l with [] => None | [x] => Some x | _ :: t => last_opt t end.

(* existing[-1].sequence + 1 if existing else 0 *)
Definition mem_next (L : list sev) : Z :=
  match last_opt L with Some s => s_seq s + 1 | None => 0 end.

(* SELECT MAX(sequence) : NULL on no rows *)
Fixpoint seq_max (L : list sev) : option Z :=
  match L with
  | [] => None
  | e :: t => match seq_max t with None => Some (s_seq e) | Some m => Some (Z.max (s_seq e) m) end
  end.
(* COALESCE((SELECT MAX(sequence) ...), -1) + 1 *)
Definition sql_next (L : list sev) : Z :=
  (match seq_max L with Some m => m | None => -1 end) + 1.

Definition next_seq (bk : backend) (L : list sev) : Z :=
  match bk with BMem => mem_next L | BSql => sql_next L end.

Definition append (bk : backend) (L : list sev) (e : evt) : list sev :=
  L ++ [mkS (next_seq bk L) e].

(* ORDER BY sequence (the table is kept in insertion order; stable insertion sort) *)
Fixpoint ins_seq (x : sev) (l : list sev) : list sev :=
  match l with
  | [] => [x]
  | y :: t => if s_seq x <? s_seq y then x :: y :: t else y :: ins_seq x t
  end.
Definition sort_seq (l : list sev) : list sev := fold_right ins_seq [] l.

Definition after_ok (after : option Z) (s : sev) : bool :=
  match after with Some a => a <? s_seq s | None => true end.

(* query_events(run_id, after_sequence, limit); limit >= 0 *)
Definition query (bk : backend) (after : option Z) (limit : option Z) (L : list sev) : list sev :=
  let sel := filter (after_ok after) L in
  let sel := match bk with BMem => sel | BSql => sort_seq sel end in
  match limit with Some n => firstn (Z.to_nat n) sel | None => sel end.

(* ---------- subscribers ---------- *)
(* how the subscriber's cursor works:
   KIdx  list-index cursor of MemoryWorkflowStore.subscribe_events (events with sequence <=
         after_sequence are skipped while iterating);
   KSeq  sequence cursor re-queried through query_events (SqliteWorkflowStore.subscribe_events and the
         polling default of AbstractWorkflowStore) *)
Inductive ckind := KIdx | KSeq.
(* how a waiting subscriber is woken: WCond (condition, memory), WCondPoll (condition or
   poll_interval timeout, SQLite), WPoll (sleep(poll_interval), abstract default) *)
Inductive wkind := WCond | WCondPoll | WPoll.
Inductive sstate := Ready | Waiting | Done | Stuck.

Record sub := mkSub {
  ck : ckind ; wk : wkind ;
  k_after : Z ;             (* after_sequence *)
  incl : bool ;             (* include_internal of the wrapping event_gen; true for a bare subscription *)
  cur : Z ;                 (* cursor *)
  batch : list sev ;        (* rest of the snapshot being iterated *)
  st : sstate ;
  out : list sev            (* everything handed to the consumer so far *)
}.

Definition fetch (bk : backend) (c : ckind) (L : list sev) (cur : Z) : list sev :=
  match c with
  | KIdx => skipn (Z.to_nat cur) L                 (* all_events[cursor:] *)
  | KSeq => query bk (Some cur) None L             (* query_events(run_id, after_sequence=cursor) *)
  end.

Definition adv (c : ckind) (cur : Z) (e : sev) : Z :=
  match c with KIdx => cur + 1 | KSeq => s_seq e end.

Definition skipped (c : ckind) (k : Z) (e : sev) : bool :=
  match c with KIdx => s_seq e <=? k | KSeq => false end.

Inductive scan_res :=
| Exhausted (cur : Z)                             (* iterated the whole batch without handing anything on *)
| Delivered (e : sev) (cur : Z) (rest : list sev) (* suspended at a yield to the consumer *)
| Finished (d : option sev) (cur : Z).            (* the terminal event was reached (handed on if visible) *)

(* `for event in batch:` up to the next suspension / return *)
Fixpoint scan (c : ckind) (k : Z) (inc : bool) (b : list sev) (cur : Z) : scan_res :=
  match b with
  | [] => Exhausted cur
  | e :: b' =>
      let cur' := adv c cur e in
      if skipped c k e then scan c k inc b' cur'
      else if is_terminal e then Finished (if visible inc e then Some e else None) cur'
      else if visible inc e then Delivered e cur' b'
      else scan c k inc b' cur'
  end.

Definition set_run (s : sub) (cur' : Z) (b : list sev) (st' : sstate) (o : list sev) : sub :=
  mkSub (ck s) (wk s) (k_after s) (incl s) cur' b st' o.

(* `while True:` of subscribe_events from a resumption to the next suspension; the fuel is the number
   of loop iterations (old snapshot, fresh snapshot, empty snapshot -> wait); [Stuck] = out of fuel *)
Fixpoint run_loop (fuel : nat) (bk : backend) (L : list sev) (s : sub) : sub :=
  match fuel with
  | O => set_run s (cur s) (batch s) Stuck (out s)
  | S f =>
      let b := match batch s with [] => fetch bk (ck s) L (cur s) | b => b end in
      match b with
      | [] => set_run s (cur s) [] Waiting (out s)
      | _ =>
          match scan (ck s) (k_after s) (incl s) b (cur s) with
          | Exhausted c => run_loop f bk L (set_run s c [] Ready (out s))
          | Delivered e c r => set_run s c r Ready (out s ++ [e])
          | Finished d c => set_run s c [] Done (out s ++ match d with Some e => [e] | None => [] end)
          end
      end
  end.

Definition sub_run (bk : backend) (L : list sev) (s : sub) : sub :=
  match st s with Ready => run_loop 3 bk L s | _ => s end.

(* a fresh subscription. memory: cursor = 0; SQLite / default: cursor = after_sequence *)
Definition sub_init (c : ckind) (w : wkind) (k : Z) (inc : bool) : sub :=
  mkSub c w k inc (match c with KIdx => 0 | KSeq => k end) [] Ready [].

(* store.subscribe_events of each backend, and AbstractWorkflowStore.subscribe_events *)
Definition store_sub (bk : backend) (k : Z) (inc : bool) : sub :=
  match bk with BMem => sub_init KIdx WCond k inc | BSql => sub_init KSeq WCondPoll k inc end.
Definition base_sub (k : Z) : sub := sub_init KSeq WPoll k true.

(* ---------- the system: one run's log, writers, subscribers ---------- *)
Record sys := mkSys { log : list sev ; pend : nat ; subs : list sub }.

Inductive action :=
| AWrite (e : evt)          (* append_event up to the insertion *)
| ANotify                   (* ... its notify_all *)
| ATimeout (i : nat)        (* poll_interval elapsed for subscriber i *)
| AStep (i : nat)           (* subscriber i runs to its next suspension *)
| ASubscribe (s : sub).     (* a new subscriber (sub_init ...) *)

Definition wake_notify (s : sub) : sub :=
  match st s, wk s with
  | Waiting, WCond | Waiting, WCondPoll => set_run s (cur s) (batch s) Ready (out s)
  | _, _ => s
  end.
Definition wake_timeout (s : sub) : sub :=
  match st s, wk s with
  | Waiting, WCondPoll | Waiting, WPoll => set_run s (cur s) (batch s) Ready (out s)
  | _, _ => s
  end.

Fixpoint upd {A} (f : A -> A) (i : nat) (l : list A) : list A :=
  match l, i with
  | [], _ => []
  | x :: t, O => f x :: t
  | x :: t, S j => x :: upd f j t
  end.

Definition act (bk : backend) (s : sys) (a : action) : sys :=
  match a with
  | AWrite e => mkSys (append bk (log s) e) (S (pend s)) (subs s)
  | ANotify => match pend s with
               | O => s
               | S p => mkSys (log s) p (map wake_notify (subs s))
               end
  | ATimeout i => mkSys (log s) (pend s) (upd wake_timeout i (subs s))
  | AStep i => mkSys (log s) (pend s) (upd (sub_run bk (log s)) i (subs s))
  | ASubscribe x => mkSys (log s) (pend s) (subs s ++ [x])
  end.

Definition run (bk : backend) (s : sys) (l : list action) : sys := fold_left (act bk) l s.
Definition sys0 : sys := mkSys [] O [].

(* ---------- specification of a subscription ---------- *)
Fixpoint until_term (l : list sev) : list sev :=
  match l with
  | [] => []
  | e :: t => e :: (if is_terminal e then [] else until_term t)
  end.
(* "exactly the events numbered above k, in order, once each, ending right after the first terminal" *)
Definition sub_spec (k : Z) (L : list sev) : list sev :=
  until_term (filter (fun e => k <? s_seq e) L).
Definition ended (k : Z) (L : list sev) : bool :=
  existsb is_terminal (filter (fun e => k <? s_seq e) L).
Definition vis_spec (k : Z) (inc : bool) (L : list sev) : list sev :=
  filter (visible inc) (sub_spec k L).

(* ---------- _resolve_event_stream ---------- *)
Inductive hstate := HAbsent | HNoRun | HRun (terminal_status : bool).
Inductive rres := RNotFound | RNoRun | RCompleted | RStream (k : Z).

Definition resolve (bk : backend) (L : list sev) (h : hstate) (after : option Z) : rres :=
  match h with
  | HAbsent => RNotFound
  | HNoRun => RNoRun
  | HRun tst =>
      let a := match after with
               | Some a => a
               | None => match last_opt (query bk None None L) with Some e => s_seq e | None => -1 end
               end in
      match query bk (Some a) None L with
      | [] =>
          let complete := tst || match last_opt (query bk None None L) with
                                 | Some e => is_terminal e | None => false end in
          if complete then RCompleted else RStream a
      | _ => RStream a
      end
  end.

(* ---------- _stream_events: which cursor a request asks for ---------- *)
(* the after_sequence query parameter and the Last-Event-ID header as the handler classifies them *)
Inductive aparam := PAbsent | PNow | PInt (n : Z) | PGarbage.   (* absent = default "now"; int(...) or ValueError *)
Inductive lparam := LAbsent | LInt (n : Z) | LGarbage.
(* None = HTTP 400; Some None = "now" (resolved by _resolve_event_stream); Some (Some k) = cursor k *)
Definition stream_cursor (sse : bool) (a : aparam) (l : lparam) : option (option Z) :=
  match a with
  | PGarbage => None
  | _ =>
      let c := match a with PInt n => Some n | _ => None end in
      Some (if sse then match l with LInt n => Some n | _ => c end else c)
  end.
