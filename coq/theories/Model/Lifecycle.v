(* M-Lifecycle: executable model of the DBOS run lifecycle lock
   (llama_agents/dbos/journal/lifecycle.py: SqliteRunLifecycleLock / PostgresRunLifecycleLock).
   Every method is one atomic compare-and-set on the row of its run_id (SQLite: one statement /
   select+update under the per-run KeyedLock with one connection; Postgres: one UPDATE ... WHERE, or
   SELECT ... FOR UPDATE + UPDATE in one transaction), so an interleaving of any number of replicas
   is a sequence of operations.  No proofs here.

   Times are integers (the harness uses whole seconds); the crash test is the code's strict
   `(now - updated_at).total_seconds() > crash_timeout_seconds`. *)
From Coq Require Import List ZArith Bool.
Import ListNotations.
Open Scope Z_scope.

Inductive lstate := LActive | LReleasing | LReleased.
Definition row := option (lstate * Z).            (* state, updated_at; None = no row for the run *)
Definition table := list (Z * (lstate * Z)).      (* run_id -> row *)

Inductive kind :=
| Create                         (* INSERT OR REPLACE ... 'active' *)
| BeginRelease                   (* UPDATE ... SET state='releasing' WHERE run_id=? AND state='active' *)
| CompleteRelease                (* UPDATE ... SET state='released' WHERE run_id=? AND state='releasing' *)
| TryResume (ct : option Z).     (* try_begin_resume(run_id, crash_timeout_seconds) *)
Inductive lres :=
| RUnit | RBool (b : bool) | RNone | RSt (s : lstate).

Definition row_step (now : Z) (r : row) (k : kind) : row * lres :=
  match k with
  | Create => (Some (LActive, now), RUnit)
  | BeginRelease =>
      match r with
      | Some (LActive, _) => (Some (LReleasing, now), RBool true)
      | _ => (r, RBool false)
      end
  | CompleteRelease =>
      match r with
      | Some (LReleasing, _) => (Some (LReleased, now), RUnit)
      | _ => (r, RUnit)
      end
  | TryResume ct =>
      match r with
      | None => (r, RNone)
      | Some (LActive, _) => (r, RNone)
      | Some (LReleased, _) => (Some (LActive, now), RSt LReleased)
      | Some (LReleasing, u) =>
          match ct with
          | Some c => if Z.ltb c (now - u) then (Some (LActive, now), RSt LReleased) else (r, RSt LReleasing)
          | None => (r, RSt LReleasing)
          end
      end
  end.

Fixpoint lookup (k : Z) (t : table) : row :=
  match t with [] => None | (k', v) :: r => if Z.eqb k k' then Some v else lookup k r end.
Fixpoint set_row (k : Z) (v : lstate * Z) (t : table) : table :=
  match t with
  | [] => [(k, v)]
  | (k', v') :: r => if Z.eqb k k' then (k, v) :: r else (k', v') :: set_row k v r
  end.

Record op := { o_now : Z ; o_run : Z ; o_kind : kind }.

Definition lstep (t : table) (o : op) : table * lres :=
  let '(r', res) := row_step (o_now o) (lookup (o_run o) t) (o_kind o) in
  (match r' with Some v => set_row (o_run o) v t | None => t end, res).

Fixpoint lrun (t : table) (ops : list op) : table * list lres :=
  match ops with
  | [] => (t, [])
  | o :: r => let '(t1, res) := lstep t o in let '(t2, rs) := lrun t1 r in (t2, res :: rs)
  end.

(* what the properties count *)
Definition is_release_win (o : op) (r : lres) (run : Z) : bool :=
  Z.eqb (o_run o) run && match o_kind o, r with BeginRelease, RBool true => true | _, _ => false end.
Definition is_resume_win (o : op) (r : lres) (run : Z) : bool :=
  Z.eqb (o_run o) run && match o_kind o, r with TryResume _, RSt LReleased => true | _, _ => false end.
Definition is_create (o : op) (_ : lres) (run : Z) : bool :=
  Z.eqb (o_run o) run && match o_kind o with Create => true | _ => false end.

Fixpoint count_wins (f : op -> lres -> Z -> bool) (run : Z) (ops : list op) (rs : list lres) : nat :=
  match ops, rs with
  | o :: ops', r :: rs' => ((if f o r run then 1 else 0) + count_wins f run ops' rs')%nat
  | _, _ => 0%nat
  end.

Definition pending (r : row) : nat :=
  match r with Some (LReleasing, _) | Some (LReleased, _) => 1%nat | _ => 0%nat end.

(* ---- encodings for the correspondence suite ---- *)
Definition enc_state (s : lstate) : Z := match s with LActive => 1 | LReleasing => 2 | LReleased => 3 end.
Definition enc_res (r : lres) : Z :=
  match r with RUnit => 0 | RBool false => 10 | RBool true => 11 | RNone => 20 | RSt s => 30 + enc_state s end.
Definition enc_row (r : row) : list Z :=
  match r with None => [0; 0] | Some (s, u) => [enc_state s; u] end.

(* run the ops; after each op emit its result and the row of its run: compared with the real lock *)
Fixpoint ltrace (t : table) (ops : list op) : list Z :=
  match ops with
  | [] => []
  | o :: r => let '(t1, res) := lstep t o in enc_res res :: enc_row (lookup (o_run o) t1) ++ ltrace t1 r
  end.

Fixpoint zlist_eqb (a b : list Z) : bool :=
  match a, b with
  | [], [] => true
  | x :: a', y :: b' => Z.eqb x y && zlist_eqb a' b'
  | _, _ => false
  end.
Definition lconform (ops : list op) (expected : list Z) : Z :=
  if zlist_eqb (ltrace [] ops) expected then 0 else 1.
