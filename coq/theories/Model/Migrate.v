(* M-Migrate: executable model of _store/sqlite/migrate.py (run_migrations,
   _bootstrap_schema_migrations) over an abstract database, and of the fragment of SQLite DDL
   used by the migration scripts (types Sql.col / Sql.stmt come from Generated.v, where the
   translator also puts the parsed scripts).  No proofs in this file.

   The runner is generic in the schema type and in the script semantics
   (`exec : script -> schema -> option schema`, None = the script raises; the transaction is
   rolled back, so the schema is unchanged); Section DDL instantiates it with SQLite's
   CREATE TABLE / ALTER TABLE ADD COLUMN / CREATE INDEX on an explicit catalogue. *)
From Coq Require Import List ZArith Bool String.
From WF Require Import Generated.
Import ListNotations.
Open Scope Z_scope.

Definition zmem (k : Z) (l : list Z) : bool := existsb (Z.eqb k) l.

(* the package name that _bootstrap_schema_migrations seeds rows for *)
Definition SERVER : string := "server"%string.

Section Runner.
  Context {schema script : Type}.
  Variable exec : script -> schema -> option schema.

  (* d_sm = None: the schema_migrations table does not exist; Some rows: (package, version) rows in
     insertion order.  d_uv: PRAGMA user_version. *)
  Record db := Db { d_schema : schema; d_uv : Z; d_sm : option (list (string * Z)) }.

  (* one migration file: m_ver = `parse_target_version(sql_text) or 0` *)
  Record mig := Mig { m_ver : Z; m_script : script }.

  (* for v in range(1, legacy_version + 1): INSERT OR IGNORE ... ("server", v) *)
  Definition seed_rows (v : Z) : list (string * Z) :=
    map (fun k => (SERVER, Z.of_nat k)) (seq 1 (Z.to_nat v)).

  Definition bootstrap (d : db) : db :=
    match d_sm d with
    | Some _ => d
    | None => Db (d_schema d) (d_uv d) (Some (if 0 <? d_uv d then seed_rows (d_uv d) else []))
    end.

  (* SELECT version FROM schema_migrations WHERE package = ? *)
  Definition applied_of (pkg : string) (rows : list (string * Z)) : list Z :=
    map snd (filter (fun r => String.eqb (fst r) pkg) rows).

  (* result of the loop over one package's files: ok flag (false = a script raised; the loop stops,
     the failed script's effects are rolled back), the local `applied` set, schema, rows *)
  Record fstate := FS { f_ok : bool; f_applied : list Z; f_schema : schema; f_rows : list (string * Z) }.

  Fixpoint run_files (pkg : string) (ms : list mig) (applied : list Z) (sch : schema)
           (rows : list (string * Z)) : fstate :=
    match ms with
    | [] => FS true applied sch rows
    | m :: rest =>
        if zmem (m_ver m) applied || (m_ver m =? 0) then run_files pkg rest applied sch rows
        else match exec (m_script m) sch with
             | None => FS false applied sch rows
             | Some sch' => run_files pkg rest (m_ver m :: applied) sch' (rows ++ [(pkg, m_ver m)])
             end
    end.

  Inductive outcome := Done (d : db) | Failed (d : db).   (* Failed: run_migrations raised *)

  (* the `for package_name, source_pkg in sources` loop; the table exists at this point *)
  Fixpoint run_sources (srcs : list (string * list mig)) (sch : schema) (uv : Z)
           (rows : list (string * Z)) : outcome :=
    match srcs with
    | [] => Done (Db sch uv (Some rows))
    | (pkg, ms) :: rest =>
        let r := run_files pkg ms (applied_of pkg rows) sch rows in
        if f_ok r then run_sources rest (f_schema r) uv (f_rows r)
        else Failed (Db (f_schema r) uv (Some (f_rows r)))
    end.

  Definition run_migrations (srcs : list (string * list mig)) (d : db) : outcome :=
    let d0 := bootstrap d in
    run_sources srcs (d_schema d0) (d_uv d0) (match d_sm d0 with Some r => r | None => [] end).

  (* what a pre-schema_migrations runner did: scripts executed one after the other *)
  Fixpoint exec_all (ss : list script) (s : schema) : option schema :=
    match ss with
    | [] => Some s
    | x :: rest => match exec x s with None => None | Some s' => exec_all rest s' end
    end.
End Runner.

Arguments Db {schema} _ _ _.
Arguments Mig {script} _ _.
Arguments Done {schema} _.
Arguments Failed {schema} _.

(* ------------------------------------------------------------------------------------------ *)
(* SQLite catalogue and DDL semantics (what PRAGMA table_info / index_list / index_info show)   *)
Section DDL.
  Open Scope string_scope.

  Record table := Tbl { t_name : string; t_cols : list Sql.col; t_autoinc : bool }.
  Record index := Idx { i_name : string; i_table : string; i_cols : list string; i_unique : bool }.
  Record catalog := Cat { s_tables : list table; s_indexes : list index }.

  Definition empty_catalog : catalog := Cat [] [].

  Definition smem (x : string) (l : list string) : bool := existsb (String.eqb x) l.
  Fixpoint nodupb (l : list string) : bool :=
    match l with [] => true | x :: t => negb (smem x t) && nodupb t end.

  Definition find_table (n : string) (s : catalog) : option table :=
    find (fun t => t_name t =? n) (s_tables s).
  Definition has_table (n : string) (s : catalog) : bool :=
    existsb (fun t => t_name t =? n) (s_tables s).
  Definition has_index (n : string) (s : catalog) : bool :=
    existsb (fun i => i_name i =? n) (s_indexes s).

  Definition exec_stmt (st : Sql.stmt) (s : catalog) : option catalog :=
    match st with
    | Sql.CreateTable ine n cols ai =>
        if has_table n s then (if ine then Some s else None)
        else if has_index n s then None                      (* "there is already an index named" *)
        else if negb (nodupb (map Sql.c_name cols)) then None  (* "duplicate column name" *)
        else Some (Cat (s_tables s ++ [Tbl n cols ai]) (s_indexes s))
    | Sql.AddColumn tn c =>
        match find_table tn s with
        | None => None                                         (* "no such table" *)
        | Some t =>
            if smem (Sql.c_name c) (map Sql.c_name (t_cols t)) then None   (* "duplicate column name" *)
            else if (0 <? Sql.c_pk c)%Z then None                  (* "Cannot add a PRIMARY KEY column" *)
            else Some (Cat (map (fun t' => if t_name t' =? tn
                                           then Tbl (t_name t') (t_cols t' ++ [c]) (t_autoinc t')
                                           else t') (s_tables s))
                           (s_indexes s))
        end
    | Sql.CreateIndex ine u n tn cols =>
        match find_table tn s with
        | None => None                                         (* "no such table", even with IF NOT EXISTS *)
        | Some t =>
            if has_table n s then None                         (* "there is already a table named" *)
            else if has_index n s then (if ine then Some s else None)
            else if forallb (fun c => smem c (map Sql.c_name (t_cols t))) cols
                 then Some (Cat (s_tables s) (s_indexes s ++ [Idx n tn cols u]))
                 else None                                     (* "no such column" *)
        end
    end.

  (* cur.executescript("BEGIN;\n" + sql_text): all statements or (after ROLLBACK) none *)
  Fixpoint exec_script (sts : list Sql.stmt) (s : catalog) : option catalog :=
    match sts with
    | [] => Some s
    | st :: rest => match exec_stmt st s with None => None | Some s' => exec_script rest s' end
    end.

  (* ---- decidable equality used by the correspondence suite and the instance theorem ---- *)
  Definition opt_eqb (a b : option string) : bool :=
    match a, b with Some x, Some y => x =? y | None, None => true | _, _ => false end.
  Definition col_eqb (a b : Sql.col) : bool :=
    (Sql.c_name a =? Sql.c_name b) && (Sql.c_type a =? Sql.c_type b)
    && Bool.eqb (Sql.c_notnull a) (Sql.c_notnull b) && opt_eqb (Sql.c_dflt a) (Sql.c_dflt b)
    && (Sql.c_pk a =? Sql.c_pk b)%Z.
  Fixpoint list_eqb {A} (e : A -> A -> bool) (a b : list A) : bool :=
    match a, b with
    | [], [] => true
    | x :: a', y :: b' => e x y && list_eqb e a' b'
    | _, _ => false
    end.
  Definition table_eqb (a b : table) : bool :=
    (t_name a =? t_name b) && list_eqb col_eqb (t_cols a) (t_cols b) && Bool.eqb (t_autoinc a) (t_autoinc b).
  Definition index_eqb (a b : index) : bool :=
    (i_name a =? i_name b) && (i_table a =? i_table b) && list_eqb String.eqb (i_cols a) (i_cols b)
    && Bool.eqb (i_unique a) (i_unique b).
  Definition catalog_eqb (a b : catalog) : bool :=
    list_eqb table_eqb (s_tables a) (s_tables b) && list_eqb index_eqb (s_indexes a) (s_indexes b).
  (* same catalogue up to the order in which tables / indexes are listed *)
  Definition subset_b {A} (e : A -> A -> bool) (a b : list A) : bool := forallb (fun x => existsb (e x) b) a.
  Definition catalog_same (a b : catalog) : bool :=
    subset_b table_eqb (s_tables a) (s_tables b) && subset_b table_eqb (s_tables b) (s_tables a)
    && (List.length (s_tables a) =? List.length (s_tables b))%nat
    && subset_b index_eqb (s_indexes a) (s_indexes b) && subset_b index_eqb (s_indexes b) (s_indexes a)
    && (List.length (s_indexes a) =? List.length (s_indexes b))%nat.

  Definition row_eqb (a b : string * Z) : bool := (fst a =? fst b) && (snd a =? snd b)%Z.
  Definition rows_same (a b : list (string * Z)) : bool :=
    subset_b row_eqb a b && subset_b row_eqb b a && (List.length a =? List.length b)%nat.
End DDL.

(* ------------------------------------------------------------------------------------------ *)
(* The concrete instance: SQLite catalogue + scripts as statement lists                         *)
Definition sdb := @db catalog.
Definition smig := @mig (list Sql.stmt).
Definition srun (srcs : list (string * list smig)) (d : sdb) : @outcome catalog :=
  run_migrations exec_script srcs d.

Definition migs_of (l : list (Z * string * list Sql.stmt)) : list smig :=
  map (fun x => Mig (fst (fst x)) (snd x)) l.

(* the packaged server migrations (parsed from the .sql files by the translator) *)
Definition server_migs : list smig := migs_of sqlite_migrations.

Definition fresh_db : sdb := Db empty_catalog 0 None.

(* the three kinds of starting database the property names *)
Inductive start := StartFresh | StartPrefix (k : nat) | StartLegacy (k : nat).

(* a database left behind by a release that shipped only the first k migration files *)
Definition prefix_db (ms : list smig) (k : nat) : option sdb :=
  match srun [(SERVER, firstn k ms)] fresh_db with Done d => Some d | Failed _ => None end.
(* a pre-schema_migrations database at PRAGMA user_version = k: scripts 1..k executed, no table *)
Definition legacy_db (ms : list smig) (k : nat) : option sdb :=
  match exec_all exec_script (map m_script (firstn k ms)) empty_catalog with
  | Some s => Some (Db s (Z.of_nat k) None)
  | None => None
  end.
Definition start_db (ms : list smig) (st : start) : option sdb :=
  match st with
  | StartFresh => Some fresh_db
  | StartPrefix k => prefix_db ms k
  | StartLegacy k => legacy_db ms k
  end.

Definition all_starts (n : nat) : list start :=
  StartFresh :: map StartPrefix (seq 0 (S n)) ++ map StartLegacy (seq 1 n).

Definition opt_rows_eqb (a b : option (list (string * Z))) : bool :=
  match a, b with
  | Some x, Some y => list_eqb row_eqb x y
  | None, None => true
  | _, _ => false
  end.

(* from this start: the run succeeds, ends in the reference catalogue with exactly the reference
   rows, and a second run succeeds and changes nothing *)
Definition start_converges (ms : list smig) (ref : sdb) (st : start) : bool :=
  match start_db ms st with
  | None => false
  | Some d0 =>
      match srun [(SERVER, ms)] d0 with
      | Failed _ => false
      | Done d1 =>
          catalog_eqb (d_schema d1) (d_schema ref) && opt_rows_eqb (d_sm d1) (d_sm ref)
          && match srun [(SERVER, ms)] d1 with
             | Failed _ => false
             | Done d2 => catalog_eqb (d_schema d2) (d_schema d1) && opt_rows_eqb (d_sm d2) (d_sm d1)
                          && (d_uv d2 =? d_uv d1)
             end
      end
  end.

Definition zseq1 (n : nat) : list Z := map Z.of_nat (seq 1 n).

(* ---------- flat encodings for the correspondence suite ---------- *)
Definition outcome_code {S} (o : @outcome S) : Z := match o with Done _ => 0 | Failed _ => 1 end.
Definition outcome_db {S} (o : @outcome S) : @db S := match o with Done d => d | Failed d => d end.

(* 0 iff the model database equals the observed one: catalogue (up to listing order),
   schema_migrations present/absent and its rows (as a set), user_version *)
Definition agree_db (d : sdb) (obs_sm : option (list (string * Z))) (obs_cat : catalog) (obs_uv : Z) : Z :=
  if negb (catalog_same (d_schema d) obs_cat) then 2
  else if negb (match d_sm d, obs_sm with
                | Some a, Some b => rows_same a b
                | None, None => true
                | _, _ => false
                end) then 3
  else if negb (d_uv d =? obs_uv) then 4
  else 0.

(* 0 iff the model's outcome of running `srcs` on `d` is the observed one (raised or not + database) *)
Definition agree_run (srcs : list (string * list smig)) (d : sdb)
           (obs_failed : bool) (obs_sm : option (list (string * Z))) (obs_cat : catalog) (obs_uv : Z) : Z :=
  let o := srun srcs d in
  if negb (Bool.eqb (outcome_code o =? 1) obs_failed) then 1
  else agree_db (outcome_db o) obs_sm obs_cat obs_uv.

(* the model's database after one run (whether it raised or not) *)
Definition after_run (srcs : list (string * list smig)) (d : sdb) : sdb := outcome_db (srun srcs d).
Definition start_or_empty (ms : list smig) (st : start) : sdb :=
  match start_db ms st with Some d => d | None => Db empty_catalog (-1) None end.
