(* M-HandlerStore: executable models of the handler part of MemoryWorkflowStore
   (_store/memory_workflow_store.py: _matches_query, query, update, delete, _evict_oldest_completed,
   _forget_completion) and of SqliteWorkflowStore (_store/sqlite/sqlite_workflow_store.py: _build_filters,
   query, update (upsert), delete), plus AbstractWorkflowStore.update_handler_status which both inherit.
   No proofs in this file.

   Identifiers (handler ids, run ids, workflow names) are integers; a status is its index in
   Generated.handler_statuses (the Status literal), terminal iff its name is in
   Generated.handler_terminal_statuses.  A handler carries the fields the filters read plus `h_err`
   (error text id) and `h_done` (completed_at is set) so that "upsert replaces the whole row" and the
   effect of update_handler_status are observable; timestamps' values and `result` are not modelled. *)
From Coq Require Import List ZArith Bool String.
From WF Require Import Generated.
Import ListNotations.
Open Scope list_scope.
Open Scope Z_scope.

Definition zin (k : Z) (l : list Z) : bool := existsb (Z.eqb k) l.

Definition status_name (c : Z) : string := nth (Z.to_nat c) handler_statuses EmptyString.
Definition is_terminal (c : Z) : bool :=
  (0 <=? c) && existsb (String.eqb (status_name c)) handler_terminal_statuses.

Record handler := H { h_id : Z; h_wf : Z; h_status : Z; h_run : option Z; h_idle : bool;
                      h_err : option Z; h_done : bool }.

(* HandlerQuery: None = filter not given *)
Record hquery := Q { q_ids : option (list Z); q_runs : option (list Z); q_wfs : option (list Z);
                     q_sts : option (list Z); q_idle : option bool }.

Definition has_filter (q : hquery) : bool :=
  match q_ids q, q_runs q, q_wfs q, q_sts q, q_idle q with
  | None, None, None, None, None => false
  | _, _, _, _, _ => true
  end.

(* ---------------- memory store: _matches_query ---------------- *)
(* `if f is not None: if len(f) == 0: return False; if value not in f: return False`
   (a run_id of None is never `in` a list of strings) *)
Definition list_filter_ok (f : option (list Z)) (v : option Z) : bool :=
  match f with
  | None => true
  | Some [] => false
  | Some l => match v with Some x => zin x l | None => false end
  end.

Definition mem_matches (h : handler) (q : hquery) : bool :=
  list_filter_ok (q_ids q) (Some (h_id h))
  && list_filter_ok (q_runs q) (h_run h)
  && list_filter_ok (q_wfs q) (Some (h_wf h))
  && list_filter_ok (q_sts q) (Some (h_status h))
  && match q_idle q with None => true | Some b => Bool.eqb b (h_idle h) end.

(* ---------------- SQLite store: _build_filters + WHERE evaluation ---------------- *)
Inductive column := ColWf | ColId | ColRun | ColStatus.
Inductive clause := CIn (c : column) (vals : list Z) | CIdleNotNull | CIdleNull.

Definition add_in (c : column) (f : option (list Z)) (k : list clause -> option (list clause))
           (acc : list clause) : option (list clause) :=
  match f with
  | None => k acc
  | Some [] => None                       (* `return None`: the query matches nothing *)
  | Some l => k (acc ++ [CIn c l])
  end.

(* order of the `if` blocks in _build_filters: workflow_name, handler_id, run_id, status, is_idle *)
Definition build_filters (q : hquery) : option (list clause) :=
  add_in ColWf (q_wfs q)
    (add_in ColId (q_ids q)
      (add_in ColRun (q_runs q)
        (add_in ColStatus (q_sts q)
          (fun acc => Some (match q_idle q with
                            | None => acc
                            | Some true => acc ++ [CIdleNotNull]
                            | Some false => acc ++ [CIdleNull]
                            end))))) [].

Definition col_value (h : handler) (c : column) : option Z :=   (* None = SQL NULL *)
  match c with
  | ColWf => Some (h_wf h)
  | ColId => Some (h_id h)
  | ColRun => h_run h
  | ColStatus => Some (h_status h)
  end.

(* a row is selected iff the clause evaluates to TRUE (NULL IN (...) is NULL, not TRUE) *)
Definition eval_clause (h : handler) (c : clause) : bool :=
  match c with
  | CIn col vals => match col_value h col with Some v => zin v vals | None => false end
  | CIdleNotNull => h_idle h
  | CIdleNull => negb (h_idle h)
  end.

Definition where_ok (cl : list clause) (h : handler) : bool := forallb (eval_clause h) cl.

(* ---------------- shared row container ---------------- *)
(* dict assignment / INSERT .. ON CONFLICT(handler_id) DO UPDATE: an existing key keeps its position *)
Fixpoint upsert (h : handler) (l : list handler) : list handler :=
  match l with
  | [] => [h]
  | g :: t => if h_id g =? h_id h then h :: t else g :: upsert h t
  end.

Definition lookup (i : Z) (l : list handler) : option handler := find (fun g => h_id g =? i) l.
Definition drop_ids (ids : list Z) (l : list handler) : list handler :=
  filter (fun g => negb (zin (h_id g) ids)) l.

(* deque.remove(x): the first occurrence *)
Fixpoint remove_first (i : Z) (q : list Z) : list Z :=
  match q with
  | [] => []
  | x :: t => if x =? i then t else x :: remove_first i t
  end.

(* ---------------- update_handler_status (AbstractWorkflowStore) ---------------- *)
(* u_status None = status not given; u_err None = error not given;
   u_idle None = _UNSET, Some true = idle_since set to a time, Some false = idle_since set to None *)
Record supd := SU { u_run : Z; u_status : option Z; u_err : option Z; u_idle : option bool }.

Definition apply_supd (u : supd) (g : handler) : handler :=
  H (h_id g) (h_wf g)
    (match u_status u with Some s => s | None => h_status g end)
    (h_run g)
    (match u_idle u with Some b => b | None => h_idle g end)
    (match u_err u with Some e => Some e | None => h_err g end)
    (match u_status u with Some s => if is_terminal s then true else h_done g | None => h_done g end).

Definition by_run (r : Z) : hquery := Q None (Some [r]) None None None.

(* ---------------- MemoryWorkflowStore ---------------- *)
Record mem := Mem { m_handlers : list handler;     (* self.handlers, dict order *)
                    m_queue : list Z;               (* self._terminal_queue, oldest first *)
                    m_max : option nat }.           (* self.max_completed *)

Definition mem_empty (mx : option nat) : mem := Mem [] [] mx.

Definition mem_query (q : hquery) (m : mem) : list handler :=
  filter (fun g => mem_matches g q) (m_handlers m).

(* while len(queue) > max: popleft; skip when missing or not terminal; else pop the handler *)
Fixpoint evict_loop (mx : nat) (q : list Z) (hs : list handler) : list Z * list handler :=
  match q with
  | [] => ([], hs)
  | i :: q' =>
      if (List.length q <=? mx)%nat then (q, hs)
      else match lookup i hs with
           | None => evict_loop mx q' hs
           | Some g => if is_terminal (h_status g) then evict_loop mx q' (drop_ids [i] hs)
                       else evict_loop mx q' hs
           end
  end.

Definition mem_update (h : handler) (m : mem) : mem :=
  let hs := upsert h (m_handlers m) in
  let q1 := remove_first (h_id h) (m_queue m) in          (* _forget_completion *)
  if is_terminal (h_status h) then
    let q2 := q1 ++ [h_id h] in
    match m_max m with
    | None => Mem hs q2 None
    | Some n => let (q3, hs3) := evict_loop n q2 hs in Mem hs3 q3 (Some n)
    end
  else Mem hs q1 (m_max m).

Definition mem_delete (q : hquery) (m : mem) : Z * mem :=
  let del := filter (fun g => mem_matches g q) (m_handlers m) in
  (Z.of_nat (List.length del),
   Mem (filter (fun g => negb (mem_matches g q)) (m_handlers m))
       (fold_left (fun qu g => remove_first (h_id g) qu) del (m_queue m))
       (m_max m)).

Definition mem_set_status (u : supd) (m : mem) : mem :=
  match mem_query (by_run (u_run u)) m with
  | [] => m
  | g :: _ => mem_update (apply_supd u g) m
  end.

(* ---------------- SqliteWorkflowStore (handlers table, rowid order) ---------------- *)
Definition sql_query (q : hquery) (rows : list handler) : list handler :=
  match build_filters q with
  | None => []
  | Some cl => filter (where_ok cl) rows
  end.

Definition sql_update (h : handler) (rows : list handler) : list handler := upsert h rows.

Definition sql_delete (q : hquery) (rows : list handler) : Z * list handler :=
  match build_filters q with
  | None => (0, rows)
  | Some [] => (0, rows)                    (* `if not clauses: return 0` *)
  | Some cl => (Z.of_nat (List.length (filter (where_ok cl) rows)),
                filter (fun g => negb (where_ok cl g)) rows)
  end.

Definition sql_set_status (u : supd) (rows : list handler) : list handler :=
  match sql_query (by_run (u_run u)) rows with
  | [] => rows
  | g :: _ => sql_update (apply_supd u g) rows
  end.

(* ---------------- operation sequences ---------------- *)
Inductive op := OUpdate (h : handler) | OQuery (q : hquery) | ODelete (q : hquery) | OSetStatus (u : supd).
Inductive out := RUnit | RList (l : list handler) | RCount (n : Z).

Definition mem_step (o : op) (m : mem) : mem * out :=
  match o with
  | OUpdate h => (mem_update h m, RUnit)
  | OQuery q => (m, RList (mem_query q m))
  | ODelete q => let (n, m') := mem_delete q m in (m', RCount n)
  | OSetStatus u => (mem_set_status u m, RUnit)
  end.

Definition sql_step (o : op) (rows : list handler) : list handler * out :=
  match o with
  | OUpdate h => (sql_update h rows, RUnit)
  | OQuery q => (rows, RList (sql_query q rows))
  | ODelete q => let (n, r') := sql_delete q rows in (r', RCount n)
  | OSetStatus u => (sql_set_status u rows, RUnit)
  end.

Fixpoint mem_run (ops : list op) (m : mem) : mem * list out :=
  match ops with
  | [] => (m, [])
  | o :: t => let (m1, r) := mem_step o m in let (m2, rs) := mem_run t m1 in (m2, r :: rs)
  end.

Fixpoint sql_run (ops : list op) (rows : list handler) : list handler * list out :=
  match ops with
  | [] => (rows, [])
  | o :: t => let (s1, r) := sql_step o rows in let (s2, rs) := sql_run t s1 in (s2, r :: rs)
  end.

(* the deletes of a compared history carry at least one filter *)
Definition filtered_deletes (ops : list op) : bool :=
  forallb (fun o => match o with ODelete q => has_filter q | _ => true end) ops.

(* ---------------- comparison with observed outputs (correspondence suite) ---------------- *)
Definition oz_eqb (a b : option Z) : bool :=
  match a, b with Some x, Some y => x =? y | None, None => true | _, _ => false end.
Definition handler_eqb (a b : handler) : bool :=
  (h_id a =? h_id b) && (h_wf a =? h_wf b) && (h_status a =? h_status b) && oz_eqb (h_run a) (h_run b)
  && Bool.eqb (h_idle a) (h_idle b) && oz_eqb (h_err a) (h_err b) && Bool.eqb (h_done a) (h_done b).
Fixpoint hlist_eqb (a b : list handler) : bool :=
  match a, b with
  | [], [] => true
  | x :: a', y :: b' => handler_eqb x y && hlist_eqb a' b'
  | _, _ => false
  end.
Definition hlist_same (a b : list handler) : bool :=     (* as sets of rows *)
  forallb (fun x => existsb (handler_eqb x) b) a && forallb (fun x => existsb (handler_eqb x) a) b
  && (List.length a =? List.length b)%nat.
Definition out_agree (exact : bool) (a b : out) : bool :=
  match a, b with
  | RUnit, RUnit => true
  | RCount x, RCount y => x =? y
  | RList x, RList y => if exact then hlist_eqb x y else hlist_same x y
  | _, _ => false
  end.
(* 0 when every output agrees, else 1 + index of the first differing operation *)
Fixpoint first_diff (exact : bool) (k : Z) (a b : list out) : Z :=
  match a, b with
  | [], [] => 0
  | x :: a', y :: b' => if out_agree exact x y then first_diff exact (k + 1) a' b' else k + 1
  | _, _ => k + 1
  end.

(* memory: exact list order (dict order is what the code returns), final handlers + queue as well *)
Definition check_mem (mx : option nat) (ops : list op) (obs : list out)
           (final_handlers : list handler) (final_queue : list Z) : Z :=
  let (m, outs) := mem_run ops (mem_empty mx) in
  let d := first_diff true 0 outs obs in
  if negb (d =? 0) then d
  else if negb (hlist_eqb (m_handlers m) final_handlers) then -1
  else if negb (if list_eq_dec Z.eq_dec (m_queue m) final_queue then true else false) then -2
  else 0.

(* SQLite: query results compared as sets (SELECT without ORDER BY) *)
Definition check_sql (ops : list op) (obs : list out) (final_rows : list handler) : Z :=
  let (s, outs) := sql_run ops [] in
  let d := first_diff false 0 outs obs in
  if negb (d =? 0) then d
  else if negb (hlist_same s final_rows) then -1
  else 0.
