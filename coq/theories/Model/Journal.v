(* M-Journal: executable model of
     packages/llama-agents-dbos/src/llama_agents/dbos/journal/crud.py   (SqliteJournalCrud / PostgresJournalCrud SQL)
     packages/llama-agents-dbos/src/llama_agents/dbos/journal/task_journal.py (TaskJournal)
     packages/llama-agents-dbos/src/llama_agents/dbos/runtime.py        (InternalDBOSAdapter.wait_for_next_task,
                                                                         _purge_orphaned_operations)
   plus the bookkeeping of the control loop around wait_for_next_task
     packages/llama-index-workflows/src/workflows/runtime/control_loop.py  (_ControlLoopRunner.run, lines "Build pending
     list" .. "Process the single completed task": pending/running lists, removal of the completed task).
   No proofs here.  Task keys ("step:worker_id", "__pull__:n") are abstract integers (only equality is used);
   a task *instance* is (key, uid): keys are re-used by the engine (worker slots), uids never. *)
From Coq Require Import List ZArith Bool PeanoNat.
Import ListNotations.
Open Scope Z_scope.

(* ---------- the two tables (rows in rowid = insertion order) ---------- *)
Record jrow := { jr_run : Z ; jr_seq : Z ; jr_key : Z }.
Record orow := { or_run : Z ; or_fid : Z }.
Record db := { d_j : list jrow ; d_o : list orow }.
Definition db_empty : db := {| d_j := [] ; d_o := [] |}.

(* ---------- JournalCrud ---------- *)
Definition crud_insert (run seq key : Z) (d : db) : db :=
  {| d_j := d_j d ++ [ {| jr_run := run ; jr_seq := seq ; jr_key := key |} ] ; d_o := d_o d |}.

(* ORDER BY seq_num ASC: stable insertion sort (ties keep rowid order; the single-writer invariant
   proved in Proofs/JournalProofs.v shows ties never arise) *)
Fixpoint ins_row (r : jrow) (l : list jrow) : list jrow :=
  match l with
  | [] => [r]
  | x :: t => if jr_seq r <=? jr_seq x then r :: l else x :: ins_row r t
  end.
Definition sort_rows (l : list jrow) : list jrow := fold_right ins_row [] l.
Definition run_rows (run : Z) (d : db) : list jrow := filter (fun r => jr_run r =? run) (d_j d).
Definition crud_load (run : Z) (d : db) : list Z := map jr_key (sort_rows (run_rows run d)).
Definition crud_delete (run : Z) (d : db) : db :=
  {| d_j := filter (fun r => negb (jr_run r =? run)) (d_j d) ; d_o := d_o d |}.
Definition crud_truncate_from (run n : Z) (d : db) : db :=
  {| d_j := filter (fun r => negb ((jr_run r =? run) && (n <=? jr_seq r))) (d_j d) ; d_o := d_o d |}.
Definition crud_purge_ops (run fid : Z) (d : db) : db :=
  {| d_j := d_j d ; d_o := filter (fun o => negb ((or_run o =? run) && (fid <? or_fid o))) (d_o d) |}.

(* ---------- TaskJournal ---------- *)
Record journal := { j_crud : bool ; j_entries : option (list Z) ; j_idx : nat }.
Definition j_new (crud : bool) : journal := {| j_crud := crud ; j_entries := None ; j_idx := 0 |}.
Definition j_load (run : Z) (d : db) (j : journal) : journal :=
  match j_entries j with
  | Some _ => j
  | None => {| j_crud := j_crud j ; j_entries := Some (if j_crud j then crud_load run d else []) ; j_idx := j_idx j |}
  end.
Definition j_is_replaying (j : journal) : bool :=
  match j_entries j with None => false | Some e => (j_idx j <? length e)%nat end.
Definition j_next_expected (j : journal) : option Z :=
  match j_entries j with None => None | Some e => nth_error e (j_idx j) end.
Definition j_record (run key : Z) (d : db) (j : journal) : db * journal :=
  let e := match j_entries j with Some e => e | None => [] end in
  (if j_crud j then crud_insert run (Z.of_nat (length e)) key d else d,
   {| j_crud := j_crud j ; j_entries := Some (e ++ [key]) ; j_idx := S (j_idx j) |}).
Definition j_advance (j : journal) : journal :=
  {| j_crud := j_crud j ; j_entries := j_entries j ; j_idx := S (j_idx j) |}.
Definition j_has_entries (j : journal) : bool :=
  match j_entries j with Some (_ :: _) => true | _ => false end.
Definition j_purge_stale (run fid : Z) (d : db) (j : journal) : db :=
  if j_has_entries j && j_crud j then
    match j_entries j with
    | Some e => crud_truncate_from run (Z.of_nat (length e)) (crud_purge_ops run fid d)
    | None => d
    end
  else d.

(* ---------- InternalDBOSAdapter.wait_for_next_task ---------- *)
Definition inst := (Z * Z)%type.            (* (key, uid) *)
Record adapter := { a_j : journal ; a_purged : bool }.
Definition a_new : adapter := {| a_j := j_new true ; a_purged := false |}.

Inductive mode :=
| MEmpty                      (* no tasks at all: returns (None, started) at once *)
| MReplay (t : inst)          (* replay: awaits exactly this task *)
| MFresh (fallback : bool).   (* fresh: awaits any task; fallback = the "Non-deterministic execution" branch *)

Fixpoint find_by_key (l : list inst) (k : Z) : option inst :=
  match l with [] => None | i :: r => if fst i =? k then Some i else find_by_key r k end.
Fixpoint find_by_uid (l : list inst) (u : Z) : option inst :=
  match l with [] => None | i :: r => if snd i =? u then Some i else find_by_uid r u end.
Definition remove_uid (u : Z) (l : list inst) : list inst := filter (fun i => negb (snd i =? u)) l.

(* the part of wait_for_next_task before it blocks; `live` = running ++ started *)
Definition prologue (run fid : Z) (live : list inst) (d : db) (a : adapter) : db * adapter * mode :=
  let j := j_load run d (a_j a) in
  let exp := j_next_expected j in
  let d1 := match exp with
            | None => if a_purged a then d else j_purge_stale run fid d j
            | Some _ => d
            end in
  let pg := match exp with None => true | Some _ => a_purged a end in
  let m := match live with
           | [] => MEmpty
           | _ => match exp with
                  | Some k => match find_by_key live k with Some t => MReplay t | None => MFresh true end
                  | None => MFresh false
                  end
           end in
  (d1, {| a_j := j ; a_purged := pg |}, m).

(* the part after the wait: pick = None (the wait timed out) | Some uid (replay: the target is done;
   fresh: `done.pop()` yielded this task) *)
Definition resolve (run : Z) (live : list inst) (m : mode) (pick : option Z) (d : db) (a : adapter)
  : db * adapter * option inst :=
  match m, pick with
  | MEmpty, _ => (d, a, None)
  | _, None => (d, a, None)
  | MReplay t, Some _ => (d, {| a_j := j_advance (a_j a) ; a_purged := a_purged a |}, Some t)
  | MFresh _, Some u =>
      match find_by_uid live u with
      | Some i => let '(d1, j1) := j_record run (fst i) d (a_j a) in
                  (d1, {| a_j := j1 ; a_purged := a_purged a |}, Some i)
      | None => (d, a, None)      (* get_key raises KeyError: not reachable from the loop below *)
      end
  end.

(* ---------- the control loop around it ---------- *)
(* what the (deterministic) rest of the run does with the results so far: which task keys it starts before the
   next wait, whether that wait has a timeout (a scheduled wake-up exists), and DBOS's current function id *)
Record pinfo := { p_pending : list Z ; p_tmo : bool ; p_fid : Z }.

Record lstate := {
  l_db : db ; l_ad : adapter ;
  l_live : list inst ;            (* running ++ started, in list order *)
  l_done : list Z ;               (* uids of finished asyncio tasks *)
  l_hist : list (option Z) ;      (* results handed to the control loop: Some key | None (timeout) *)
  l_handed : list inst ;          (* the task instances handed out, in order *)
  l_next : Z ;                    (* next uid *)
  l_mode : mode ; l_tmo : bool ;
  l_fb : nat                      (* how often the fallback branch was entered *)
}.

(* environment: a schedule is a list of these *)
Inductive ev :=
| EDone (u : Z)         (* task instance u finishes *)
| ETmo                  (* the timer of the current wait fires *)
| EWake (pick : Z).     (* the waiter resumes; in the fresh branch `pick` is what set.pop() yields *)

Fixpoint spawn (next : Z) (ks : list Z) : list inst :=
  match ks with [] => [] | k :: r => (k, next) :: spawn (next + 1) r end.

Section Loop.
  Variable run : Z.
  Variable prog : list (option Z) -> pinfo.

  Definition enter (d : db) (a : adapter) (live : list inst) (done : list Z) (hist : list (option Z))
             (handed : list inst) (next : Z) (fb : nat) : lstate :=
    let p := prog hist in
    let live' := live ++ spawn next (p_pending p) in
    let '(d1, a1, m) := prologue run (p_fid p) live' d a in
    {| l_db := d1 ; l_ad := a1 ; l_live := live' ; l_done := done ; l_hist := hist ; l_handed := handed ;
       l_next := next + Z.of_nat (length (p_pending p)) ; l_mode := m ; l_tmo := p_tmo p ;
       l_fb := match m with MFresh true => S fb | _ => fb end |}.

  (* a new process: fresh adapter object, no tasks, empty history; only the database survives *)
  Definition init (d : db) : lstate := enter d a_new [] [] [] [] 0 0%nat.

  Definition finish (st : lstate) (pick : option Z) : lstate :=
    let '(d1, a1, res) := resolve run (l_live st) (l_mode st) pick (l_db st) (l_ad st) in
    let live1 := match res with Some i => remove_uid (snd i) (l_live st) | None => l_live st end in
    enter d1 a1 live1 (l_done st) (l_hist st ++ [option_map fst res])
          (l_handed st ++ match res with Some i => [i] | None => [] end) (l_next st) (l_fb st).

  Definition isdone (st : lstate) (u : Z) : bool := existsb (Z.eqb u) (l_done st).
  Definition islive (st : lstate) (u : Z) : bool := existsb (fun i => snd i =? u) (l_live st).
  Definition with_done (st : lstate) (dn : list Z) : lstate :=
    {| l_db := l_db st ; l_ad := l_ad st ; l_live := l_live st ; l_done := dn ; l_hist := l_hist st ;
       l_handed := l_handed st ; l_next := l_next st ; l_mode := l_mode st ; l_tmo := l_tmo st ; l_fb := l_fb st |}.

  Definition step (st : lstate) (e : ev) : lstate :=
    match e with
    | EDone u => if islive st u && negb (isdone st u) then with_done st (u :: l_done st) else st
    | ETmo =>
        match l_mode st with
        | MEmpty => finish st None
        | MReplay t => if l_tmo st && negb (isdone st (snd t)) then finish st None else st
        | MFresh _ => if l_tmo st && negb (existsb (fun i => isdone st (snd i)) (l_live st))
                      then finish st None else st
        end
    | EWake p =>
        match l_mode st with
        | MEmpty => finish st None
        | MReplay t => if isdone st (snd t) then finish st (Some (snd t)) else st
        | MFresh _ => if isdone st p && islive st p then finish st (Some p) else st
        end
    end.

  Definition exec_from (st : lstate) (s : list ev) : lstate := fold_left step s st.
  Definition exec (d : db) (s : list ev) : lstate := exec_from (init d) s.

  (* the loop's own bookkeeping as a function of the result history alone (used to say what
     "the recorded order can be replayed" means): Some (history, live, next uid) *)
  Definition sim_step (acc : option (list (option Z) * list inst * Z)) (r : option Z)
    : option (list (option Z) * list inst * Z) :=
    match acc with
    | None => None
    | Some (h, live, n) =>
        let h' := h ++ [r] in
        match (match r with
               | None => Some live
               | Some k => match find_by_key live k with
                           | Some i => Some (remove_uid (snd i) live)
                           | None => None
                           end
               end) with
        | None => None
        | Some live1 => let ks := p_pending (prog h') in
                        Some (h', live1 ++ spawn n ks, n + Z.of_nat (length ks))
        end
    end.
  Definition sim0 : option (list (option Z) * list inst * Z) :=
    Some ([], spawn 0 (p_pending (prog [])), Z.of_nat (length (p_pending (prog [])))).
  Definition sim (rs : list (option Z)) := fold_left sim_step rs sim0.
End Loop.

Definition keys_of (h : list (option Z)) : list Z :=
  flat_map (fun r => match r with Some k => [k] | None => [] end) h.
Definition notmo (h : list (option Z)) : bool := forallb (fun r => match r with Some _ => true | None => false end) h.

(* ---------- encoders used by the correspondence suite (harness/suites/journal.py) ---------- *)
Definition enc_opt (o : option Z) : Z := match o with Some k => k | None => -1 end.
Definition enc_db (d : db) : list Z :=
  [Z.of_nat (length (d_j d))] ++ flat_map (fun r => [jr_run r ; jr_seq r ; jr_key r]) (d_j d)
  ++ [Z.of_nat (length (d_o d))] ++ flat_map (fun o => [or_run o ; or_fid o]) (d_o d).
Definition enc_journal (j : journal) : list Z :=
  match j_entries j with
  | None => [-1 ; Z.of_nat (j_idx j)]
  | Some e => [Z.of_nat (length e)] ++ e ++ [Z.of_nat (j_idx j)]
  end.
Definition enc_mode (m : mode) : list Z :=
  match m with MEmpty => [0] | MReplay t => [1 ; fst t ; snd t] | MFresh false => [2] | MFresh true => [3] end.
Definition enc_state (st : lstate) : list Z :=
  enc_db (l_db st) ++ enc_journal (a_j (l_ad st)) ++ [if a_purged (l_ad st) then 1 else 0]
  ++ [Z.of_nat (length (l_hist st))] ++ map enc_opt (l_hist st)
  ++ [Z.of_nat (length (l_handed st))] ++ map snd (l_handed st)
  ++ enc_mode (l_mode st) ++ [Z.of_nat (l_fb st)].

(* what the harness can observe of a run (no mode: it is internal to the blocked call) *)
Definition enc_obs (st : lstate) : list Z :=
  enc_db (l_db st) ++ enc_journal (a_j (l_ad st)) ++ [if a_purged (l_ad st) then 1 else 0]
  ++ [Z.of_nat (length (l_hist st))] ++ map enc_opt (l_hist st)
  ++ [Z.of_nat (length (l_handed st))] ++ map snd (l_handed st)
  ++ [Z.of_nat (l_fb st)].
(* cheap position-sensitive checksum (three nested running sums); the harness computes the same *)
Definition hacc := (Z * Z * Z)%type.
Definition hmix (h : hacc) (x : Z) : hacc :=
  let '(a, b, c) := h in let a' := a + x + 2 in let b' := b + a' in (a', b', c + b').
Definition zl_hash (h : hacc) (l : list Z) : hacc := fold_left hmix l h.
Definition hfin (h : hacc) : Z := let '(a, b, c) := h in a + Z.shiftl b 40 + Z.shiftl c 100.
(* schedule with snapshot marks: the observable state is hashed after every marked event *)
Fixpoint exec_obs (run : Z) (prog : list (option Z) -> pinfo) (st : lstate) (s : list (ev * bool)) (h : hacc) : hacc :=
  match s with
  | [] => h
  | (e, m) :: r => let st' := step run prog st e in
                   exec_obs run prog st' r (if m then zl_hash h (enc_obs st') else h)
  end.
Definition run_obs (run : Z) (prog : list (option Z) -> pinfo) (d : db) (m0 : bool) (s : list (ev * bool)) : Z :=
  let st := init run prog d in hfin (exec_obs run prog st s (if m0 then zl_hash (0, 0, 0) (enc_obs st) else (0, 0, 0))).
(* diagnostics: the observable state after the first n events *)
Definition obs_at (run : Z) (prog : list (option Z) -> pinfo) (d : db) (s : list (ev * bool)) (n : nat) : list Z :=
  enc_obs (exec run prog d (map fst (firstn n s))).

Fixpoint zl_diff (n : Z) (a b : list Z) : Z :=
  match a, b with
  | [], [] => 0
  | x :: a', y :: b' => if x =? y then zl_diff (n + 1) a' b' else n
  | _, _ => n
  end.
(* 0 = equal, otherwise 1 + index of the first difference *)
Definition zl_cmp (a b : list Z) : Z := zl_diff 1 a b.

(* prog as a finite table keyed by the encoded history (timeouts = -1); default: nothing pending *)
Fixpoint zl_eqb (a b : list Z) : bool :=
  match a, b with
  | [], [] => true
  | x :: a', y :: b' => (x =? y) && zl_eqb a' b'
  | _, _ => false
  end.
Fixpoint tbl_lookup (t : list (list Z * pinfo)) (h : list Z) : pinfo :=
  match t with
  | [] => {| p_pending := [] ; p_tmo := false ; p_fid := 0 |}
  | (k, v) :: r => if zl_eqb k h then v else tbl_lookup r h
  end.
Definition tbl_prog (t : list (list Z * pinfo)) (h : list (option Z)) : pinfo := tbl_lookup t (map enc_opt h).

(* TaskJournal / crud operation scripts (L0 suite) *)
Inductive jop :=
| OLoad | ORecord (k : Z) | OAdvance | ONext | OReplaying | OHasEntries | OPurge (fid : Z)
| ONewJournal (crud : bool)                 (* a new TaskJournal object on the same database *)
| ORawInsert (run seq key : Z) | ORawTruncate (run n : Z) | ORawDelete (run : Z) | ORawLoad (run : Z)
| ORawOp (run fid : Z).                     (* a row in operation_outputs *)
Definition jop_step (run : Z) (s : db * journal) (o : jop) : (db * journal) * list Z :=
  let '(d, j) := s in
  match o with
  | OLoad => ((d, j_load run d j), [])
  | ORecord k => (j_record run k d j, [])
  | OAdvance => ((d, j_advance j), [])
  | ONext => (s, [enc_opt (j_next_expected j)])
  | OReplaying => (s, [if j_is_replaying j then 1 else 0])
  | OHasEntries => (s, [if j_has_entries j then 1 else 0])
  | OPurge fid => ((j_purge_stale run fid d j, j), [])
  | ONewJournal c => ((d, j_new c), [])
  | ORawInsert r q k => ((crud_insert r q k d, j), [])
  | ORawTruncate r n => ((crud_truncate_from r n d, j), [])
  | ORawDelete r => ((crud_delete r d, j), [])
  | ORawLoad r => (s, Z.of_nat (length (crud_load r d)) :: crud_load r d)
  | ORawOp r f => (({| d_j := d_j d ; d_o := d_o d ++ [ {| or_run := r ; or_fid := f |} ] |}, j), [])
  end.
Fixpoint jop_run (run : Z) (s : db * journal) (ops : list jop) : list Z :=
  match ops with
  | [] => enc_db (fst s) ++ enc_journal (snd s)
  | o :: r => let '(s', out) := jop_step run s o in out ++ jop_run run s' r
  end.

(* ---------- flat-integer case decoders (harness glue: Coq elaborates flat `list Z` literals much faster than
   structured terms; a decoding slip shows up as a disagreement, never as a silent pass) ---------- *)
Fixpoint take (n : nat) (l : list Z) : list Z * list Z :=
  match n, l with
  | O, _ => ([], l)
  | S n', x :: r => let '(a, b) := take n' r in (x :: a, b)
  | S _, [] => ([], [])
  end.
Definition take_len (l : list Z) : list Z * list Z :=
  match l with n :: r => take (Z.to_nat n) r | [] => ([], []) end.
(* table entry: [parent entry index + 1 (0 = the empty history) ; last result + 1 ; n pending ; pending ... ;
   16 * timer + function id]; parents come before children *)
Fixpoint dec_tbl (n : nat) (acc : list (list Z)) (l : list Z) : list (list Z * pinfo) * list Z :=
  match n with
  | O => ([], l)
  | S n' =>
      match l with
      | par :: last :: l1 =>
          let h := if par =? 0 then [] else nth (Z.to_nat (par - 1)) acc [] ++ [last - 1] in
          let '(p, l2) := take_len l1 in
          match l2 with
          | tf :: l3 => let '(r, l4) := dec_tbl n' (acc ++ [h]) l3 in
                        ((h, {| p_pending := p ; p_tmo := 16 <=? tf ; p_fid := tf mod 16 |}) :: r, l4)
          | [] => ([], [])
          end
      | _ => ([], [])
      end
  end.
(* journal row = run * 4096 + seq * 64 + key ; operation row = run * 16 + function id *)
Fixpoint dec_rows (n : nat) (l : list Z) : list jrow * list Z :=
  match n, l with
  | S n', v :: l' => let '(x, l2) := dec_rows n' l' in
                     ({| jr_run := v / 4096 ; jr_seq := (v / 64) mod 64 ; jr_key := v mod 64 |} :: x, l2)
  | _, _ => ([], l)
  end.
Fixpoint dec_ops (n : nat) (l : list Z) : list orow * list Z :=
  match n, l with
  | S n', v :: l' => let '(x, l2) := dec_ops n' l' in ({| or_run := v / 16 ; or_fid := v mod 16 |} :: x, l2)
  | _, _ => ([], l)
  end.
Definition dec_db (l : list Z) : db * list Z :=
  match l with
  | nr :: l0 =>
      let '(rows, l1) := dec_rows (Z.to_nat nr) l0 in
      match l1 with
      | no :: l2 => let '(ops, l3) := dec_ops (Z.to_nat no) l2 in ({| d_j := rows ; d_o := ops |}, l3)
      | [] => (db_empty, [])
      end
  | [] => (db_empty, [])
  end.
(* event code = ((u * 4 + kind) * 2 + mark), kind 0 = EDone, 1 = ETmo, 2 = EWake *)
Definition dec_ev (c : Z) : ev * bool :=
  let q := c / 2 in
  let kind := q mod 4 in
  let u := q / 4 in
  ((if kind =? 0 then EDone u else if kind =? 1 then ETmo else EWake u), Z.odd c).
(* runs of one generated workflow: 0 = all agree, else 1 + index of the first run that differs *)
Fixpoint dec_runs (t : list (list Z * pinfo)) (n : nat) (idx : Z) (l : list Z) : Z :=
  match n with
  | O => 0
  | S n' =>
      let '(d, l1) := dec_db l in
      match l1 with
      | m0 :: l2 =>
          let '(evs, l3) := take_len l2 in
          match l3 with
          | expected :: l4 =>
              if run_obs 0 (tbl_prog t) d (m0 =? 1) (map dec_ev evs) =? expected
              then dec_runs t n' (idx + 1) l4 else idx + 1
          | [] => idx + 1
          end
      | [] => idx + 1
      end
  end.
Definition loop_case (l : list Z) : Z :=
  match l with
  | nt :: l0 => let '(t, l1) := dec_tbl (Z.to_nat nt) [] l0 in
                match l1 with nr :: l2 => dec_runs t (Z.to_nat nr) 0 l2 | [] => -1 end
  | [] => -1
  end.
(* diagnostics for one run: observable state after the first n events *)
Definition loop_obs_at (tl : list Z) (dl : list Z) (evs : list Z) (n : Z) : list Z :=
  match tl with
  | nt :: l0 => let '(t, _) := dec_tbl (Z.to_nat nt) [] l0 in
                let '(d, _) := dec_db dl in
                obs_at 0 (tbl_prog t) d (map dec_ev evs) (Z.to_nat n)
  | [] => []
  end.

Definition dec_jop (c a b k : Z) : jop :=
  if c =? 0 then OLoad else if c =? 1 then ORecord a else if c =? 2 then OAdvance else if c =? 3 then ONext
  else if c =? 4 then OReplaying else if c =? 5 then OHasEntries else if c =? 6 then OPurge a
  else if c =? 7 then ONewJournal (a =? 1) else if c =? 8 then ORawInsert a b k else if c =? 9 then ORawTruncate a b
  else if c =? 10 then ORawDelete a else if c =? 11 then ORawLoad a else ORawOp a b.
(* op = ((code * 12 + (a + 1)) * 12 + (b + 1)) * 8 + k *)
Fixpoint dec_jops (n : nat) (l : list Z) : list jop * list Z :=
  match n, l with
  | S n', v :: l' => let '(x, l2) := dec_jops n' l' in
                     (dec_jop (v / 1152) ((v / 96) mod 12 - 1) ((v / 8) mod 12 - 1) (v mod 8) :: x, l2)
  | _, _ => ([], l)
  end.
(* [nops ; ops ; expected output ...] *)
Definition jops_case (l : list Z) : Z :=
  match l with
  | n :: l0 => let '(ops, expected) := dec_jops (Z.to_nat n) l0 in
               zl_cmp (jop_run 0 (db_empty, j_new true) ops) expected
  | [] => -1
  end.
