(* Comparators used by the `validate` correspondence suite: the implementation's observed outcome
   (encoded by harness/suites/validate.py) against the model's.  No proofs. *)
From Coq Require Import List ZArith Bool.
Import ListNotations.
From WF Require Import Model.Validate.
Open Scope Z_scope.

(* kinds from a bit mask: 1 start, 2 stop, 4 input-required, 8 human-response, 16 step-failed *)
Definition K (m : Z) : kinds :=
  {| k_start := Z.testbit m 0; k_stop := Z.testbit m 1; k_ir := Z.testbit m 2;
     k_hr := Z.testbit m 3; k_sf := Z.testbit m 4 |}.
Definition mkU (tbl : list (Z * Z)) : ty -> kinds :=
  fun t => K (match lookup t tbl with Some m => m | None => 0 end).
Definition St (name : Z) (acc ret : list Z) (handler : bool) (fs : option (list Z)) (mr : option Z)
  (sr sd : bool) : stepc :=
  {| s_name := name; s_acc := acc; s_ret := ret; s_handler := handler; s_for := fs; s_maxrec := mr;
     s_skip_reach := sr; s_skip_dead := sd |}.
Definition Sk (a b c : bool) : skips := {| sk_reach := a; sk_term := b; sk_dead := c |}.

Definition subset (a b : list Z) : bool := forallb (fun x => zmem x b) a.
Definition seteq (a b : list Z) : bool := subset a b && subset b a.
Fixpoint listeq (a b : list Z) : bool :=
  match a, b with
  | [], [] => true
  | x :: a', y :: b' => Z.eqb x y && listeq a' b'
  | _, _ => false
  end.
Definition enc_node (n : node) : Z := match n with NS x => 2 * x | NE t => 2 * t + 1 end.
Definition enc_pair (p : Z * Z) : Z := fst p * 1000 + snd p.
Definition herr_code (e : herr) : Z :=
  match e with HWild _ => 1 | HUnknown _ _ => 2 | HCover _ _ => 3 | HTwice _ _ _ => 4 end.

(* what the harness observed on the real code *)
Inductive pyobs :=
| PAcc (start stop : Z) (hitl : bool) (hs : list Z) (rt : list (Z * Z))
| PRej (cls stage : Z) (d1 d2 d3 : list Z).

(* class of the raised error: 1 WorkflowConfigurationError, 2 WorkflowValidationError *)
Definition rej_class (r : reject) : Z :=
  match r with RNoSteps | RStart0 | RStartMany | RStop0 | RStopMany => 1 | ROutOfFuel => 99 | _ => 2 end.
Definition rej_stage (r : reject) : Z :=
  match r with
  | RNoSteps => 1 | RStart0 => 2 | RStartMany => 3 | RStop0 => 4 | RStopMany => 5
  | RStopConsumer _ => 6 | RUnproduced _ => 7 | RUnconsumed _ => 8 | RMaxRec _ => 9
  | RHandlers _ => 10 | RGraph _ _ _ => 11 | ROutOfFuel => 99
  end.
Definition rej_detail_ok (r : reject) (d1 d2 d3 : list Z) : bool :=
  match r with
  | RStopConsumer l => listeq l d1
  | RUnproduced l | RUnconsumed l => seteq l d1
  | RMaxRec h => listeq [h] d1
  | RHandlers l => listeq (map herr_code l) d1
  | RGraph u d x => seteq u d1 && seteq d d2 && seteq x d3
  | _ => true
  end.

(* 0 = same; stage 0 on the Python side = "message not recognised": only the class is compared *)
Definition cmp_outcome (o : outcome) (p : pyobs) : Z :=
  match o, p with
  | Accept a, PAcc s e h hs rt =>
    if Z.eqb (a_start a) s && Z.eqb (a_stop a) e && Bool.eqb (a_hitl a) h
       && seteq (a_handlers a) hs && seteq (map enc_pair (a_route a)) (map enc_pair rt)
       && Nat.eqb (length (a_route a)) (length rt)
    then 0 else 1
  | Reject r, PRej c st d1 d2 d3 =>
    if Z.eqb (rej_class r) c
       && (Z.eqb st 0 || (Z.eqb (rej_stage r) st && rej_detail_ok r d1 d2 d3))
    then 0 else 1
  | _, _ => 1
  end.

Definition cmp_nodes (m : option (list node)) (p : list Z) : bool :=
  match m with Some l => seteq (map enc_node l) p | None => false end.

(* one case: outcome of _validate_workflow (bit 0), build_step_graph's two reachable sets for the
   start class `s0` and the handler names (bits 1, 2), validate_graph's three offender sets
   (bit 3), validate_catch_error_handlers' error kinds (bit 4) *)
Definition vcase (U : ty -> kinds) (g : graph) (sk : skips) (p : pyobs)
  (s0 : Z) (fwd rv : list Z) (gu gd gx : list Z) (hk : list Z) : Z :=
  cmp_outcome (validate U g sk) p
  + (if cmp_nodes (forward_reachable U g s0) fwd then 0 else 2)
  + (if cmp_nodes (reverse_reachable U g) rv then 0 else 4)
  + (match forward_reachable U g s0, reverse_reachable U g with
     | Some f, Some r =>
       if seteq (unreachable g sk f) gu && seteq (dangling U g sk) gd && seteq (dead_ends g sk r) gx
       then 0 else 8
     | _, _ => 8 end)
  + (if listeq (map herr_code (handler_errors g)) hk then 0 else 16).

(* outcome only (whole generated Workflow classes) *)
Definition vcase_o (U : ty -> kinds) (g : graph) (sk : skips) (p : pyobs) : Z :=
  cmp_outcome (validate U g sk) p.
