From Coq Require Import List ZArith Bool.
Import ListNotations.
From WF Require Import Model.Engine Model.EngineEnc Model.Collect.
Open Scope Z_scope.
Definition enc_result_c (r : result) : list Z :=
  match r with
  | RAddColl b e => 1 :: b :: enc_event e
  | RDelColl b => [2 ; b]
  | _ => [99]
  end.
Definition enc_collect (o : collect_out) : list Z :=
  match o with
  | CReturn l rs => 1 :: enc_list enc_event l ++ enc_list enc_result_c rs
  | CNone rs => 0 :: enc_list enc_result_c rs
  | CIndexError => [-1]
  end.
Definition collect_case (b : Z) (coll : list (Z * list event)) (ev : event) (expected expect : list Z) : Z :=
  if leq (enc_collect (collect b coll ev expected)) expect then 0 else 1.
